#!/bin/bash
# Run checks against a seeded change in an isolated copy, so that /repo and /verif are never touched:
#   git -C /repo worktree add --detach /root/repo_seed HEAD
#   mkdir /root/vseed && git -C /verif archive HEAD | tar -x -C /root/vseed
#   sed -i 's#/repo/#/root/repo_seed/#' /root/vseed/harness/Cargo.toml      (path dependencies of the harness)
#   (cd /root/vseed && KT_REPO=/root/repo_seed ./setup)                      (or copy /verif/.cache to save the build)
# usage: seed_run_copy.sh <seed-name> <Cnn>...      logs and replays go to /verif/seeded/<seed-name>/
# Re-sync the copy after changes to /verif with
#   git -C /verif archive HEAD | tar -x -C /root/vseed --exclude=harness/Cargo.toml --exclude=seeded --exclude=evidence
# and remove both (git -C /repo worktree remove --force /root/repo_seed; rm -rf /root/vseed) when done.
set -u
NAME=$1; shift
S=/verif/seeded/$NAME
R=/root/repo_seed
export KT_REPO=$R
cd $R && git checkout -q -- .
git -C $R apply $S/patch.diff || exit 2
for P in "$@"; do
  cd /root/vseed && timeout 3000 ./check $P --tier quick > $S/check_$P.log 2>&1; RC=$?
  V=$(grep -c "^VIOLATION" $S/check_$P.log)
  echo "$NAME $P: exit=$RC violations=$V :: $(grep '^VIOLATION' $S/check_$P.log | head -2 | tr '\n' ' ') $(tail -1 $S/check_$P.log)"
  [ $RC -ne 0 ] && cp /root/vseed/evidence/$P.replay*.json $S/ 2>/dev/null
done
git -C $R checkout -q -- .
