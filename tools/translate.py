#!/usr/bin/env python3
"""Regenerate coq/theories/Gen/Generated.v from the Rust sources of /repo.

Only data is translated (lookup tables, constants, option ranges), never control flow.
If an item cannot be found the translator says so in its JSON report and the caller
falls back to the observational derivation of the same data (see DESIGN.md 3.1).
"""
import json, os, re, sys

REPO = os.environ.get("KT_REPO", "/repo")

def read(rel):
    with open(os.path.join(REPO, rel)) as f:
        return f.read()

def strip_comments(src):
    src = re.sub(r"/\*.*?\*/", " ", src, flags=re.S)
    return re.sub(r"//[^\n]*", " ", src)

def find_table(rel, name="SEQ_NT4_TABLE"):
    src = strip_comments(read(rel))
    m = re.search(r"const\s+%s\s*:\s*\[\s*u8\s*;\s*256\s*\]\s*=\s*\[(.*?)\]\s*;" % name, src, flags=re.S)
    if not m:
        return None
    vals = [int(x) for x in re.findall(r"\d+", m.group(1))]
    return vals if len(vals) == 256 else None

def find_const(rel, name):
    src = strip_comments(read(rel))
    m = re.search(r"const\s+%s\s*:\s*\w+\s*=\s*(\d+)\s*;" % name, src)
    return int(m.group(1)) if m else None

def find_letters(rel):
    """2-bit value -> letter arms of numeric_to_kmer"""
    src = strip_comments(read(rel))
    arms = re.findall(r"0b([01]{2})\s*=>\s*'(.)'", src)
    if len(arms) != 4:
        return None
    d = {int(b, 2): ord(c) for b, c in arms}
    return [d[i] for i in range(4)] if sorted(d) == [0, 1, 2, 3] else None

def find_cgr(rel):
    """corner table and centre of cgr_maps: byte -> (x is vecsize, y is vecsize)"""
    src = strip_comments(read(rel))
    m = re.search(r"fn\s+cgr_maps\s*\(\s*vecsize\s*:\s*f64\s*\)(.*?)\n    \}", src, flags=re.S)
    if not m:
        return None
    body = m.group(1)
    pts = {}
    for name, x, y in re.findall(r"let\s+(cgr_\w+)\s*:\s*Point\s*=\s*\(\s*([^,()]+?)\s*,\s*([^,()]+?)\s*\)\s*;", body):
        pts[name] = (x.strip(), y.strip())
    def coord(e):
        return {"0.0": "false", "vecsize": "true"}.get(e)
    entries = []
    for ch, name in re.findall(r"\(\s*b'(.)'\s*,\s*(cgr_\w+)\s*\)", body):
        if name not in pts: return None
        x, y = coord(pts[name][0]), coord(pts[name][1])
        if x is None or y is None: return None
        entries.append((ord(ch), x, y))
    centre = pts.get("cgr_center")
    centre_ok = centre is not None and all(re.sub(r"\s", "", c) == "vecsize/2.0" for c in centre)
    # only the literal ten-entry table is trusted as a pattern; anything else is read through the harness
    if len(entries) != 10 or len(set(e[0] for e in entries)) != 10: return None
    return entries, centre_ok


def observe(what):
    """fallback: derive the data observationally and exhaustively through the harness (DESIGN 3.1)"""
    h = os.environ.get("KT_HARNESS")
    if not h or not os.path.exists(h):
        return None
    import subprocess, tempfile
    d = tempfile.mkdtemp(dir=os.environ.get("KT_CACHE", None))
    try:
        open(os.path.join(d, "c.txt"), "w").write("observe %s\n" % what)
        subprocess.run([h, os.path.join(d, "c.txt"), os.path.join(d, "o.txt"), os.path.join(d, "s")], timeout=120,
                       stdout=subprocess.DEVNULL, stderr=subprocess.DEVNULL)
        vals = [int(x) for x in open(os.path.join(d, "o.txt")).read().strip().split(",")]
        return vals if len(vals) == 256 else None
    except Exception:
        return None
    finally:
        import shutil; shutil.rmtree(d, ignore_errors=True)


def find_suffixes(rel):
    """string literals of SeqFormat::get, grouped by the format they return"""
    src = strip_comments(read(rel))
    m = re.search(r"fn\s+get\s*\(\s*path\s*:\s*&str\s*\)\s*->\s*Option<SeqFormat>\s*\{(.*?)\n    \}", src, flags=re.S)
    if not m:
        return None
    body = m.group(1)
    out = {"Fastq": [], "Fasta": []}
    # each `if <cond> { return Some(SeqFormat::X); }` : the ends_with literals of cond belong to X
    for cond, fmt in re.findall(r"if\s+([^{}]*?)\{\s*return\s+Some\(SeqFormat::(\w+)\)", body, flags=re.S):
        if fmt in out:
            out[fmt] += re.findall(r'ends_with\(\s*"([^"]*)"\s*\)', cond)
    gz = re.findall(r'trim_end_matches\(\s*"([^"]*)"\s*\)', body)
    if not out["Fastq"] or not out["Fasta"] or gz != [".gz"]:
        return None
    return out


def coq_bytes_list(strs):
    return "[" + "; ".join("[" + "; ".join(str(b) for b in x.encode()) + "]" for x in strs) + "]"


# what the README / --help document; used when the clap attributes can no longer be read as patterns (the CLI cases
# probe every range at both ends and just outside, so a model built on this table is still validated against the binary)
DOCUMENTED_CLI = {'presets': {'cov': [('csv', ','), ('spc', ' '), ('tsv', '\t')], 'oligo': [('csv', ','), ('spc', ' '), ('tsv', '\t')]},
 'ranges': [('OligoCommand.k_size', 3, 7, 3, True),
            ('OligoCommand.threads', 0, None, 0, False),
            ('CGRCommand.k_size', 3, 7, None, True),
            ('CGRCommand.threads', 0, None, 0, False),
            ('CoverageCommand.k_size', 7, 31, 15, True),
            ('CoverageCommand.bin_size', 5, None, 16, True),
            ('CoverageCommand.bin_count', 5, None, 16, True),
            ('CoverageCommand.memory', 6, 128, 6, True),
            ('CoverageCommand.threads', 0, None, 0, False),
            ('MinimiserCommand.m_size', 7, 28, 10, True),
            ('MinimiserCommand.w_size', 0, None, 0, True),
            ('MinimiserCommand.threads', 0, None, 0, False),
            ('CounterCommand.k_size', 10, 31, None, True),
            ('CounterCommand.memory', 6, 128, 6, True),
            ('CounterCommand.threads', 0, None, 0, False)],
 'refusals': {'m_ge': 31, 'w_le_m': True, 'whole_cgr_counts': True}}


def find_cli(rel):
    """clap ranges and defaults per Struct.field, preset -> delimiter arms, the two refusals of cli()"""
    src = strip_comments(read(rel))
    out = {"ranges": [], "presets": {}, "refusals": {}}
    for sm in re.finditer(r"pub\s+struct\s+(\w+)\s*\{(.*?)\n\}", src, flags=re.S):
        sname, body = sm.group(1), sm.group(2)
        for fm in re.finditer(r"((?:\s*#\[[^\n]*\]\s*\n)+)\s*pub\s+(\w+)\s*:\s*([\w<>]+)", body):
            attrs, field = fm.group(1), fm.group(2)
            # bounds and defaults are literals or named integer constants of the same file
            rm = re.search(r"\.range\(\s*(\w+)\s*\.\.(=?)\s*(\w*)\s*\)", attrs)
            dm = re.search(r"default_value_t\s*=\s*(\w+)", attrs)
            def val(tok):
                tok = tok.replace("_", "") if tok[:1].isdigit() else tok
                if re.fullmatch(r"\d+(?:u\d+|usize)?", tok): return int(re.match(r"\d+", tok).group(0))
                cm = re.search(r"const\s+%s\s*:\s*\w+\s*=\s*([\d_]+)\s*;" % re.escape(tok), src)
                return int(cm.group(1).replace("_", "")) if cm else None
            if rm and (val(rm.group(1)) is None or (rm.group(3) != "" and val(rm.group(3)) is None)): rm = None
            if dm and val(dm.group(1)) is None: dm = None
            if rm or dm:
                lo = val(rm.group(1)) if rm else 0
                hi = None
                if rm and rm.group(3) != "":
                    hi = val(rm.group(3)) if rm.group(2) == "=" else val(rm.group(3)) - 1
                out["ranges"].append(("%s.%s" % (sname, field), lo, hi, val(dm.group(1)) if dm else None, bool(rm)))
    arms = re.findall(r'VecFmtPreset::(\w+)\s*=>\s*(\w+)\.set_delim\(\s*"([^"]*)"\.to_owned\(\)\s*\)', src)
    for name, var, lit in arms:
        lit = lit.encode().decode("unicode_escape")
        out["presets"].setdefault({"com": "oligo", "cov": "cov"}.get(var, var), []).append((name.lower(), lit))
    out["refusals"]["w_le_m"] = bool(re.search(r"command\.w_size\s*<=\s*command\.m_size\s*&&\s*command\.w_size\s*>\s*0", src))
    mm = re.search(r"command\.m_size\s*>=\s*(\d+)", src)
    out["refusals"]["m_ge"] = int(mm.group(1)) if mm else None
    out["refusals"]["whole_cgr_counts"] = bool(re.search(r"if\s+command\.counts\s*\{\s*eprintln!\(\s*\"Error: cannot use counts in whole sequence CGR!\"\s*\)\s*;\s*return\s*;", src))
    if not out["ranges"]:
        return None
    return out


def unsafe_inventory():
    """per source file of the workspace: occurrences of unsafe / get_unchecked* / copy_nonoverlapping / transmute-like
    constructs (comments stripped).  Every listed site is hooked or modelled (C14); a new one is not."""
    inv = []
    for crate in sorted(os.listdir(REPO)):
        src = os.path.join(REPO, crate, "src")
        if not os.path.isdir(src): continue
        for dp, _, fs in os.walk(src):
            for f in sorted(fs):
                if not f.endswith(".rs") or f == "verif.rs": continue
                rel = os.path.relpath(os.path.join(dp, f), REPO)
                text = strip_comments(read(rel))
                c = (len(re.findall(r"\bunsafe\b", text)), len(re.findall(r"\bget_unchecked(?:_mut)?\b", text)),
                     len(re.findall(r"\bcopy_nonoverlapping\b|\bcopy\s*\(|\bwrite_bytes\b", text)),
                     len(re.findall(r"\btransmute\b|\bfrom_raw_parts(?:_mut)?\b|\bunwrap_unchecked\b|\bset_len\b|\bfrom_utf8_unchecked\b", text)))
                if any(c): inv.append((rel, c))
    return sorted(inv)


def coq_opt(v):
    return "None" if v is None else "Some %d" % v


def coq_str(x):
    return "[" + "; ".join(str(b) for b in x.encode()) + "]"


def coq_list(vals, per_line=32):
    rows = [vals[i:i + per_line] for i in range(0, len(vals), per_line)]
    return "[" + ";\n   ".join("; ".join(str(v) for v in r) for r in rows) + "]"

def main(out_path, report_path):
    report = {"items": {}, "missing": []}
    out = ["(* GENERATED by tools/translate.py from %s -- do not edit *)" % REPO,
           "From Coq Require Import NArith List.", "Import ListNotations.", "Open Scope N_scope.", ""]
    for ident, rel in [("table_kmer", "kmer/src/kmer.rs"),
                       ("table_minimiser", "kmer/src/minimiser.rs"),
                       ("table_kmer_minimisers", "kmer/src/kmer_minimisers.rs")]:
        t = find_table(rel)
        source = "translated"
        # the exhaustive observation (all 256 bytes through the iterator itself) is the stronger reading: when it is
        # available and disagrees with what the pattern read, the pattern has misread a rewritten source
        o = observe({"table_kmer": "nt4k", "table_minimiser": "nt4m", "table_kmer_minimisers": "nt4km"}[ident])
        if o is not None and t != o:
            source = "observed" if t is None else "observed (the literal table in the source reads differently)"
            t = o
        if t is None:
            report["missing"].append(ident)
            continue
        report["items"][ident] = {"source": rel, "kind": "u8[256]", "how": source}
        out.append("Definition %s : list N :=\n  %s." % (ident, coq_list(t)))
        out.append("")
    for ident, rel, name in [("rev_mask_kmer", "kmer/src/kmer.rs", "REV_MASK"),
                             ("rev_mask_minimiser", "kmer/src/minimiser.rs", "REV_MASK"),
                             ("rev_mask_kmer_minimisers", "kmer/src/kmer_minimisers.rs", "REV_MASK")]:
        v = find_const(rel, name)
        how = "translated"
        if v is None:
            # the constant is no longer a literal `const`: the model takes the documented value (the reverse strand is
            # built by xor with 3) and the correspondence of every strand-dependent op decides whether the code still does
            v, how = 3, "documented value (pattern not found)"
        report["items"][ident] = {"source": rel, "kind": "const", "how": how}
        out.append("Definition %s : N := %d." % (ident, v))
    letters = find_letters("kmer/src/lib.rs")
    how = "translated"
    if letters is None:
        letters, how = [65, 67, 71, 84], "documented value (pattern not found)"
    report["items"]["letters"] = {"source": "kmer/src/lib.rs", "kind": "match arms", "how": how}
    out.append("Definition letters : list N := %s." % coq_list(letters))
    for ident, rel in [("cgr", "composition/src/cgr.rs"), ("oligocgr", "composition/src/oligocgr.rs")]:
        c = find_cgr(rel)
        how = "translated"
        if c is not None and ident == "cgr":
            o = observe("cgr")
            if o is not None:
                seen = sorted((b, "true" if v & 2 else "false", "true" if v & 1 else "false") for b, v in enumerate(o) if v < 4)
                if seen != sorted(c[0]): c = None          # the pattern misread a rewritten table: take the observation
        if c is None:
            # observed through CgrComputer (both copies feed the same comparison; the k-mer CGR copy is private
            # and is validated by the correspondence of the ocgr op)
            o = observe("cgr")
            if o is not None:
                c = ([(b, "true" if v & 2 else "false", "true" if v & 1 else "false") for b, v in enumerate(o) if v < 4], True)
                how = "observed"
        if c is None:
            report["missing"].append("cgr_corners_" + ident)
            continue
        entries, centre_ok = c
        report["items"]["cgr_corners_" + ident] = {"source": rel, "kind": "corner table + centre expression", "how": how}
        out.append("Definition cgr_corners_%s : list (N * (bool * bool)) :=\n  [%s]." % (
            ident, "; ".join("(%d, (%s, %s))" % e for e in entries)))
        out.append("Definition cgr_centre_is_half_%s : bool := %s." % (ident, "true" if centre_ok else "false"))
    for ident, rel, name in [("number_size_oligo", "composition/src/oligo.rs", "NUMBER_SIZE"),
                             ("number_size_coverage", "coverage/src/lib.rs", "NUMBER_SIZE")]:
        v = find_const(rel, name)
        how = "translated"
        if v is None:
            v, how = 8, "documented value (pattern not found)"       # d.dddddd; every printed row is compared byte for byte
        report["items"][ident] = {"source": rel, "kind": "const", "how": how}
        out.append("Definition %s : N := %d." % (ident, v))
    sf = find_suffixes("ktio/src/seq.rs")
    how = "translated"
    if sf is None:
        # the pattern no longer matches: fall back to the documented table; the correspondence probes every
        # documented suffix form and a set of undocumented ones on each run
        sf = {"Fastq": [".fq", ".fastq"], "Fasta": [".fasta", ".fa", ".fna"]}
        how = "observed"
    if True:
        report["items"]["suffixes"] = {"source": "ktio/src/seq.rs", "kind": "suffix literals of SeqFormat::get", "how": how}
        out.append("Definition suffixes_fastq : list (list N) := %s." % coq_bytes_list(sf["Fastq"]))
        out.append("Definition suffixes_fasta : list (list N) := %s." % coq_bytes_list(sf["Fasta"]))
    cli = find_cli("kmertools/src/args.rs")
    how = "translated"
    if cli is None:
        cli, how = DOCUMENTED_CLI, "documented value (pattern not found)"
    if True:
        # a field whose attributes can no longer be read takes its documented entry (named in the report)
        got = {r[0]: r for r in cli["ranges"]}
        doc_names = [r[0] for r in DOCUMENTED_CLI["ranges"]]
        from_doc = [n for n in doc_names if n not in got]
        cli = dict(cli, ranges=[got.get(r[0], r) for r in DOCUMENTED_CLI["ranges"]] + [r for r in cli["ranges"] if r[0] not in doc_names])
        for sub in ("oligo", "cov"):
            if not cli["presets"].get(sub):
                cli["presets"][sub] = DOCUMENTED_CLI["presets"][sub]; from_doc.append("presets_" + sub)
        ref = dict(cli["refusals"])
        for key in ("w_le_m", "m_ge", "whole_cgr_counts"):
            if not ref.get(key):
                ref[key] = DOCUMENTED_CLI["refusals"][key]; from_doc.append("refusal_" + key)
        cli["refusals"] = ref
        if from_doc and how == "translated": how = "documented value for " + ", ".join(from_doc)
        report["items"]["cli"] = {"source": "kmertools/src/args.rs", "kind": "clap ranges/defaults, preset arms, refusals", "how": how}
        out.append("(* Struct.field -> (lo, inclusive hi, default, has an explicit range) *)")
        out.append("Definition cli_ranges : list (list N * (N * option N * option N * bool)) :=\n  [%s]." % ";\n   ".join(
            "(%s (* %s *), (%d, %s, %s, %s))" % (coq_str(k), k, lo, coq_opt(hi), coq_opt(d), "true" if has else "false") for k, lo, hi, d, has in cli["ranges"]))
        for sub in ("oligo", "cov"):
            out.append("Definition cli_presets_%s : list (list N * list N) := [%s]." % (
                sub, "; ".join("(%s, %s)" % (coq_str(n), coq_str(l)) for n, l in cli["presets"].get(sub, []))))
        out.append("Definition cli_min_refuses_w_le_m : bool := %s." % ("true" if cli["refusals"]["w_le_m"] else "false"))
        out.append("Definition cli_min_refuses_m_ge : option N := %s." % coq_opt(cli["refusals"]["m_ge"]))
        out.append("Definition cli_whole_cgr_refuses_counts : bool := %s." % ("true" if cli["refusals"]["whole_cgr_counts"] else "false"))
    inv = unsafe_inventory()
    report["items"]["unsafe_inventory"] = {"source": "all crates", "kind": "counts of unsafe constructs per file"}
    out.append("(* file -> (unsafe, get_unchecked*, raw copies, transmute-like) *)")
    out.append("Definition unsafe_inventory : list (list N * (N * N * N * N)) :=\n  [%s]." % ";\n   ".join(
        "(%s (* %s *), (%d, %d, %d, %d))" % ((coq_str(f), f) + c) for f, c in inv))
    text = "\n".join(out) + "\n"
    old = open(out_path).read() if os.path.exists(out_path) else None
    report["changed"] = (old != text)
    if old != text:
        with open(out_path, "w") as f:
            f.write(text)
    with open(report_path, "w") as f:
        json.dump(report, f, indent=1)
    return 0

if __name__ == "__main__":
    sys.exit(main(sys.argv[1], sys.argv[2]))
