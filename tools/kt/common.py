"""Shared paths, process helpers, the single seeded PRNG and sequence generators."""
import fcntl, os, random, subprocess, sys

ROOT = os.path.dirname(os.path.dirname(os.path.dirname(os.path.abspath(__file__))))
REPO = os.environ.get("KT_REPO", "/repo")
CACHE = os.path.join(ROOT, ".cache")
COQ = os.path.join(ROOT, "coq")
TARGET = os.path.join(CACHE, "target")
ENV = dict(os.environ, CARGO_NET_OFFLINE="true", CARGO_TARGET_DIR=TARGET,
           RUSTFLAGS="--cfg kmertools_verif", KT_REPO=REPO, RUST_BACKTRACE="0", PIP_NO_INDEX="1", GOPROXY="off")
NPROC = 16


def sh(cmd, cwd=None, timeout=1800, env=None, inp=None):
    try:
        return subprocess.run(cmd, cwd=cwd, env=env or ENV, timeout=timeout, input=inp,
                              stdout=subprocess.PIPE, stderr=subprocess.STDOUT, text=True)
    except subprocess.TimeoutExpired as e:
        class R: pass
        r = R(); r.returncode = 124; r.stdout = "TIMEOUT after %ss: %s" % (timeout, " ".join(map(str, cmd))[:200])
        return r


class Lock:
    """builds are serialised so that checks may be launched in parallel"""
    def __enter__(self):
        os.makedirs(CACHE, exist_ok=True)
        self.f = open(os.path.join(CACHE, "build.lock"), "w")
        fcntl.flock(self.f, fcntl.LOCK_EX)
    def __exit__(self, *a):
        fcntl.flock(self.f, fcntl.LOCK_UN); self.f.close()


def hx(b):
    return bytes(b).hex() if len(b) else "-"

def hxlist(recs):
    return ",".join(hx(r) for r in recs) if recs else "_"

def unhx(s):
    return b"" if s == "-" else bytes.fromhex(s)


class Rng(random.Random):
    """every random choice of a run comes from this one seeded state"""
    def below(self, n):
        return self.randrange(n)
    def pick(self, xs):
        return xs[self.randrange(len(xs))]

NUC = b"ACGT"
NUC10 = b"ACGTacgtUu"
AMBIG = b"NnRYKM-*."
ANY = bytes(range(4, 256))          # bytes 0..3 are left unspecified by the properties

def gen_seq(r, n, amb_pct=None, alpha=None, ascii_only=False):
    """structured sequence: mostly nucleotides, ambiguity rate drawn per case"""
    if amb_pct is None: amb_pct = r.pick([0, 1, 5, 15])
    if alpha is None: alpha = r.pick([b"AC", b"A", NUC, NUC10])
    out = bytearray(r.choices(alpha, k=n))
    if amb_pct and n:
        for i in range(n):
            if r.below(100) < amb_pct:
                out[i] = r.pick(AMBIG) if (ascii_only or r.below(3)) else r.pick(ANY)
    return bytes(out)

def gen_lowc(r, n, amb=True):
    """low-complexity sequences that force ties between equal m-mers"""
    period = 1 + r.below(6)
    unit = bytes(r.choices(NUC, k=period))
    out = bytearray((unit * (n // period + 1))[:n])
    for i in range(n):
        x = r.below(1000)
        if amb and x < 25: out[i] = ord("N")
        elif x < 65: out[i] = r.pick(NUC)
    return bytes(out)

COMP = bytes.maketrans(b"ACGTUacgtu", b"TGCAAtgcaa")
def rc_bytes(s):
    """reverse, complementing letters; other bytes stay in place (as ambiguous)"""
    return s.translate(COMP)[::-1]
