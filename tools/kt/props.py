"""Per-property definitions: case generators (all random choices from the one seeded Rng), which token of
a case line is a shrinkable payload, relations checked on the implementation's own outputs, and the texts
that go into the evidence."""
import os
from .common import *

# token indices (0 = op) holding hex payloads / payload lists, per op: used by the shrinker
PAYLOAD = {"kg": [2], "mg": [3], "kmg": [3], "oligo": [3], "covrow": [6], "cgr": [2], "ocgr": [4],
           "ofile": [10], "osched": [6], "cgrfile": [5], "ocgrfile": [7], "ctr": [6], "cov": [9, 10], "s2m": [5], "m2s": [5], "read": [], "readc": [2], "ctrfs": [4], "covfs": [7], "obig": [], "cli": [4, 5], "hist": [],
           "py:kg": [2], "py:mg": [3], "py:oligo": [3], "py:cgr": [2], "hooks": [], "csched": [], "msched": []}

BASE_TRUSTED = [
    "Coq 8.16.1 kernel incl. vm_compute (no native_compute, no kernel flags, full .vo build)",
    "tools/translate.py (data patterns only) producing Gen/Generated.v from /repo's working tree",
    "Extraction with ExtrOcamlBasic only (its Extract Inductive bool/option/unit/list/prod/sumbool/sumor and Extract Inlined Constant andb/orb) plus one directive of our own, `Extract Constant rev => List.rev` (Coq's quadratic list reversal replaced by OCaml's linear one); OCaml 4.13.1; ocaml/driver.ml (I/O glue only: parsing and rendering are extracted Coq)",
    "in-Coq vm_compute re-evaluation of a sample of the cases cross-checks the extracted code",
    "Rust harness harness/src/*.rs, the generators in tools/kt/props.py, the comparison in ./check",
]


def valid_case(case):
    """cases outside the properties' quantifiers must never be generated, kept in the corpus or produced by shrinking:
    a FASTQ record without bases is not well-formed input (bio's reader rejects it)"""
    p = case.split(" ")
    cont = {"ofile": 8, "cgrfile": 4, "ocgrfile": 6, "ctr": 5, "cov": 8, "s2m": 4, "m2s": 4, "cli": 3}.get(p[0])
    recs = {"ofile": 10, "cgrfile": 5, "ocgrfile": 7, "ctr": 6, "cov": 9, "s2m": 5, "m2s": 5, "cli": 4}.get(p[0])
    if p[0] == "hooks": return valid_case(" ".join(p[1:]))
    if p[0] == "covfs": return len(p) == 8 and ctrfs_ok(sum(len(x) // 2 for x in p[7].split(",") if x not in ("-", "_")), int(p[5]))
    if p[0] == "ctrfs": return len(p) == 5 and ctrfs_ok(sum(len(x) // 2 for x in p[4].split(",") if x not in ("-", "_")), int(p[2]))
    if p[0] == "hist":
        return all(valid_case("cli " + " ".join(p[i:i + 5])) for i in range(2, len(p), 5))
    if cont is not None and len(p) > max(cont, recs) and p[cont].startswith("fq"):
        if any(x == "-" for x in p[recs].split(",")): return False
    return True


def ctrfs_ok(total_len, limit):
    """the partition count of `ctrfs` is modelled in exact arithmetic: stay away from the points where the binary64
    evaluation of ceil(8 * (L / 2^30) / (2 * mem)) could round differently"""
    from fractions import Fraction
    q = Fraction(total_len * 10 ** 9, 2 ** 30 * (2 * limit + 1))
    return total_len == 0 or abs(q - round(q)) > Fraction(1, 10 ** 6)


def spec_fs(inner=None):
    """`ctrfs` / `covfs`: the specification speaks about the result files only (counts table, vectors file), so the
    listing of the directory is reduced to them before it is compared with the specification line"""
    def f(case, out):
        if case.startswith(("ctrfs ", "covfs ")):
            if "|" not in out or out.startswith(("PANIC", "CRASH", "NOT-RUN", "MODEL")): return out
            items = out.split("|")[-1].split(";")
            keep = ("counts=",) if case.startswith("ctrfs ") else ("counts=", "vectors=")
            return ";".join(x for x in items if x.startswith(keep))
        return inner(case, out) if inner else out
    return f


def gen_ctrfs(r, n):
    """the counter's files: one worker, chunk passes by the budget rule; the directory is empty (0), holds planted files
    of a bigger earlier run (1), or holds what a real earlier library run with merge(false) left there (2)"""
    cases = []
    while len(cases) < n:
        k = r.pick([1, 2, 3, 5, 11])
        recs = gen_records(r, k, nmax=8, maxlen=40)
        limit = r.pick([0, 1, 3, 5, 10, 20, 50, 1000, 10 ** 6])
        if not ctrfs_ok(sum(len(x) for x in recs), limit): continue
        cases.append("ctrfs %d %d %d %s" % (k, limit, r.pick([0, 1, 1, 2]), hxlist(recs)))
    return cases


def gen_covfs(r, n):
    """the files of `cov`: count + merge into the output directory, counts table read back, vectors created"""
    cases = []
    while len(cases) < n:
        k = r.pick([1, 2, 3, 7])
        recs = gen_records(r, k, nmax=8, maxlen=40)
        limit = r.pick([0, 1, 3, 5, 10, 20, 50, 1000, 10 ** 6])
        if not ctrfs_ok(sum(len(x) for x in recs), limit): continue
        cases.append("covfs %d %d %d %d %d %d %s" % (k, r.pick([1, 2, 5]), r.pick([1, 2, 4]), r.below(2), limit, r.below(2), hxlist(recs)))
    return cases


def corpus_lines(prop):
    d = os.path.join(ROOT, "corpus", prop)
    out = []
    if os.path.isdir(d):
        for f in sorted(os.listdir(d)):
            out += [l for l in open(os.path.join(d, f)).read().splitlines() if l and not l.startswith("#") and valid_case(l)]
    return out


def klen(r, k):
    return [0, max(k - 1, 0), k, k + 1, 2 * k, 3 * k + 1, r.below(300)][r.below(7)]


# ---------------------------------------------------------------- C01
def gen_C01(r, tier):
    n = {"quick": 30000, "thorough": 600000}[tier]
    cases = []
    # exhaustive alphabet sweep: every specified byte alone (k=1) and inside a clean context (k=2)
    for b in range(4, 256):
        cases.append("kg 1 " + hx([b]))
        cases.append("kg 2 " + hx([65, 67, b, 71, 84]))
    if tier == "thorough":
        import itertools
        alpha = [65, 99, 71, 117, 78, 255]
        for L in range(0, 8):
            for t in itertools.product(alpha, repeat=L):
                for k in range(1, 5):
                    cases.append("kg %d %s" % (k, hx(t)))
    for _ in range(n):
        k = r.pick([1, 15, 16, 17, 30, 31]) if r.below(4) == 0 else 1 + r.below(31)
        s = gen_seq(r, klen(r, k))
        cases.append("kg %d %s" % (k, hx(s)))
    for L in ([65536, 70001] if tier == "quick" else LONG_LENGTHS):
        cases.append("kg %d %s" % (r.pick([1, 16, 31]), hx(long_record(r, L, amb=r.pick([0, 4])))))
    return cases


# ---------------------------------------------------------------- C02
def gen_C02(r, tier):
    cases = []
    kmax = {"quick": 7, "thorough": 9}[tier]
    for k in range(1, kmax + 1):
        for x in range(4 ** k):
            cases.append("rc %d %d" % (k, x)); cases.append("dec %d %d" % (k, x))
    n = {"quick": 6000, "thorough": 200000}[tier]
    for _ in range(n):
        k = 1 + r.below(31)
        c = r.below(5)
        if c == 0: x = 0
        elif c == 1: x = 4 ** k - 1
        elif c == 2 and k % 2 == 0:    # palindrome: code (h ++ rc h)
            h = [r.below(4) for _ in range(k // 2)]
            ds = h + [3 - d for d in reversed(h)]
            x = 0
            for d in ds: x = 4 * x + d
        else: x = r.below(4 ** k)
        cases.append("rc %d %d" % (k, x)); cases.append("dec %d %d" % (k, x))
    # strand symmetry on the iterator: a sequence and its reverse complement (ambiguous bytes included)
    m = {"quick": 4000, "thorough": 60000}[tier]
    for _ in range(m):
        k = r.pick([1, 2, 15, 16, 17, 31]) if r.below(3) == 0 else 1 + r.below(31)
        s = gen_seq(r, klen(r, k))
        cases.append("kg %d %s" % (k, hx(s))); cases.append("kg %d %s" % (k, hx(rc_bytes(s))))
    return cases


def parse_pairs(txt):
    return [tuple(map(int, p.split(":"))) for p in txt.split(",")] if txt else []


def extra_C02(cases, impl):
    """relations on the implementation's own outputs: involution, pair = (x, rc x), strand symmetry"""
    bad = []
    rcmap = {}
    for c, o in zip(cases, impl):
        p = c.split(" ")
        if p[0] == "rc": rcmap[(p[1], p[2])] = o
    for c, o in zip(cases, impl):
        p = c.split(" ")
        if p[0] == "rc" and (p[1], o) in rcmap and rcmap[(p[1], o)] != p[2]:
            bad.append((c, "rev_comp(rev_comp(x)) = %s, expected x" % rcmap[(p[1], o)]))
    last = None
    for c, o in zip(cases, impl):
        p = c.split(" ")
        if p[0] != "kg" or o.startswith(("PANIC", "CRASH", "NOT-RUN")): last = None; continue
        if last is not None and last[0] == p[1] and unhx(p[2]) == rc_bytes(unhx(last[1])):
            a = parse_pairs(last[2]); b = parse_pairs(o)
            if b != [(y, x) for (x, y) in reversed(a)]:
                bad.append((c, "k-mer stream of the reverse complement is not the reversed, strand-swapped stream of %s" % last[1]))
            if sorted(min(x, y) for x, y in a) != sorted(min(x, y) for x, y in b):
                bad.append((c, "canonical multiset differs from that of the reverse complement"))
            last = None
        else:
            last = (p[1], p[2], o)
    return bad


# ---------------------------------------------------------------- C03
def gen_C03(r, tier):
    kmax = {"quick": 7, "thorough": 8}[tier]
    cases = []
    for k in range(1, kmax + 1):
        cases.append("posmap %d" % k); cases.append("header %d" % k)
    for k in (6, 4, 5, 3, 2, 1, 3, 7, 5):    # repeated calls in one process (one shard), k going up and down
        cases.append("posmap %d" % k)
    # the header line of the CLI for every k it accepts and every delimiter preset, both writers
    for k in range(3, 8):
        for preset in ("csv", "tsv", "spc", None):
            for c in (None, 1):
                cases.append(cli_case("oligo", {"k": k, "H": 1, "p": preset, "c": c}, "fa", [b"ACGTNACGTTGCA"]))
    # the header line does not depend on the records: no record at all, one record shorter than k
    for k in (3, 5, 7):
        for c in (None, 1):
            for recs in ([], [b"AC"]):
                cases.append(cli_case("oligo", {"k": k, "H": 1, "p": r.pick(["csv", "tsv", None]), "c": c}, "fa", recs))
    return cases


# ---------------------------------------------------------------- C09 / C18
def gen_min_params(r, wmax_extra=60, wcap=None):
    m = 1 + r.below(4) if r.below(3) == 0 else 1 + r.below(31)
    w = m + [0, r.below(4), r.below(wmax_extra), r.below(wmax_extra)][r.below(4)]
    if wcap: w = min(w, wcap)
    m = min(m, w)
    n = [0, m, max(w - 1, 0), w, w + 1, 2 * w + 3, r.below(400), r.below(400)][r.below(8)]
    s = gen_lowc(r, n) if r.below(2) == 0 else gen_seq(r, n)
    if n and r.below(6) == 0:      # a change on the very last base / a trailing short clean segment
        s = s[:-1] + bytes([r.pick(NUC)])
    if n > w and r.below(6) == 0:
        cut = n - 1 - r.below(w)
        s = s[:cut] + b"N" + s[cut + 1:]
    return w, m, s


def gen_C09(r, tier):
    n = {"quick": 30000, "thorough": 600000}[tier]
    cases = []
    if tier == "thorough":
        import itertools
        for L in range(0, 9):
            for t in itertools.product(b"ACGTN", repeat=L):
                for m in range(1, 4):
                    for w in range(m, m + 3):
                        cases.append("mg %d %d %s" % (w, m, hx(t)))
    for _ in range(n):
        w, m, s = gen_min_params(r)
        cases.append("mg %d %d %s" % (w, m, hx(s)))
    return cases


def gen_C18(r, tier):
    n = {"quick": 15000, "thorough": 300000}[tier]
    cases = []
    for _ in range(n):
        w, m, s = gen_min_params(r, wmax_extra=30, wcap=31)
        h = hx(s)
        cases.append("kmg %d %d %s" % (w, m, h)); cases.append("mg %d %d %s" % (w, m, h)); cases.append("kg %d %s" % (w, h))
    # "for every sequence": the two iterators must agree on the pre-encoded bytes 0x00-0x03 as well (what those bytes
    # mean is left unspecified, so these cases have no specification line: model and relations only)
    for _ in range(n // 40):
        w, m, s = gen_min_params(r, wmax_extra=12, wcap=31)
        s = bytes(r.pick(b"\x00\x01\x02\x03ACGTN") if r.below(3) == 0 else b for b in s)
        h = hx(s)
        cases.append("kmg %d %d %s" % (w, m, h)); cases.append("mg %d %d %s" % (w, m, h)); cases.append("kg %d %s" % (w, h))
    return cases


def to_spec_C18(case, out):
    """the property fixes the runs and the concatenation of the k-mer lists, not their distribution over runs"""
    if out.startswith(("PANIC", "CRASH", "NOT-RUN", "MODEL")): return out
    payload = case.split(" ")[-1]
    if payload != "-" and any(b < 4 for b in bytes.fromhex(payload)): return "UNSPECIFIED"      # raw bytes 0..3: relations only
    if not case.startswith("kmg "): return out
    items = out.split(",") if out else []
    runs = [x.split("=")[0] for x in items]
    ks = [v for x in items for v in (x.split("=")[1].split("+") if x.split("=")[1] else [])]
    return ",".join(runs) + "|" + "+".join(ks)


def extra_C18(cases, impl):
    """on the implementation itself: same runs as the plain iterator; k-mer lists concatenate to the canonical w-mers"""
    bad = []
    for i in range(0, len(cases) - 2):
        p = cases[i].split(" ")
        if p[0] != "kmg": continue
        q, z = cases[i + 1].split(" "), cases[i + 2].split(" ")
        if q[0] != "mg" or z[0] != "kg" or q[3] != p[3] or z[2] != p[3]: continue
        if any(o.startswith(("PANIC", "CRASH", "NOT-RUN")) for o in impl[i:i + 3]): continue
        runs = [x.split("=")[0] for x in impl[i].split(",")] if impl[i] else []
        if ",".join(runs) != impl[i + 1]:
            bad.append((cases[i], "runs differ from the plain minimiser iterator: %s vs %s" % (",".join(runs)[:80], impl[i + 1][:80])))
        ks = []
        for x in (impl[i].split(",") if impl[i] else []):
            kk = x.split("=")[1]
            ks += [int(v) for v in kk.split("+")] if kk else []
        canon = [min(a, b) for a, b in parse_pairs(impl[i + 2])]
        if ks != canon:
            bad.append((cases[i], "attached k-mer lists do not concatenate to the canonical w-mers of the k-mer iterator"))
    return bad


# ---------------------------------------------------------------- C04
def gen_record(r, k, maxlen=300):
    c = r.below(10)
    n = [0, 1, max(k - 1, 0), k, k + 1, 2 * k][r.below(6)] if r.below(4) == 0 else r.below(maxlen)
    if c == 0: return bytes([r.pick(NUC)]) * n                      # homopolymer
    if c == 1: return gen_lowc(r, n)
    if c == 2:                                                       # palindromic content
        h = bytes(r.choices(NUC, k=n // 2)); return h + rc_bytes(h)
    if c == 3: return bytes(r.choices(AMBIG, k=n))                   # no valid window at all
    return gen_seq(r, n)

def to_lower(s): return s.lower()
def t_to_u(s): return s.replace(b"T", b"U").replace(b"t", b"u")

def gen_C04(r, tier):
    n = {"quick": 2500, "thorough": 40000}[tier]
    cases = []
    for _ in range(n):
        k = r.pick([1, 2, 3, 3, 4, 4, 5, 6]) if r.below(30) else r.pick([7, 7, 8])
        s = gen_record(r, k, 300 if k <= 6 else 120)
        norm = r.below(2)
        for v in (s, rc_bytes(s), to_lower(s), t_to_u(s), t_to_u(to_lower(s))):
            cases.append("oligo %d %d %s" % (k, norm, hx(v)))
    for L in ([65536, 70000, 131075] if tier == "quick" else LONG_LENGTHS):
        k = r.pick([1, 2, 3])
        rec = long_record(r, L + r.pick([0, k - 1, k]), amb=r.pick([0, 3]))
        cases.append("oligo %d %d %s" % (k, r.below(2), hx(rec)))
        cases.append("ofile %d 1 0 20 %d 4294967296 %s fa 60 %s" % (k, r.pick([1, 4]), r.pick(["mmap", "batch"]), hxlist([b"ACGT", rec, b"AC"])))
    # the printed row through the file API (both writers): homopolymers (frequency exactly 1), single windows, ties
    m = {"quick": 150, "thorough": 2500}[tier]
    for _ in range(m):
        k = r.pick([1, 2, 3, 4, 5])
        recs = []
        for _ in range(1 + r.below(8)):
            c = r.below(5)
            if c == 0: recs.append(bytes([r.pick(NUC10)]) * (k + r.below(6)))              # one canonical k-mer only
            elif c == 1: recs.append(bytes(r.choices(NUC, k=k)))                              # exactly one window
            elif c == 2: recs.append(b"N" + bytes(r.choices(NUC, k=k)) + b"N")               # one window between N's
            elif c == 3: recs.append(bytes(r.choices(NUC, k=k + 127)))                        # 128 windows: ties at 1/128
            else: recs.append(gen_file_seq(r, k, 100, allow_empty=False))
        norm = r.below(4) > 0
        cases.append("ofile %d %d %d %s %d %d %s %s 60 %s" % (k, norm, r.below(2), hx(r.pick([b" ", b",", b"\t"])), pick_threads(r),
                                                              r.pick([1, 100, 4294967296]), r.pick(["auto", "mmap", "batch"]) if norm else r.pick(["auto", "batch"]),
                                                              r.pick(["fa", "fq", "faw"]), hxlist(recs)))
    # records too long for the executable models (beyond 2^24 windows of one k-mer): the proved relation "raw entries
    # sum to the number of valid windows" is checked on the implementation's row
    for kind, L in ([("a", 2 ** 24 + 40), ("ac", 2 ** 25 + 11)] if tier == "quick" else [("a", 2 ** 24 + 40), ("ac", 2 ** 25 + 11), ("lcg", 2 ** 26 + 5), ("a", 2 ** 25 + 3)]):
        cases.append("obig %d %s %d" % (r.pick([1, 2, 3]), kind, L))
    return cases

def extra_C04(cases, impl):
    """invariance of the row under reverse complement, case change and U for T, on the implementation itself
    (groups of five consecutive oligo cases: a record, its reverse complement, lower case, U for T, both)"""
    bad = []
    i = 0
    while i + 4 < len(cases):
        p = [c.split(" ") for c in cases[i:i + 5]]
        if all(q[0] == "oligo" and q[1:3] == p[0][1:3] for q in p):
            base = unhx(p[0][3])
            if [unhx(q[3]) for q in p[1:]] == [rc_bytes(base), to_lower(base), t_to_u(base), t_to_u(to_lower(base))]:
                for j, what in ((1, "reverse complement"), (2, "lower case"), (3, "U for T"), (4, "lower case with u for t")):
                    if impl[i + j] != impl[i]:
                        bad.append((cases[i + j], "row changes under %s of %s" % (what, p[0][3][:60])))
                i += 5; continue
        i += 1
    return bad


# ---------------------------------------------------------------- C08 (record level)
def gen_table(r, k, s, extra=True):
    """multiplicities for the canonical k-mers of s (computed by a throw-away oracle only to pick keys that occur):
    boundary values q*bs-1, q*bs and values far beyond the last bin"""
    return None

def canon_kmers(s, k):
    out = []
    code = {65: 0, 97: 0, 67: 1, 99: 1, 71: 2, 103: 2, 84: 3, 116: 3, 85: 3, 117: 3}
    f = 0; rv = 0; l = 0; mask = (1 << (2 * k)) - 1
    for b in s:
        c = code.get(b)
        if c is None: l = 0; continue
        f = ((f << 2) | c) & mask; rv = (rv >> 2) | ((3 - c) << (2 * (k - 1))); l += 1
        if l >= k: out.append(min(f, rv))
    return out

def gen_C08_rows(r, n):
    cases = []
    for _ in range(n):
        k = r.pick([1, 2, 3, 5, 7, 11, 15, 21, 31])
        bs = r.pick([1, 2, 5, 16, 1000]) if r.below(2) else r.pick([49, 98, 103, 107, 161, 187, 196, 197, 3, 7, 1 + r.below(250)])
        bc = r.pick([1, 2, 5, 16, 40])
        s = gen_record(r, k, 200)
        keys = sorted(set(canon_kmers(s, k)))
        r.shuffle(keys)
        tbl = []
        for x in keys[:40]:
            if r.below(5) == 0: continue                    # absent from the counting input: bin 0
            q = r.below(bc + 3)
            c = [q * bs, max(q * bs - 1, 0), q * bs + r.below(bs), 1, 10 ** 4 * bs, 4294967295][r.below(6)]
            tbl.append("%d:%d" % (x, min(c, 4294967295)))
        cases.append("covrow %d %d %d %d %s %s" % (k, bs, bc, r.below(2), ",".join(tbl) or "_", hx(s)))
    return cases

def gen_C08(r, tier):
    return gen_C08_rows(r, {"quick": 4000, "thorough": 80000}[tier]) + gen_C08_files(r, {"quick": 250, "thorough": 4000}[tier]) \
        + gen_covfs(r, {"quick": 40, "thorough": 400}[tier])


# ---------------------------------------------------------------- C11 / C12 (record level)
def bitlen(n): return n.bit_length()

def to_spec_cgr(case, out):
    """points beyond the exactly-representable prefix (position i needs bitlen S + i + 2 <= 53) are compared with
    the binary64 model only; the exact specification marks them ~"""
    p = case.split(" ")
    if p[0] != "cgr" or out in ("ERR",) or out.startswith(("PANIC", "CRASH", "NOT-RUN", "MODEL")) or not out: return out
    n = 52 - bitlen(int(p[1]))
    items = out.split(",")
    return ",".join(items[:n] + ["~"] * max(0, len(items) - n))

def gen_C11(r, tier):
    n = {"quick": 3000, "thorough": 50000}[tier]
    cases = []
    for b in range(0, 256):                 # rejection clause: every byte value planted (bytes 0..3 included: not letters)
        cases.append("cgr 1 " + hx([b]))
        cases.append("cgr 16 " + hx(b"ACG" + bytes([b]) + b"T"))
    for _ in range(n):
        S = r.pick([1, 2, 3, 16, 1000, 2 ** 20, 1 + r.below(2 ** 20)])
        L = [0, 1, 2, r.below(60), r.below(60), r.below(400)][r.below(6)]
        if tier == "thorough" and r.below(200) == 0: L = 1000 + r.below(4000)
        s = bytes(r.choices(NUC10, k=L))
        if L and r.below(5) == 0:
            i = r.below(L); s = s[:i] + bytes([r.below(256)]) + s[i + 1:]
        cases.append("cgr %d %s" % (S, hx(s)))
    return cases + gen_C11_files(r, {"quick": 300, "thorough": 5000}[tier])

def gen_C12(r, tier):
    n = {"quick": 1500, "thorough": 20000}[tier]
    cases = []
    for _ in range(n):
        k = r.pick([1, 2, 3, 3, 4, 4, 5]) if r.below(10) else r.pick([6, 7])
        S = r.pick([1, 2, 3, 9, 16, 1000, 2 ** 20, 1 + r.below(2 ** 20), 999999, 1000001, 2 ** 20 - 1])
        s = gen_record(r, k, 200 if k <= 5 else 80)
        cases.append("ocgr %d %d %d %s" % (k, S, r.below(2), hx(s)))
        cases.append("oligo %d %s %s" % (k, cases[-1].split(" ")[3], hx(s)))
    return cases + gen_C12_files(r, {"quick": 200, "thorough": 3000}[tier])

def extra_C12(cases, impl):
    """f equals the value the oligonucleotide vector gives that column; (x, y) is the same in every row"""
    bad = []; xy = {}
    for i in range(0, len(cases) - 1):
        p = cases[i].split(" ")
        if p[0] != "ocgr" or not cases[i + 1].startswith("oligo ") or impl[i].startswith(("PANIC", "CRASH", "NOT-RUN", "ERR")): continue
        tr = [t.split(":") for t in impl[i].split(",")]
        if [t[2] for t in tr] != impl[i + 1].split(","):
            bad.append((cases[i], "frequencies differ from the oligo vector of the same record"))
        key = (p[1], p[2]); pts = [(t[0], t[1]) for t in tr]
        if xy.setdefault(key, pts) != pts:
            bad.append((cases[i], "(x, y) of the columns differs between rows for k=%s S=%s" % key))
    return bad


# ---------------------------------------------------------------- file level (C05, C07, C08, C10, C11, C12)
FILE_AMBIG = b"NnRYKM-*."      # what may stand in a sequence line: printable, no whitespace, not '>' '+' '@'
CONTAINERS = ["fa", "faw", "facrlf", "fq", "fagz", "fqgz", "fagzm", "fagz0", "fqgzm"]
ALIGNED = ["fagza", "fagzb", "fagzc", "fagzd"]

def gen_file_seq(r, k, maxlen=120, allow_empty=True):
    c = r.below(12)
    n = [0 if allow_empty else 1, 1, max(k - 1, 1), k, k + 1, 2 * k][r.below(6)] if r.below(4) == 0 else 1 + r.below(maxlen)
    if c == 0: s = bytes([r.pick(NUC)]) * n
    elif c == 1: s = gen_lowc(r, n)
    elif c == 2: s = bytes(r.choices(FILE_AMBIG, k=n))
    else:
        s = bytearray(r.choices(r.pick([NUC, NUC10, b"AC"]), k=n))
        for i in range(n):
            if r.below(100) < r.pick([0, 0, 2, 10]): s[i] = r.pick(FILE_AMBIG)
        s = bytes(s)
    return s

def gen_records(r, k, nmax=40, maxlen=120, container=None):
    n = [0, 1, 2, 3][r.below(4)] if r.below(5) == 0 else r.below(nmax)
    fq = container is not None and container.startswith("fq")
    return [gen_file_seq(r, k, maxlen, allow_empty=not fq) for _ in range(n)]

def pick_threads(r): return r.pick([0, 1, 2, 3, 4, 7, 8, 16, 1 + r.below(16)])

def long_record(r, n, amb=0):
    """a record longer than any internal block size (64 Ki bases and its multiples are aimed at on purpose)"""
    s = bytearray(r.choices(NUC, k=n))
    for _ in range(amb): s[r.below(n)] = ord("N")
    return bytes(s)
LONG_LENGTHS = [65535, 65536, 65537, 70000, 131072, 131075, 200000]

def fa_record_bytes(i, seq):
    """bytes of record i in the harness' single-line FASTA container (`>r<i>[ some description]\\n<seq>\\n`)"""
    return 2 + len(str(i)) + (17 if i % 3 == 1 else 0) + 1 + len(seq) + 1

def block_aligned_records(r, delta, block=8192, blocks=(1, 2)):
    """records whose single-line FASTA file has a record header starting `delta` bytes after a multiple of the reader's
    block size (for each multiple in `blocks`)"""
    recs = []; off = 0
    for b in blocks:
        target = b * block + delta
        while True:
            i = len(recs); L = 80 + r.below(200)
            if off + fa_record_bytes(i, b"x" * L) + 40 > target:        # the next header must land on the target
                L = target - off - fa_record_bytes(i, b"")
                if L < 1: raise ValueError("cannot align")
                recs.append(bytes(r.choices(NUC, k=L))); off = target; break
            recs.append(bytes(r.choices(NUC, k=L))); off += fa_record_bytes(i, recs[-1])
    for _ in range(2 + r.below(4)):
        recs.append(bytes(r.choices(NUC, k=20 + r.below(100))))
    return recs

def many_records(r, n, lo=1, hi=12):
    """hundreds to thousands of short, pairwise different records: a writer that formats or flushes in blocks,
    or derives a row position from completion order, shows only on batches larger than its block size"""
    return [bytes(r.choices(NUC, k=lo + r.below(hi - lo + 1))) for _ in range(n)]

def gen_C05(r, tier):
    n = {"quick": 260, "thorough": 4000}[tier]
    cases = []
    for _ in range(n):
        k = r.pick([1, 2, 3, 3, 4, 5])
        writer = r.pick(["auto", "mmap", "batch"])
        norm = 1 if writer == "mmap" else r.below(2)
        hdr = r.below(2)
        delim = r.pick([b",", b"\t", b" "]) if r.below(6) else r.pick([b"", b"::", b" | ", b";;;;"])
        mem = r.pick([1, 50, 100, 1000, 4294967296])
        cont = r.pick(CONTAINERS)
        recs = gen_records(r, k, nmax=40 if k <= 4 else 15, container=cont)
        # the same records through other containers / thread counts / writers must give the same bytes
        base = "ofile %d %d %d %s %%d %%d %%s %%s %d %s" % (k, norm, hdr, hx(delim), 1 + r.below(80), hxlist(recs))
        cases.append(base % (pick_threads(r), mem, writer, cont))
        other = r.pick([c for c in CONTAINERS if not (c.startswith("fq") and any(len(x) == 0 for x in recs))])
        w2 = r.pick(["auto", "batch"] + (["mmap"] if norm else []))
        cases.append(base % (pick_threads(r), r.pick([1, 50, 100, 1000, 4294967296]), w2, other))
    # both writers on values that are exact ties at the 7th decimal (c / 128m with c odd), and on the record boundaries of
    # a gzip file whose second member starts around a read-block boundary
    for total in [128, 256, 384, 512, 640]:
        k = r.pick([2, 3, 4])
        recs = [bytes(r.choices(NUC, k=total + k - 1)) for _ in range(1 + r.below(3))] + [bytes(r.choices(NUC, k=128 + k - 1))]
        base = "ofile %d 1 %d 2c %%d %%d %%s %%s 60 %s" % (k, r.below(2), hxlist(recs))
        cases.append(base % (pick_threads(r), 4294967296, "mmap", "fa"))
        cases.append(base % (pick_threads(r), r.pick([1, 1000, 4294967296]), "batch", r.pick(["fa", "fagz"])))
    for delta in (0, -1, 1):
        recs = block_aligned_records(r, delta)
        base = "ofile 2 1 %d 2c %%d %%d %%s %%s 60 %s" % (r.below(2), hxlist(recs))
        cases.append(base % (pick_threads(r), 4294967296, "mmap", "fa"))
        cases.append(base % (pick_threads(r), 1000, "batch", "faw"))
    for cont in ALIGNED:
        recs = [bytes(r.choices(NUC, k=1 + r.below(300))) for _ in range(6 + r.below(60))]
        base = "ofile 2 1 %d 2c %%d %%d %%s %%s 60 %s" % (r.below(2), hxlist(recs))
        cases.append(base % (pick_threads(r), 4294967296, "mmap", cont))
        cases.append(base % (pick_threads(r), 1000, "batch", "fa"))
    for nrec in ([300, 700, 1500, 1100] if tier == "quick" else [300, 700, 1500, 3000, 5000, 2000, 1100, 900]):
        recs = many_records(r, nrec)
        for writer, norm in (("mmap", 1), ("batch", r.below(2))):
            cases.append("ofile 1 %d %d 2c %d %d %s fa 60 %s" % (norm, r.below(2), r.pick([2, 3, 8, 16]), r.pick([4294967296, 2000]), writer, hxlist(recs)))
    # controlled schedules on the mapped writer
    m = {"quick": 200, "thorough": 0}[tier]
    for _ in range(m):
        W = 1 + r.below(4); R = r.below(7)
        recs = [gen_file_seq(r, 2, 20) for _ in range(R)]
        sched = [r.below(W) for _ in range(r.below(4 * R + 6))] + [i for _ in range(2 * R + 3) for i in range(W)]
        cases.append("osched 2 %d %s %d %s %s" % (r.below(2), hx(r.pick([b",", b" ", b"::"])), W, ",".join(map(str, sched)), hxlist(recs)))
    if tier == "thorough":
        import itertools
        for W, R in ((2, 2), (2, 3), (3, 3), (2, 4)):
            # every schedule word over the worker ids up to the length at which everybody has retired
            steps = 2 * R + W
            recs = [gen_file_seq(r, 2, 12) for _ in range(R)]
            words = itertools.product(range(W), repeat=min(steps, 9))
            for wd in words:
                sched = list(wd) + [i for _ in range(2 * R + 3) for i in range(W)]
                cases.append("osched 2 1 2c %d %s %s" % (W, ",".join(map(str, sched)), hxlist(recs)))
    # more than 2^16 records: a record number or row offset kept in a narrower type shows only here (the limit of
    # 100 bases is for the model, whose batch loop is quadratic in the number of buffered records; the mapped writer
    # does not batch)
    big = [bytes(r.choices(NUC, k=1 + r.below(3))) for _ in range(2 ** 16 + 5)]
    cases.append("ofile 1 1 %d 2c %d 100 mmap fa 60 %s" % (r.below(2), r.pick([4, 16]), hxlist(big)))
    return cases

def extra_C05(cases, impl):
    """the same records give identical bytes for every thread count, limit, writer and container"""
    bad = []
    for i in range(0, len(cases) - 1):
        if not (cases[i].startswith("ofile ") and cases[i + 1].startswith("ofile ")): continue
        a, b = cases[i].split(" "), cases[i + 1].split(" ")
        if a[1:5] == b[1:5] and a[10] == b[10] and impl[i] != impl[i + 1]:
            bad.append((cases[i + 1], "output differs from the run with threads=%s mem=%s writer=%s container=%s" % (a[5], a[6], a[7], a[8])))
    return bad


def gen_C07(r, tier):
    n = {"quick": 300, "thorough": 5000}[tier]
    cases = []
    for _ in range(n):
        k = r.pick([1, 2, 3, 5, 10, 15, 21, 31])
        cont = r.pick(["fa", "fa", "fq", "fagz", "faw"])
        c = r.below(4)
        if c == 0:    # highly repetitive: every worker hits the same k-mer
            recs = [bytes([r.pick(NUC)]) * (k + r.below(60)) for _ in range(1 + r.below(30))]
        else:
            recs = gen_records(r, k, nmax=40, maxlen=150, container=cont)
        if cont.startswith("fq"): recs = [x for x in recs if len(x) > 0]
        # ceilings from a few bases per chunk (dozens of chunks and partitions) to a single chunk
        memf = r.pick(["6", "1", "0.000001", "0.0000001", "0.00000005", "0.00000001"])
        cases.append("ctr %d %d %s %d %s %s" % (k, pick_threads(r), memf, r.below(2), cont, hxlist(recs)))
    for L in ([70000] if tier == "quick" else [65536, 70000, 200000]):
        # small k: the table model (nodup / count_occ over the whole k-mer list) is quadratic in the number of distinct k-mers
        cases.append("ctr %d %d 6 0 fa %s" % (r.pick([2, 3]), r.pick([1, 4, 16]), hxlist([long_record(r, L, amb=2), b"ACGTACGTACGTAA"])))
    # one k-mer with more than 2^16 (thorough: 2^17) occurrences, in one record and spread over many: a count kept in
    # a narrower type, or summed wrongly across chunk files, shows only here
    for L in ([2 ** 16 + 7] if tier == "quick" else [2 ** 16 + 7, 2 ** 17 + 5]):
        k = r.pick([1, 5, 15])
        cases.append("ctr %d %d 6 %d fa %s" % (k, r.pick([1, 4, 16]), r.below(2), hxlist([b"A" * L, b"ACGTACGTACGTACGTAA"])))
        many = [b"T" * (k + 63)] * ((L // 64) + 1)
        cases.append("ctr %d %d %s 0 fa %s" % (k, r.pick([2, 8]), r.pick(["6", "0.00001"]), hxlist(many + [b"ACGTACGTACGTACGTAA"])))
    # controlled schedules through the hooks: CHECK / TAKE / INC / ADD / EXIT traces and the content of every chunk pass
    def csched_case(W, recs, k, limit, prefix):
        kmers = sum(max(0, len(x) - k + 1) for x in recs)
        rounds = 2 * (kmers + 5 * len(recs) + 8)
        sched = prefix + [i for _ in range(rounds) for i in range(W)]
        return "csched %d %d %d %s %s" % (k, W, limit, ",".join(map(str, sched)), hxlist(recs))
    for _ in range({"quick": 150, "thorough": 1500}[tier]):
        W = 1 + r.below(3); R = r.below(6); k = r.pick([1, 2, 3])
        recs = [gen_file_seq(r, k, 12) for _ in range(R)]
        limit = r.pick([0, 1, 5, 10, 20, 1000])
        prefix = [r.below(W) for _ in range(r.below(60))]
        cases.append(csched_case(W, recs, k, limit, prefix))
    cases += gen_ctrfs(r, {"quick": 60, "thorough": 600}[tier])
    if tier == "thorough":
        import itertools
        for W, R in ((2, 2), (2, 3)):
            recs = [bytes(r.choices(NUC, k=3)) for _ in range(R)]
            for wd in itertools.product(range(W), repeat=10):
                cases.append(csched_case(W, recs, 2, 3, list(wd)))
    return cases


def gen_C08_files(r, n):
    cases = []
    for _ in range(n):
        k = r.pick([1, 2, 3, 7, 11, 15, 31])
        bs = r.pick([1, 2, 5, 16]); bc = r.pick([1, 2, 5, 16])
        cont = r.pick(["fa", "faw", "fagz"])
        recs = gen_records(r, k, nmax=25, maxlen=100, container=cont)
        if r.below(3) == 0 and recs:     # extreme multiplicity: one k-mer far beyond the last bin
            recs = recs + [bytes([r.pick(NUC)]) * (k + 200)] * (1 + r.below(3))
        alt = recs if r.below(2) else gen_records(r, k, nmax=15, maxlen=100)
        if r.below(4) == 0: recs = recs + [b""] * (1 + r.below(2))      # trailing records without bases (D5)
        delim = r.pick([b",", b"\t", b" "])
        cases.append("cov %d %d %d %d %s %d %d %s %s %s" % (k, bs, bc, r.below(2), hx(delim), pick_threads(r), r.below(2), cont, hxlist(recs), hxlist(alt)))
    for nrec in ([300, 1500] if n <= 400 else [300, 700, 1500, 3000]):
        recs = many_records(r, nrec)
        cases.append("cov 2 2 3 %d 20 %d 0 fa %s %s" % (r.below(2), r.pick([2, 3, 8, 16]), hxlist(recs), hxlist(recs[:50])))
    # a multiplicity above 2^16 in the counting input: bin = floor(c / size) computed on the full count, the bin size
    # chosen so that the k-mer does not land in the last bin (2^16 + 7 occurrences of A^k, bin size 16500: bin 3 of 5)
    k = r.pick([1, 7, 15])
    cases.append("cov %d 16500 5 %d 2c %d 0 fa %s %s" % (k, r.below(2), r.pick([1, 4]), hxlist([b"A" * (k + 40), b"ACGTACGTACGTACGTTTGA"]),
                                                           hxlist([b"A" * (2 ** 16 + 7 + k - 1), b"ACGTACGTACGTACGTTTGA"])))
    return cases


def gen_C10(r, tier):
    n = {"quick": 300, "thorough": 5000}[tier]
    cases = []
    for _ in range(n):
        m = r.pick([1, 2, 3, 5, 7, 10, 15, 28])
        w = 0 if r.below(3) == 0 else m + 1 + r.below(20)
        cont = r.pick(["fa", "fq", "faw", "fagz", "fadup"])       # fadup: every record twice under the same id
        recs = gen_records(r, m, nmax=25, maxlen=150, container=cont)
        if r.below(3) == 0:       # shared minimisers between records
            recs = recs + [x for x in recs[:5]]
        if r.below(4) == 0: recs.append(b"N" + gen_file_seq(r, m, 40, allow_empty=False))    # a read that starts with N (D1)
        if r.below(4) == 0: recs.append(bytes(r.choices(NUC, k=max(1, m - 1))))              # shorter than m (D6)
        if cont.startswith("fq"): recs = [x for x in recs if len(x) > 0]
        t = pick_threads(r)
        cases.append("s2m %d %d %d %s %s" % (w, m, t, cont, hxlist(recs)))
        cases.append("m2s %d %d %d %s %s" % (w, m, pick_threads(r), cont, hxlist(recs)))
    # megabases of long reads whose every window is broken by an N (cheap for the model: no runs at all): every
    # record must still get its line, whatever the reader hands the workers per lock acquisition
    for _ in range(1 if n <= 400 else 3):
        recs = []
        for _ in range(8 + r.below(5)):
            L = 150000 + r.below(100000)
            recs.append((bytes(r.choices(NUC, k=9)) + b"N") * (L // 10))
        cases.append("s2m 15 12 %d fa %s" % (r.pick([1, 4]), hxlist(recs)))
    # records with thousands of runs each (a writer that hands a line over in pieces shows only there)
    for _ in range(1 if n <= 400 else 4):
        recs = [long_record(r, 14000 + r.below(1000)) for _ in range(8)] + many_records(r, 10, 20, 60)
        t = r.pick([4, 8, 16])
        cases.append("s2m 8 5 %d fa %s" % (t, hxlist(recs)))                 # lines of about 60 KiB
        cases.append("m2s 8 5 %d fa %s" % (t, hxlist(recs)))
        # a run at almost every base, 28-mers as text: 24 lines of about 160 KiB each (the run model is quadratic in the record length)
        cases.append("s2m 29 28 %d fa %s" % (r.pick([8, 16]), hxlist([long_record(r, 4000 + r.below(500)) for _ in range(24)] + many_records(r, 10, 20, 60))))
    # more than ten thousand short records, handled within a second (progress reporting every 10000 records)
    recs = [bytes(r.choices(NUC, k=12 + r.below(4))) for _ in range(10500 if n <= 400 else 25000)]
    cases.append("s2m 0 7 %d fa %s" % (r.pick([1, 4]), hxlist(recs)))
    cases.append("m2s 0 7 %d fa %s" % (r.pick([2, 8]), hxlist(recs)))
    cases.append("m2s 12 7 %d fa %s" % (r.pick([2, 8]), hxlist(recs)))
    # controlled schedules through the hooks: TAKE / PUSH (m2s) or WRITE (s2m) / EXIT traces and the resulting lines
    def msched_case(mode, w, m, W, recs, prefix):
        steps = sum(2 + max(0, len(x)) for x in recs) + 4
        sched = prefix + [i for _ in range(2 * steps) for i in range(W)]
        return "msched %s %d %d %d %s %s" % (mode, w, m, W, ",".join(map(str, sched)), hxlist(recs))
    for _ in range({"quick": 150, "thorough": 1500}[tier] if n <= 400 or True else 0):
        W = 1 + r.below(3); R = r.below(6); m = r.pick([1, 2, 3]); w = r.pick([0, m, m + 1, m + 3])
        recs = [gen_file_seq(r, m, 16) for _ in range(R)]
        if r.below(3) == 0 and recs: recs.append(recs[0])
        cases.append(msched_case(r.pick(["s2m", "m2s"]), w, m, W, recs, [r.below(W) for _ in range(r.below(50))]))
    if tier == "thorough":
        import itertools
        for W, R in ((2, 2), (2, 3)):
            recs = [bytes(r.choices(NUC, k=5)) for _ in range(R)]
            for wd in itertools.product(range(W), repeat=10):
                cases.append(msched_case("m2s", 3, 2, W, recs, list(wd)))
    for nrec in ([400, 1500] if n <= 400 else [400, 1500, 4000]):
        recs = many_records(r, nrec, 3, 14)
        t = r.pick([2, 8, 16])
        cases.append("s2m 0 3 %d fa %s" % (t, hxlist(recs)))
        cases.append("m2s 0 3 %d fa %s" % (t, hxlist(recs)))
    return cases

def extra_C10(cases, impl):
    """on the implementation itself: m2s is the exact inversion of s2m of the same records"""
    bad = []
    for i in range(0, len(cases) - 1):
        a, b = cases[i].split(" "), cases[i + 1].split(" ")
        # an s2m case directly followed by the m2s case of the same window, minimiser size, container and records
        if a[0] != "s2m" or b[0] != "m2s" or a[1:3] != b[1:3] or a[4:] != b[4:] or any(o.startswith(("PANIC", "CRASH", "NOT-RUN")) for o in impl[i:i + 2]): continue
        inv = {}
        try:
            for line in (impl[i].split(";") if impl[i] else []):
                rid, runs = line.split("=")
                for run in (runs.split("+") if runs else []):
                    key, s, e = run.split(":")
                    inv.setdefault(key, []).append("%s:%s:%s" % (rid, s, e))
            got = {}
            for line in (impl[i + 1].split(";") if impl[i + 1] else []):
                key, es = line.split("=")
                got[key] = sorted(es.split("+") if es else [])
        except ValueError:
            bad.append((cases[i], "the s2m / m2s output is not of the form id<TAB>mmer:start-end ...")); continue
        if {k: sorted(v) for k, v in inv.items()} != got:
            bad.append((cases[i + 1], "m2s output is not the inversion of the s2m output of the same records"))
    return bad


def gen_C11_files(r, n):
    cases = []
    # records of a few thousand bases whose bases before a multiple of 1024 are low-complexity (halving towards a
    # 0-coordinate corner is exact, so the whole history stays visible in the point): record level and file level
    for _ in range(3 if n <= 400 else 12):
        L = 2048 + r.below(3000)
        s_ = bytearray(r.choices(NUC, k=L))
        for b in range(1024, L, 1024):
            if r.below(3): 
                a = max(0, b - 300 - r.below(100)); e = min(L, b + r.below(80)); alphabet = r.pick([b"A", b"AT", b"AC", b"T", b"C"])
                s_[a:e] = bytes(r.choices(alphabet, k=e - a))
        S = r.pick([1, 16, 1000])
        cases.append("cgr %d %s" % (S, hx(bytes(s_[:L]))))
        cases.append("cgrfile %d %d 4294967296 fa %s" % (S, r.pick([1, 4]), hxlist([b"ACGT", bytes(s_[:L]), b"GG"])))
    for _ in range(n):
        S = r.pick([1, 2, 3, 16, 1000, 2 ** 20])
        cont = r.pick(["fa", "faw", "fq", "fagz"])
        recs = [bytes(r.choices(NUC10, k=(0 if (r.below(6) == 0 and not cont.startswith("fq")) else 1 + r.below(60)))) for _ in range(r.below(30))]
        if r.below(5) == 0 and recs:
            i = r.below(len(recs)); recs[i] = recs[i] + bytes([r.pick(FILE_AMBIG)])
        cases.append("cgrfile %d %d %d %s %s" % (S, pick_threads(r), r.pick([1, 50, 1000, 4294967296]), cont, hxlist(recs)))
    # refusals: one worker / several, the offending byte at the start, in the middle and at the end of a record that is
    # first, in the middle or last; the output file of a refused run must not hold anything of the rejected record
    for _ in range(12 if n <= 400 else 80):
        recs = [bytes(r.choices(NUC10, k=1 + r.below(40))) for _ in range(1 + r.below(6))]
        i = r.below(len(recs)); pos = r.pick([0, len(recs[i]) // 2, len(recs[i])])
        recs[i] = recs[i][:pos] + bytes([r.pick(FILE_AMBIG)]) + recs[i][pos:]
        cases.append("cgrfile %d %d %d fa %s" % (r.pick([1, 16, 1000]), r.pick([1, 1, 2, 8]), r.pick([1, 50, 4294967296]), hxlist(recs)))
    for nrec in ([300, 700, 1500] if n <= 400 else [300, 700, 1500, 3000, 5000, 2000]):
        cases.append("cgrfile 16 %d %d fa %s" % (r.pick([2, 3, 8, 16]), r.pick([4294967296, 4294967296, 2000]), hxlist(many_records(r, nrec, 0, 8))))
    return cases

def to_spec_cgrfile(case, out):
    p = case.split(" ")
    if p[0] != "cgrfile" or out.startswith(("ERR", "PANIC", "CRASH", "NOT-RUN", "MODEL")) or not out: return out
    n = 52 - bitlen(int(p[1]))
    rows = []
    cnt, out = out.split("#", 1) if "#" in out else ("?", out)
    for row in out.split(";"):
        items = row.split(",") if row else []
        rows.append(",".join(items[:n] + ["~"] * max(0, len(items) - n)))
    return cnt + "#" + ";".join(rows)

def gen_C12_files(r, n):
    cases = []
    for _ in range(n):
        k = r.pick([1, 2, 3, 3, 4])
        S = r.pick([1, 2, 3, 9, 16, 1000, 2 ** 20])
        cont = r.pick(["fa", "faw", "fq", "fagz"])
        recs = gen_records(r, k, nmax=20, maxlen=80, container=cont)
        cases.append("ocgrfile %d %d %d %d %d %s %s" % (k, S, r.below(2), pick_threads(r), r.pick([1, 50, 1000, 4294967296]), cont, hxlist(recs)))
    # through the binary (kmertools/src/args.rs is an anchor of this property): every accepted k, explicit sizes incl. 1
    for k in range(3, 8):
        for v in (None, 1, 2, 16, 1000, 2 ** 20):
            recs = gen_records(r, k, nmax=5 if k <= 5 else 2, maxlen=60)
            cases.append(cli_case("cgr", {"k": k, "v": v, "c": r.pick([None, 1]), "t": r.pick([None, 1, 4])}, "fa", recs))
    for L in ([65536, 70000, 200000] if n <= 400 else LONG_LENGTHS):
        k = r.pick([1, 2])
        rec = long_record(r, L + r.pick([0, k - 1, k]), amb=r.pick([0, 2]))
        cases.append("ocgrfile %d 4 %d %d 4294967296 fa %s" % (k, r.below(2), r.pick([1, 4]), hxlist([b"ACGTAC", rec])))
        cases.append("ocgr %d 4 %d %s" % (k, r.below(2), hx(rec)))
    for nrec in ([300, 700, 1500] if n <= 400 else [300, 700, 1500, 3000, 5000, 2000]):
        cases.append("ocgrfile 1 4 %d %d %d fa %s" % (r.below(2), r.pick([2, 3, 8, 16]), r.pick([4294967296, 4294967296, 2000]), hxlist(many_records(r, nrec))))
    return cases


# ---------------------------------------------------------------- C06
SUFFIXES = [(".fa", "fa"), (".fasta", "fa"), (".fna", "fa"), (".fq", "fq"), (".fastq", "fq")]
IDCHARS = b"abcdefghijklmnopqrstuvwxyzABCDEFGHIJKLMNOPQRSTUVWXYZ0123456789_.:|/=+-#"
SEQCHARS = b"ACGTacgtUuNnRYKM-*."

def gen_C06(r, tier):
    n = {"quick": 1500, "thorough": 30000}[tier]
    cases = []
    # format inference: every documented suffix form, with and without .gz, plus names that must not be recognised
    for suf, f in SUFFIXES:
        for gz in ("", ".gz"):
            cases.append("read x%s%s %s %s %s" % (suf, gz, f, hx(b">a\nAC\n" if f == "fa" else b"@a\nAC\n+\nII\n"), hx(b"a") + ":" + hx(b"AC")))
    for bad in ("x.txt", "x.fa.bz2", "x.fagz", "xfa", "x.fq.gzip", "x.FA"):
        cases.append("read %s none %s _" % (bad, hx(b">a\nAC\n")))
    cases.append("read x.fa.gz.gz fa %s %s" % (hx(b">a\nAC\n"), hx(b"a") + ":" + hx(b"AC")))     # trim_end_matches strips repeatedly
    # headers placed exactly on (and next to) multiples of the 8 KiB block size of std's BufReader
    for blk in ([8192, 16384] if tier == "quick" else [8192, 16384, 24576, 65536]):
        for delta in (-1, 0, 1):
            for eol in (b"\n", b"\r\n"):
                recs = []; text = bytearray()
                target = blk + delta
                for i in range(4):
                    rid = ("r%d" % i).encode()
                    hdr = b">" + rid + eol
                    if i == 1:      # pad record 1 so that the header of record 2 starts at `target`
                        L = target - len(text) - len(hdr) - len(eol)
                    else:
                        L = 1 + r.below(200)
                    seq = bytes(r.choices(SEQCHARS, k=max(L, 1)))
                    recs.append((rid, seq)); text += hdr + seq + eol
                exp = ",".join(hx(i_) + ":" + hx(s_) for i_, s_ in recs)
                cases.append("read x.fa fa %s %s" % (hx(bytes(text)), exp))
    # the same record lists through the harness' containers, among them two-member gzip files whose second member
    # starts 1, 2 or 3 bytes before, or exactly on, a 64 KiB boundary of the compressed file (hence of every smaller
    # power-of-two read block; stored blocks, padded in a description)
    for cont in CONTAINERS + ALIGNED:
        for _ in range(2 if tier == "quick" else 12):
            recs = gen_records(r, 3, nmax=30, maxlen=200, container=cont)
            if cont in ALIGNED: recs = [bytes(r.choices(NUC, k=1 + r.below(300))) for _ in range(6 + r.below(60))]
            cases.append("readc %s %s" % (cont, hxlist(recs)))
    for _ in range(n):
        fq = r.below(3) == 0
        nrec = r.pick([0, 1, 2]) if r.below(6) == 0 else r.below(25)
        eol = b"\r\n" if r.below(4) == 0 else b"\n"
        recs = []; text = bytearray(); bounds = []
        for i in range(nrec):
            bounds.append(len(text))
            rid = bytes(r.choices(IDCHARS, k=1 + r.below(12)))
            if fq and rid[:1] == b"@" : rid = b"r" + rid
            desc = b""
            if r.below(3) == 0:
                desc = r.pick([b" ", b"\t"] if not fq else [b" "]) + bytes(r.choices(IDCHARS + b" ", k=1 + r.below(15))).strip() + b"x"
            L = (0 if (r.below(8) == 0 and not fq) else 1 + r.pick([r.below(10), r.below(200), r.below(3000) if r.below(20) == 0 else r.below(100)]))
            seq = bytes(r.choices(SEQCHARS, k=L))
            recs.append((rid, seq))
            if fq:
                # single-line or wrapped sequence; as many quality lines as sequence lines; quality may start with @ or +
                wrap = r.pick([0, 0, 1, 7, 60]); chunks = [seq] if wrap == 0 else [seq[j:j + wrap] for j in range(0, L, wrap)]
                text += b"@" + rid + desc + eol
                for c in chunks: text += c + eol
                text += b"+" + (rid if r.below(4) == 0 else b"") + eol
                for c in chunks:
                    q = bytearray(r.choices(b"!#$%&@+IJK5", k=len(c)))
                    if q and r.below(5) == 0: q[0] = r.pick(b"@+")
                    text += bytes(q) + eol
            else:
                wrap = r.pick([0, 0, 1, 7, 60, 80, 1 + r.below(100)])
                text += b">" + rid + desc + eol
                if L:
                    chunks = [seq] if wrap == 0 else [seq[j:j + wrap] for j in range(0, L, wrap)]
                    for c in chunks: text += c + eol
                elif r.below(2): text += eol                      # an empty sequence line
        text = bytes(text)
        if text and r.below(4) == 0: text = text[:-len(eol)]         # no final line terminator
        suf, f = r.pick([x for x in SUFFIXES if x[1] == ("fq" if fq else "fa")])
        gz = r.below(3) == 0
        if gz and text:
            cuts = sorted(set(r.below(len(text) + 1) for _ in range(r.pick([0, 1, 2, 5]))))
            if bounds and r.below(3) == 0:                       # files joined with cat: members end at record boundaries
                cuts = sorted(set(r.pick(bounds) for _ in range(r.pick([1, 2, 3]))))
            members = [text[a:b] for a, b in zip([0] + cuts, cuts + [len(text)])]
            if r.below(3) == 0: members.append(b"")              # empty final member (bgzip EOF block)
            if r.below(3) == 0:                                  # empty members in between (two bgzip files joined with cat)
                for _ in range(r.pick([1, 1, 2])): members.insert(r.below(len(members) + 1), b"")
        else:
            members = [text]
        exp = ",".join(hx(i) + ":" + hx(s_) for i, s_ in recs) or "_"
        cases.append("read x%s%s %s %s %s" % (suf, ".gz" if gz else "", f, hxlist(members), exp))
    return cases


# ---------------------------------------------------------------- C15 / C16 / C17 (the binary)
def to_spec_cli(case, out):
    """whole-sequence CGR through the binary: same masking of the non-exact tail as for cgrfile"""
    p = case.split(" ")
    if p[0] == "hist": p = ["cli"] + p[-5:]
    if p[0] != "cli" or p[1] != "cgr" or not out.startswith("exit=0|") or out.endswith(("NOOUT", "ERR")): return out
    stt = dict(x.split("=") for x in p[2].split(",") if "=" in x)
    if "k" in stt: return out
    return "exit=0|" + to_spec_cgrfile("cgrfile %s" % stt.get("v", "1"), out[7:])

def cheap_cli(case):
    """cases for the in-Coq sample: vm_compute of a row of 8192 binary64 quotients (k = 7) takes minutes, k <= 5 seconds"""
    p = case.split(" ")
    if len(case) >= 500: return False
    if p[0] == "ofile": return p[1].isdigit() and int(p[1]) <= 5
    if p[0] != "cli": return True
    if p[1] == "min": return True
    if p[1] == "oligo":
        k = dict(x.split("=", 1) for x in p[2].split(",") if "=" in x).get("k", "3")
        return k.isdigit() and int(k) <= 5
    return False

def st(d):
    return ",".join("%s=%s" % kv for kv in d.items() if kv[1] is not None) or "_"

def edge(r, lo, hi, also=()):
    """a value inside, at both ends, or just outside the documented range"""
    c = r.below(10)
    if c == 0: return max(lo - 1, 0) if lo > 0 else hi + 1
    if c == 1 and hi is not None: return hi + 1
    if c == 2: return lo
    if c == 3 and hi is not None: return hi
    pool = list(also) + [lo + r.below((hi if hi is not None else lo + 40) - lo + 1)]
    return r.pick(pool)

def cli_case(sub, d, cont, recs, alt=None):
    return "cli %s %s %s %s %s" % (sub, st(d), cont, hxlist(recs), hxlist(alt) if alt is not None else "_")

def gen_cli_oligo(r):
    k = edge(r, 3, 7) if r.below(3) else None
    d = {"k": k, "c": r.pick([None, 1]), "H": r.pick([None, 1]), "p": r.pick([None, "csv", "tsv", "spc"]), "t": r.pick([None, 0, 1, 2, 7, 16])}
    cont = r.pick(["fa", "faw", "fq", "fagz"])
    if r.below(5) == 0: d["in"] = "-"; cont = r.pick(["fa", "fq"])
    kk = k if (k and 3 <= k <= 7) else 3
    return "oligo", d, cont, gen_records(r, kk, nmax=15 if kk <= 5 else 6, maxlen=80, container=cont)

def gen_cli_cgr(r):
    k = edge(r, 3, 7) if r.below(2) else None
    d = {"k": k, "v": r.pick([None, 1, 2, 16, 1000, 2 ** 20]), "c": r.pick([None, None, 1]), "t": r.pick([None, 0, 1, 2, 7, 16])}
    cont = r.pick(["fa", "faw", "fq"])
    if r.below(6) == 0: d["in"] = "-"; cont = r.pick(["fa", "fq"])      # sequences piped in on stdin
    if k is None:
        recs = [bytes(r.choices(NUC10, k=1 + r.below(50))) for _ in range(r.below(12))]
        if r.below(6) == 0 and recs: recs[r.below(len(recs))] += b"N"
    else:
        kk = k if 3 <= k <= 7 else 3
        recs = gen_records(r, kk, nmax=10 if kk <= 5 else 4, maxlen=60, container=cont)
    return "cgr", d, cont, recs

def gen_cli_cov(r):
    d = {"k": edge(r, 7, 31, also=(7, 11, 15)) if r.below(3) else None, "s": edge(r, 5, None, also=(5, 16, 49, 98, 103, 107)) if r.below(2) else None,
         "b": edge(r, 5, None, also=(5, 16)) if r.below(2) else None, "m": edge(r, 6, 128, also=(6,)) if r.below(3) == 0 else None,
         "p": r.pick([None, "csv", "tsv", "spc"]), "c": r.pick([None, 1]), "a": r.pick([None, None, 1]), "t": r.pick([None, 0, 1, 2, 7, 16])}
    cont = r.pick(["fa", "fq", "fagz"])
    k = d["k"] if d["k"] and 7 <= d["k"] <= 31 else 15
    recs = gen_records(r, k, nmax=12, maxlen=120, container=cont)
    if r.below(3) == 0 and recs: recs += [bytes([r.pick(NUC)]) * (k + 100)] * 2
    if d["s"] and d["s"] >= 5 and r.below(2):      # a k-mer whose multiplicity is an exact multiple of the bin size
        recs = [x for x in recs if len(set(x)) > 1] + [bytes([r.pick(NUC)]) * (k + d["s"] * (1 + r.below(3)) - 1)]
        d["a"] = None
    return "cov", d, cont, recs, gen_records(r, k, nmax=8, maxlen=120)

def gen_cli_min(r):
    m = edge(r, 7, 28, also=(7, 10)) if r.below(3) else None
    mm = m if m is not None else 10
    w = r.pick([None, 0, mm, mm + 1, max(mm - 1, 1), mm + 5 + r.below(20)])
    d = {"m": m, "w": w, "p": r.pick([None, "s2m", "m2s"]), "t": r.pick([None, 0, 1, 2, 7, 16])}
    cont = r.pick(["fa", "fq", "faw"])
    recs = gen_records(r, mm, nmax=12, maxlen=150, container=cont)
    if r.below(2) and recs:          # many reads sharing their minimisers: every worker hits the same keys at once
        base = [x for x in recs if len(x) >= mm][:3] or [bytes(r.choices(NUC, k=40))]
        recs = [b for _ in range(40 + r.below(100)) for b in base]
    return "min", d, cont, recs

def gen_cli_ctr(r):
    d = {"k": edge(r, 10, 31, also=(10, 15, 21)) if r.below(8) else None, "m": edge(r, 6, 128, also=(6,)) if r.below(3) == 0 else None,
         "a": r.pick([None, 1]), "t": r.pick([None, 0, 1, 2, 7, 16])}
    cont = r.pick(["fa", "fq", "fagz"])
    k = d["k"] if d["k"] and 10 <= d["k"] <= 31 else 15
    return "ctr", d, cont, gen_records(r, k, nmax=12, maxlen=150, container=cont)

CLI_GENS = [gen_cli_oligo, gen_cli_cgr, gen_cli_cov, gen_cli_min, gen_cli_ctr]

def gen_C15(r, tier):
    n = {"quick": 220, "thorough": 4000}[tier]
    cases = []
    for _ in range(n):
        g = r.pick(CLI_GENS)(r)
        sub, d, cont, recs = g[0], g[1], g[2], g[3]
        alt = g[4] if len(g) > 4 else None
        cases.append(cli_case(sub, d, cont, recs, alt))
        # the same run with another thread count must not change the result
        d2 = dict(d); d2["t"] = r.pick([None, 1, 3, 16])
        cases.append(cli_case(sub, d2, cont, recs, alt))
        # and the library with the same settings gives the same result (oligo, in range, file input)
        if sub == "oligo" and (d["k"] is None or 3 <= d["k"] <= 7) and d.get("in") is None:
            delim = {None: b" ", "spc": b" ", "csv": b",", "tsv": b"\t"}[d["p"]]
            cases.append("ofile %d %d %d %s %d 4294967296 auto %s 60 %s" % (d["k"] or 3, 0 if d["c"] else 1, 1 if d["H"] else 0, hx(delim), d["t"] or 0, cont, hxlist(recs)))
    # default (mapped) output, --counts and stdin input on records with 128 m windows (exact ties at the 7th decimal),
    # and on a file with a record header on a reader-block boundary
    for kk in (3, 4):
        recs = [bytes(r.choices(NUC, k=128 * mm + kk - 1)) for mm in (1, 2, 3)]
        for extra in ({}, {"c": 1}, {"in": "-"}, {"H": 1, "p": "csv"}):
            cases.append(cli_case("oligo", dict({"k": kk}, **extra), "fa", recs))
    recs = block_aligned_records(r, 0)
    for extra in ({}, {"c": 1}, {"t": 1}):
        cases.append(cli_case("oligo", dict({"k": 3}, **extra), "fa", recs))
    # -t must not change the set of lines even when every worker meets the same new minimiser / k-mer at once
    for _ in range({"quick": 8, "thorough": 60}[tier]):
        base = [bytes(r.choices(NUC, k=30 + r.below(40))) for _ in range(1 + r.below(3))]
        recs = [b for _ in range(150 + r.below(150)) for b in base]
        sub, d = r.pick([("min", {"m": 7, "p": "m2s"}), ("min", {"m": 9, "w": 14, "p": "m2s"}), ("ctr", {"k": 10})])
        for t in (1, 16, 8):
            d2 = dict(d); d2["t"] = t
            cases.append(cli_case(sub, d2, "fa", recs))
    return cases

def extra_C15(cases, impl):
    bad = []
    for i in range(len(cases) - 1):
        a, b = cases[i].split(" "), cases[i + 1].split(" ")
        if a[0] == "cli" and b[0] == "cli" and a[1] == b[1] and a[3:] == b[3:] and a[2] != b[2]:
            sa = dict(x.split("=") for x in a[2].split(",") if "=" in x); sb = dict(x.split("=") for x in b[2].split(",") if "=" in x)
            sa.pop("t", None); sb.pop("t", None)
            if sa == sb and impl[i] != impl[i + 1]:
                bad.append((cases[i + 1], "the thread option changed the result (vs %s)" % a[2]))
        if a[0] == "cli" and b[0] == "ofile" and impl[i].startswith("exit=0|") and impl[i][7:] != impl[i + 1] and i + 1 < len(cases):
            pass
    for i in range(len(cases) - 2):
        if cases[i].startswith("cli oligo") and cases[i + 2].startswith("ofile "):
            if impl[i].startswith("exit=0|") and impl[i][7:] != impl[i + 2]:
                bad.append((cases[i], "the command line result differs from the library result for the same settings"))
    return bad


DEGENERATE = [[], [b""], [b"", b""], [b"A"], [b"N"], [b"NNNNNNNNNNNNNNNNNNNNNNNNNNNNNNNNNNNN"], [b"ACGTACGTAC", b""], [b"", b"ACGTACGTACGTACGTACGTACGTACGTACGTACGT"],
              [b"NACGTACGTACGTACGTACGTACGTACGTACGTACGA"], [b"ACGTACGTACGTACGTACGTACGTACGTACGTACGAN"], [b"", b"N", b"AC", b""]]

def degenerate_records(r, k):
    base = [list(x) for x in DEGENERATE]
    for L in (1, k - 1, k, k + 1):
        if L >= 1: base.append([bytes(r.choices(NUC, k=L))])
    base.append([bytes(r.choices(NUC, k=max(k - 1, 1))), b"N" * k, bytes(r.choices(NUC, k=k))])
    base.append([b"N" + bytes(r.choices(NUC, k=k)), bytes(r.choices(NUC, k=k)) + b"N"])
    return base

def gen_C16(r, tier):
    cases = []
    reps = {"quick": 1, "thorough": 6}[tier]
    for _ in range(reps):
        for t in (1, 8):
            for k in (3, 5):
                for recs in degenerate_records(r, k):
                    for c in (None, 1):            # default = mapped writer, counts = batch writer
                        cases.append(cli_case("oligo", {"k": k, "c": c, "H": r.pick([None, 1]), "t": t}, "fa", recs))
                    cases.append(cli_case("cgr", {"k": k, "t": t, "c": r.pick([None, 1])}, "fa", recs))
                    cases.append("ofile %d 1 %d 2c %d 100 mmap fa 60 %s" % (k, r.below(2), t, hxlist(recs)))
                    cases.append("ocgrfile %d 4 %d %d 100 fa %s" % (k, r.below(2), t, hxlist(recs)))
            for recs in degenerate_records(r, 7):
                clean = [x for x in recs if all(b in NUC10 for b in x)]
                cases.append(cli_case("cgr", {"t": t}, "fa", clean))
                cases.append("cgrfile 1 %d 100 fa %s" % (t, hxlist(clean)))
                cases.append(cli_case("cov", {"k": 7, "s": 5, "b": 5, "t": t, "c": r.pick([None, 1])}, "fa", recs))
                cases.append(cli_case("ctr", {"k": 10, "t": t, "a": r.pick([None, 1])}, "fa", recs))
                cases.append("cov 7 5 5 %d 20 %d %d fa %s %s" % (r.below(2), t, r.below(2), hxlist(recs), hxlist(recs)))
                cases.append("ctr 10 %d 6 0 fa %s" % (t, hxlist(recs)))
                for w in (None, 0, 12):
                    for pm in ("s2m", "m2s"):
                        cases.append(cli_case("min", {"m": 7, "w": w, "p": pm, "t": t}, "fa", recs))
                        cases.append("%s %d 7 %d fa %s" % (pm, w or 0, t, hxlist(recs)))
            for recs in degenerate_records(r, 11):     # around w - 1, w
                cases.append(cli_case("min", {"m": 7, "w": 12, "t": t}, "fa", recs))
            # a k-mer whose multiplicity is exactly bin-size x bin-count (and one below, one above): the last bin
            for extra in (-1, 0, 1):
                recs = [b"A" * (7 + 5 * 5 - 1 + extra), b"ACGTACGTAC", b""]
                cases.append(cli_case("cov", {"k": 7, "s": 5, "b": 5, "t": t, "c": r.pick([None, 1])}, "fa", recs))
            recs = [b"C" * (15 + 16 * 16 - 1), b"ACGTACGTACGTACGTAC"]
            cases.append(cli_case("cov", {"t": t}, "fa", recs))       # the defaults: k 15, 16 x 16 bins
    return cases

def rows_of(case, out):
    """(number of records, number of rows) for record-oriented outputs, or None"""
    p = case.split(" ")
    if p[0] != "cli" or not out.startswith("exit=0|") or out.endswith("NOOUT") or out == "exit=0|ERR": return None
    n = 0 if p[4] == "_" else len(p[4].split(","))
    pay = out[7:]
    if p[1] in ("oligo", "cov"):
        txt = unhx(pay.split("|")[0]) if pay else b""
        rows = txt.count(b"\n") - (1 if ("H=1" in p[2] and p[1] == "oligo") else 0)
        return n, rows, txt
    if p[1] == "cgr": return n, int(pay.split("#")[0]) if "#" in pay else -1, b""
    if p[1] == "min" and "p=m2s" not in p[2]: return n, (len(pay.split(";")) if pay else 0), b""
    return None

def extra_C16(cases, impl):
    bad = []
    for c, o in zip(cases, impl):
        if o.startswith(("PANIC", "CRASH")) or (c.startswith("cli ") and not o.startswith(("exit=0|", "exit=2|"))):
            bad.append((c, "does not end cleanly: %s" % o[:80])); continue
        rr = rows_of(c, o)
        if rr is not None:
            n, rows, txt = rr
            if n != rows: bad.append((c, "%d rows for %d records" % (rows, n)))
            if b"\x00" in txt: bad.append((c, "NUL byte written as data"))
        if (c.startswith("cli min") or c.startswith(("s2m ", "m2s "))) and "TTTTTTT:" in o.replace("=", ":").replace("+", ":+") and ("TTTTTTT=" in o or "=TTTTTTT:" in o or "+TTTTTTT:" in o):
            bad.append((c, "placeholder minimiser written as data"))
    return bad


def gen_C17(r, tier):
    n = {"quick": 60, "thorough": 700}[tier]
    cases = []
    for _ in range(n):
        g = r.pick([gen_cli_oligo, gen_cli_oligo, gen_cli_cov, gen_cli_min, gen_cli_ctr, gen_cli_ctr])
        runs = []
        for j in range(r.pick([2, 2, 3])):
            x = g(r)
            sub, d, cont, recs = x[0], x[1], x[2], x[3]
            alt = x[4] if len(x) > 4 else None
            d.pop("in", None)
            # keep every run of a history accepted: a refused run writes nothing and is outside this property
            if sub == "oligo": d["k"] = r.pick([3, 4, 5])
            if sub == "cov": d.update({"k": r.pick([7, 9]), "s": r.pick([5, 8]), "b": r.pick([5, 9]), "m": None})
            if sub == "min": d.update({"m": r.pick([7, 9]), "w": r.pick([None, 0, 14])})
            if sub == "ctr": d.update({"k": r.pick([10, 12]), "m": None})
            runs.append("%s %s %s %s %s" % (sub, st(d), cont, hxlist(recs), hxlist(alt) if alt is not None else "_"))
        cases.append("hist %d %s" % (r.below(2), " ".join(runs)))
    cases += gen_ctrfs(r, {"quick": 60, "thorough": 600}[tier])
    cases += gen_covfs(r, {"quick": 40, "thorough": 400}[tier])
    # the same command twice (unordered outputs: the same set of lines), many workers meeting the same keys at once
    for _ in range({"quick": 10, "thorough": 60}[tier]):
        base = [bytes(r.choices(NUC, k=30 + r.below(40))) for _ in range(1 + r.below(3))]
        recs = [b for b in base for _ in range(6)] * (20 + r.below(40))
        sub = r.pick(["m2s", "m2s", "s2m"])
        run = "min %s fa %s _" % (st({"m": r.pick([7, 9]), "w": r.pick([None, 14]), "p": sub, "t": r.pick([8, 16])}), hxlist(recs))
        cases.append("hist 0 %s %s" % (run, run))
    return cases


# ---------------------------------------------------------------- C14 (hook logs)
def gen_C14(r, tier):
    n = {"quick": 260, "thorough": 4000}[tier]
    cases = []
    # files larger than the reader's 8 KiB block with a record header exactly on, one before and one after a block
    # boundary: the sizing pre-pass and the record iterator must count the same records
    for delta in (0, -1, 1, 0):
        recs = block_aligned_records(r, delta)
        cases.append("hooks ofile 2 1 %d 2c %d 4294967296 mmap fa 60 %s" % (r.below(2), r.pick([1, 2, 8]), hxlist(recs)))
    for _ in range(n):
        c = r.below(10)
        if c < 5:        # mapped writer: delimiters of length 0..5, header on/off, k 1..6 (7, 8 rarely)
            k = r.pick([1, 2, 3, 4, 5, 6]) if r.below(15) else r.pick([7, 8])
            delim = bytes(r.choices(b",;:| \t", k=r.below(6)))
            recs = gen_records(r, k, nmax=20 if k <= 5 else 4, maxlen=60)
            cases.append("hooks ofile %d 1 %d %s %d %d %s fa 60 %s" % (k, r.below(2), hx(delim), pick_threads(r), r.pick([1, 100, 4294967296]), r.pick(["mmap", "auto"]), hxlist(recs)))
        elif c < 7:      # coverage: bin size / count from 1, multiplicities far beyond the last bin and just at its edge
            k = r.pick([1, 2, 3, 7, 15, 31]); bs = r.pick([1, 2, 3, 5, 16]); bc = r.pick([1, 2, 3, 4, 5, 16])
            recs = gen_records(r, k, nmax=10, maxlen=80)
            edge_mult = bs * bc + r.pick([-1, 0, 1, bs - 1, bs, 5 * bs])          # windows of one k-mer: lands around the last bin
            recs = recs + [bytes([r.pick(NUC)]) * (k + max(edge_mult, 1) - 1)]
            cases.append("hooks cov %d %d %d %d 20 %d %d fa %s %s" % (k, bs, bc, r.below(2), pick_threads(r), r.below(2), hxlist(recs), hxlist(recs)))
        elif c < 9:      # counter: k up to 31, ceilings giving many partitions
            k = r.pick([1, 5, 15, 21, 31])
            recs = gen_records(r, k, nmax=20, maxlen=120)
            cases.append("hooks ctr %d %d %s 0 fa %s" % (k, pick_threads(r), r.pick(["6", "0.0000001", "0.00000001"]), hxlist(recs)))
        else:
            k = r.pick([1, 2, 3, 4, 5])
            recs = gen_records(r, k, nmax=10, maxlen=60)
            cases.append("hooks ocgrfile %d 4 %d %d 100 fa %s" % (k, r.below(2), pick_threads(r), hxlist(recs)))
    for _ in range({"quick": 60, "thorough": 600}[tier]):      # controlled schedules: offsets and bounds at every step
        W = 1 + r.below(4); R = r.below(6)
        recs = [gen_file_seq(r, 2, 20) for _ in range(R)]
        sched = [r.below(W) for _ in range(r.below(4 * R + 6))] + [i for _ in range(2 * R + 3) for i in range(W)]
        cases.append("osched 2 %d %s %d %s %s" % (r.below(2), hx(bytes(r.choices(b",;: ", k=r.below(4)))), W, ",".join(map(str, sched)), hxlist(recs)))
    return cases


# ---------------------------------------------------------------- C13 (Python binding)
def py_executor(cases, tools, work, notes):
    """run the `py:` case lines on the extension built from the working tree, several interpreters in parallel"""
    import subprocess
    from . import run as _run
    parts = _run._shards(cases, 8)
    procs = []
    for j, part in enumerate(parts):
        cf = os.path.join(work, "pycases.%d.txt" % j); of = os.path.join(work, "pyout.%d.txt" % j)
        open(cf, "w").write("\n".join(part) + "\n")
        procs.append((subprocess.Popen(["python3", os.path.join(ROOT, "tools/pyexec.py"), tools["py"], cf, of],
                                       stdout=subprocess.PIPE, stderr=subprocess.STDOUT), of, len(part)))
    out = []
    for p, of, n in procs:
        try: p.communicate(timeout=1500)
        except subprocess.TimeoutExpired: p.kill(); p.communicate()
        res = open(of).read().split("\n")[:-1] if os.path.exists(of) else []
        if len(res) < n:      # the interpreter died: the property says it never may
            res = res + ["CRASH the Python interpreter exited with status %s" % p.returncode] + ["NOT-RUN"] * (n - len(res) - 1)
        out.extend(res[:n])
    return out

def gen_pystr(r, n):
    """a Python str: nucleotide text, mixed case, arbitrary unicode (never U+0000..U+0003), as UTF-8 bytes"""
    c = r.below(6)
    if c <= 2: return gen_seq(r, n, alpha=r.pick([NUC, NUC10]), ascii_only=True)
    out = []
    for _ in range(n):
        x = r.below(20)
        if x < 14: out.append(chr(r.pick(NUC10)))
        elif x < 16: out.append(chr(r.pick(AMBIG)))
        elif x < 17: out.append(chr(r.pick([0x141, 0x143, 0x147, 0x154, 0x175, 0x10041, 0xC1, 0x3041])))     # low byte is a letter
        elif x < 18: out.append(chr(0x80 + r.below(0x780)))
        elif x < 19: out.append(chr(r.pick([0x800 + r.below(0xD000), 0xE000 + r.below(0x1FFF)])))
        else: out.append(chr(0x10000 + r.below(0x100000)))
    return "".join(out).encode("utf-8")

def gen_C13(r, tier):
    n = {"quick": 1200, "thorough": 20000}[tier]
    cases = []
    for k in range(1, 8):
        cases.append("py:header %d" % k)
    for _ in range(n):
        c = r.below(10)
        if c < 3:
            k = 1 + r.below(31); cases.append("py:kg %d %s" % (k, hx(gen_pystr(r, klen(r, k) % 120))))
        elif c < 5:
            w, m, s_ = gen_min_params(r, wmax_extra=20)
            cases.append("py:mg %d %d %s" % (w, m, hx(gen_pystr(r, len(s_) % 150))))
        elif c < 7:
            k = r.pick([1, 2, 3, 4, 5, 6]); L = r.pick([0, k - 1, k, k + 1, r.below(120)])
            cases.append("py:oligo %d %d %s" % (k, r.below(2), hx(gen_pystr(r, max(L, 0)))))
        elif c < 8:
            cases.append("py:cgr %d %s" % (r.pick([1, 2, 16, 1000, 2 ** 20]), hx(gen_pystr(r, r.below(60)))))
        elif c < 9:
            k = r.pick([1, 2, 3, 4]); nb = r.pick([0, 1, 2, r.below(40), r.below(40)])
            recs = [gen_pystr(r, r.pick([0, k, r.below(60)])) for _ in range(nb)]
            cases.append("py:obatch %d %d %s" % (k, r.below(2), hxlist(recs)))
        else:
            nb = r.pick([0, 1, r.below(30)])
            recs = [bytes(r.choices(NUC10, k=r.below(40))) for _ in range(nb)]
            if nb and r.below(4) == 0: recs[r.below(nb)] = gen_pystr(r, 5) + "\u0141".encode("utf-8")
            cases.append("py:cbatch %d %s" % (r.pick([1, 16, 1000]), hxlist(recs)))
        if r.below(12) == 0:
            cases.append("py:dec %d %d" % (lambda k: (k, r.below(4 ** k)))(1 + r.below(31)))
    if tier == "thorough":      # batch sizes in the thousands on the rayon pool
        for _ in range(6):
            recs = [bytes(r.choices(NUC, k=r.below(30))) for _ in range(1000 + r.below(2500))]
            cases.append("py:obatch 2 %d %s" % (r.below(2), hxlist(recs)))
    else:
        recs = [bytes(r.choices(NUC, k=r.below(30))) for _ in range(1500)]
        cases.append("py:obatch 2 1 %s" % hxlist(recs))
        cases.append("py:obatch 2 0 %s" % hxlist(recs[:700]))
    cases.append("py:cbatch 16 %s" % hxlist([bytes(r.choices(NUC10, k=1 + r.below(12))) for _ in range(3000 if tier == "quick" else 9000)]))
    # long strings: iterators consumed far beyond any internal buffer (numbers of k-mers around multiples of 1024),
    # and one vector of a string longer than 2^20 bases
    for k in (1, 11, 31):
        for nk in (1023, 1024, 1025, 2048, 2049, 4097 if tier == "quick" else 20000):
            cases.append("py:kg %d %s" % (k, hx(bytes(r.choices(NUC, k=nk + k - 1)))))
    for w, m in ((8, 5), (31, 31), (20, 1)):
        cases.append("py:mg %d %d %s" % (w, m, hx(long_record(r, 6000, amb=3))))
    for k, norm in ((1, 0), (2, 1)) if tier == "quick" else ((1, 0), (2, 1), (4, 0)):     # small k: the table spec costs columns x windows
        cases.append("py:oligo %d %d %s" % (k, norm, hx(bytes(r.choices(NUC, k=(1 << 20) + 5000 + r.below(100))))))
    # the binding accepts k beyond what the CLI does: columns beyond 2^16 (k = 9, 10), T-rich k-mers (high ranks)
    for k in (8, 9) if tier == "quick" else (8, 9, 10):
        cases.append("py:oligo %d 0 %s" % (k, hx(b"T" * (k - 3) + b"AAATTTTTTTGGGCCCAAATTTACGT" + bytes(r.choices(NUC, k=20)))))
    for k in (6, 4, 5, 3, 2, 1, 3):          # computers built one after another in one interpreter, k going down
        cases.append("py:header %d" % k); cases.append("py:oligo %d 0 %s" % (k, hx(b"ACGTTGCAAGGCTTAACC")))
    return cases

def to_spec_py(case, out):
    p = case.split(" ")
    if p[0] == "py:cgr": return to_spec_cgr("cgr " + " ".join(p[1:]), out)
    if p[0] == "py:cbatch": return to_spec_cgrfile("cgrfile " + p[1], out)
    return out


PROPS = {
    "C01": dict(gen=gen_C01, needs=["harness"],
                rule="corpus, then the exhaustive alphabet sweep (every byte 4..255 alone at k=1 and inside AC?GT at k=2), then seeded structured sequences (per-case ambiguity rate 0/1/5/15 %, k in 1..=31 with extra weight on 1,15,16,17,30,31, boundary lengths 0,k-1,k,k+1,2k,3k+1); thorough adds every string over {A,c,G,u,N,0xFF} up to length 7 for k 1..4; non-trivial = the iterator yields at least one item; distinct = distinct case lines",
                assumptions=["bytes 0x00-0x03 are never generated (left unspecified by the property)"]),
    "C02": dict(gen=gen_C02, needs=["harness"], extra=extra_C02,
                rule="rev_comp and numeric_to_kmer on every code x < 4^k for k <= 7 (quick) / 9 (thorough), random codes for k up to 31 including 0, 4^k-1 and palindromes code(h ++ rc h); the k-mer iterator on seeded sequences and on their reverse complements; non-trivial = non-empty result; relations checked on the implementation's outputs: involution, stream reversal with swapped strands, equal canonical multisets",
                assumptions=["codes >= 4^k are never generated (unspecified)", "bytes 0x00-0x03 are never generated"]),
    "C03": dict(gen=gen_C03, needs=["harness", "cli"], sample_filter=lambda c: (c.startswith("cli") and "k=3" in c) or (not c.startswith("cli") and int(c.split(" ")[1]) <= 5),
                rule="kmer_pos_maps(k) and the header for every k in 1..=7 (quick) / 1..=8 (thorough), all 4^k entries enumerated (entries of non-canonical codes are not compared: unspecified); one case per (op, k), each non-trivial; plus the first line written by `kmertools comp oligo -H` for k in 3..=7 x {csv,tsv,spc,default} x {mapped, batch writer}, also for an input without records and one whose only record is shorter than k",
                assumptions=[], exhaustive=True),
    "C04": dict(gen=gen_C04, needs=["harness"], extra=extra_C04, sample_filter=lambda c: int(c.split(" ")[1]) <= 6 and len(c) < 900,
                rule="seeded records (homopolymers, low-complexity repeats, palindromic h++rc(h), all-ambiguous, mixed with planted ambiguous bytes; boundary lengths 0,1,k-1,k,k+1,2k) for k in 1..=8, raw and normalised, each also as its reverse complement, lower case, U for T and both; vector entries compared as binary64 bit patterns with the Flocq model; non-trivial = some entry non-zero; relations on the implementation: the four respellings give the identical row; for records of 2^24+40 .. 2^26 bases, beyond what the executable models can evaluate, the proved relation 'raw entries sum to the number of valid windows' (and the single column of poly-A) is checked on the implementation's row - a test of a relation, not a comparison with the model",
                nontrivial=lambda c, o: bool(o) and not o.startswith(("PANIC", "CRASH", "NOT-RUN")) and any(x != "0" for x in o.split(",")),
                assumptions=["bytes 0x00-0x03 are never generated", "counts stay below 2^53 (f64 increments exact)"]),
    "C08": dict(gen=gen_C08, needs=["harness"], to_spec=spec_fs(),
                rule="record level: seeded records x k in {1,2,3,5,7,11,15,21,31} x bin sizes {1,2,5,16,1000, 49,98,103,107,161,187,196,197 (reciprocal not exact in binary64), random 1..250} x bin counts {1,2,5,16,40} x raw/normalised, count tables over k-mers that occur in the record with boundary multiplicities q*s-1, q*s, absent k-mers, 10^4*s and u32::MAX; non-trivial = some entry non-zero",
                nontrivial=lambda c, o: bool(o) and not o.startswith(("PANIC", "CRASH", "NOT-RUN")) and any(x != "0" for x in o.split(",")),
                assumptions=["(count as f64 / bin_size as f64).floor() equals integer division for count < 2^32, bin_size < 2^32 (modelled as N division; boundary multiplicities generated on purpose)"]),
    "C11": dict(gen=gen_C11, needs=["harness"], to_spec=lambda c, o: to_spec_cgrfile(c, to_spec_cgr(c, o)),
                rule="record level: every byte value 0..255 alone and planted inside ACG?T (rejection clause, exhaustive), then seeded nucleotide strings over ACGTacgtUu of length 0..400 (thorough: some to 5000) with square sizes {1,2,3,16,1000,2^20,random}, one in five with a random byte planted; coordinates compared bit for bit with the Flocq binary64 model for every length and with the exact dyadic specification on the exactly representable prefix; file level: record lists through the file API (threads, limits, containers, hundreds of records) and refused inputs (offending byte at the start / middle / end of the first / a middle / the last record, 1..8 workers) whose output file must hold nothing of the rejected record; non-trivial = at least one point or a rejection",
                assumptions=["Rust f64 + and / are IEEE-754 binary64 round-to-nearest-even (Flocq's b64_plus, b64_div)"]),
    "C12": dict(gen=gen_C12, needs=["harness", "cli"], extra=extra_C12, sample_filter=lambda c: not c.startswith("cli") and int(c.split(" ")[1]) <= 3 and len(c) < 800,
                sample_limit={"quick": 40, "thorough": 150},
                rule="record level: seeded records x k in 1..=7 x square sizes {1,2,3,9,16,1000,2^20,random} x raw/normalised; triples compared bit for bit (x, y with the Flocq model and the exact dyadic spec; f with the oligo model); each record also goes through the oligo vector: f must equal it and (x, y) must not depend on the record; non-trivial = some f non-zero",
                assumptions=["Rust f64 arithmetic is IEEE-754 binary64 round-to-nearest-even"]),
    "C05": dict(gen=gen_C05, needs=["harness"], sample_limit={"quick": 32, "thorough": 96}, sample_maxlen=700, extra=extra_C05,
                rule="file level: seeded record lists (0..40 records, empty records, all-ambiguous records) x k 1..5 x threads {default,1..16} x memory limit {1,50,100,1000,4 GiB} x header x delimiters {comma,tab,space,empty,'::',' | ',';;;;'} x writer {auto,mmap,batch} x container {FASTA, wrapped FASTA, CRLF FASTA, FASTQ, gzip, multi-member gzip, stored gzip}; every record list is run twice with different settings and the bytes must agree; the setters are called in varying orders, some twice with another value first, and some objects are run twice (chosen by the case); records with 128m windows (values that are exact ties at the 7th decimal) through both writers; two-member gzip files whose second member starts 3, 2, 1 or 0 bytes before a 64 KiB boundary of the compressed file; FASTA files with a record header exactly on, one before and one after a multiple of the reader's 8 KiB block; files of 300..1500 (thorough: 5000) records; then controlled-scheduler replays on the mapped writer (W<=4 workers, R<=6 records, random schedule prefix + round-robin tail): logged TAKE/WRITE/EXIT trace, write offsets and file bytes must equal the Coq schedule model's; thorough enumerates every schedule word for (W,R) in {(2,2),(2,3),(3,3),(2,4)}; non-trivial = non-empty output",
                assumptions=["Mutex-protected reader and one write_at per row are atomic steps (below hook granularity is not modelled)",
                             "rayon's par_iter().map().collect() preserves order (batch writer)"]),
    "C06": dict(gen=gen_C06, needs=["harness"], sample_limit={"quick": 60, "thorough": 200}, sample_maxlen=1500,
                rule="files whose record headers start exactly on, one before and one after multiples of 8192 bytes (the BufReader block size), LF and CRLF; then seeded well-formed record lists (ids over a wide printable alphabet, optional space/tab descriptions, lengths 0..3000, empty FASTA records) printed as FASTA (wrap widths none,1,7,60,80,random; LF or CRLF; with or without final terminator; optional empty sequence line) or FASTQ (single-line or wrapped, '+' line with or without id, quality lines that may start with @ or +), plain or gzip split at random byte positions into 1..6 members (some stored, some deflated, optional empty final member); every documented suffix form with and without .gz and names that must not be recognised; record lists through the harness' containers incl. two-member stored gzip files whose second member starts 3, 2, 1 or 0 bytes before a 64 KiB boundary of the compressed file (`readc`); the implementation's records, numbering and statistics are compared with the line-parser model and with the generating list itself; non-trivial = at least one record",
                nontrivial=lambda c, o: "|" in o and o.split("|")[1] != "",
                assumptions=["the DEFLATE codec itself is not modelled (only the member structure)", "bio 2.0.3's parsers are third-party code, modelled from their source and validated here",
                             "non-UTF-8 input is outside 'well-formed' and never generated"]),
    "C07": dict(gen=gen_C07, needs=["harness"], to_spec=spec_fs(), sample_limit={"quick": 32, "thorough": 96}, sample_maxlen=700,
                rule="file level: seeded record lists (incl. highly repetitive ones) x k {1,2,3,5,10,15,21,31} x threads x memory ceilings from 6 GB down to 1e-8 GB (one chunk to dozens of chunks and partitions) x acgt x container; the sorted lines of kmers.counts and the number of surviving temp files are compared with the model (partitioned counting + merge) and the spec (multiset of canonical k-mers); then controlled-scheduler replays of count() through the hooks (W<=3 workers, R<=5 records, limits 0..1000 so that runs take 1..R+1 chunk passes; random schedule prefix + round-robin tail): the logged CHECK/TAKE/INC/ADD/EXIT trace and the content of every chunk pass must equal the Coq schedule model's; thorough enumerates all 2^10 schedule prefixes for (W,R) in {(2,2),(2,3)}; `ctrfs` cases as for C17 (the files of the counter against the file-level model); non-trivial = at least one k-mer counted",
                assumptions=["scc entry().and_modify().or_insert() and AtomicU64 operations are atomic steps", "total windows < 2^32 (u32 counts)"]),
    "C10": dict(gen=gen_C10, needs=["harness"], sample_limit={"quick": 32, "thorough": 96}, sample_maxlen=700, extra=extra_C10,
                rule="file level: seeded record lists (shared minimisers, reads starting with N, reads shorter than m, empty reads; files in which every record stands twice under the same id; more than 10000 short records) x m {1,2,3,5,7,10,15,28} x w = 0 or m+1..m+20 x threads x container; s2m lines compared as a set, m2s lines as a set with lists as multisets, both against model and spec; on the implementation m2s must be the exact inversion of s2m; then controlled-scheduler replays of both loops through the hooks (W<=3 workers, R<=6 records, random schedule prefix + round-robin tail): the logged TAKE / PUSH / WRITE / EXIT trace and the resulting lines must equal the Coq schedule model's; thorough enumerates all 2^10 schedule prefixes for (W,R) in {(2,2),(2,3)}; non-trivial = at least one line",
                assumptions=["scc entry() and the Mutex-protected writer are atomic steps"]),
    "C09": dict(gen=gen_C09, needs=["harness"],
                rule="corpus (witnesses of the repaired defects D1/D2 first), then seeded (w, m, sequence): m to 31, w to m+60, lengths 0,m,w-1,w,w+1,2w+3 and random to 400, half low-complexity repeats (period 1..6) with planted N and point mutations, a change on the last base, an N within the last window; thorough adds every string over {A,C,G,T,N} up to length 8 for m<=3, w<=m+2; non-trivial = at least one run",
                assumptions=["bytes 0x00-0x03 are never generated"]),
    "C13": dict(gen=gen_C13, needs=["harness", "py"], executor=py_executor, to_spec=to_spec_py,
                sample_filter=lambda c: len(c) < 500, sample_limit={"quick": 40, "thorough": 120},
                rule="the extension module built from the working tree (cargo build -p pip, imported as pykmertools by the sandbox's python3) on seeded Python strings: nucleotide text in mixed case, ambiguity letters, arbitrary unicode incl. code points whose low byte is a nucleotide letter (U+0141, U+10041, ...), astral characters; KmerGenerator / MinimiserGenerator consumed after the source string was deleted and the heap churned; OligoComputer.vectorise_one / get_header / vectorise_batch (batch sizes 0..40, one of 1500; thorough: thousands), CgrComputer.vectorise_one / vectorise_batch incl. ValueError on bad nucleotides; iterators over strings with 1023..4097 (thorough: 20000) k-mers and thousands of runs, one vector of a string longer than 2^20 bases; results compared (vectors as binary64 bit patterns) with the models of the core on the UTF-8 bytes; non-trivial = non-empty result",
                assumptions=["pyo3's str -> String conversion hands the Rust code the UTF-8 encoding of the Python string",
                             "memory safety of the lifetime-extended slice and 'never crashes the interpreter' are exercised (interpreter death = CRASH) but cannot be exhibited by a Gallina model: partial",
                             "code points U+0000..U+0003 are never generated (bytes 0..3 are unspecified)"]),
    "C14": dict(gen=gen_C14, needs=["harness"], sample_limit={"quick": 24, "thorough": 80}, sample_maxlen=600,
                sample_filter=lambda c: not c.startswith("osched") or len(c) < 300,
                rule="event log of the cfg(kmertools_verif) hooks while the library runs: mapped oligo writer with delimiters of length 0..5, header on/off, k 1..8, threads default/1..16, controlled and free schedules, and inputs larger than the reader's 8 KiB block with a record header exactly on / next to a block boundary (the sizing pre-pass against the record iterator); coverage with bin size / count from 1 and a k-mer whose multiplicity lands at the edge of and far beyond the last bin; counter with k to 31 and ceilings giving many partitions; k-mer CGR; every logged unchecked index must satisfy idx < len, every write_at pos + len <= mapping size, the mapped writes must tile the file exactly with no NUL byte left, the (offset, length) of every write_at of the mapped oligo writer must be the model's layout (Proof/MappedBytes.v: header at 0, row n at |header| + n * row length - the layout the byte-level theorem is about), and the numbers of writes and indexings must equal the model's prediction; the harness is a debug build, so std's own get_unchecked precondition checks abort on a violation as well; non-trivial = at least one index or write logged",
                nontrivial=lambda c, o: o.startswith("oob=0") and not o.endswith("writes=0|index=0") or "|" in o and c.startswith("osched"),
                assumptions=["only the hooked sites are observed: an unsafe site without a hook is outside this check (the translator's inventory of unsafe sites is future work)",
                             "what the hardware does on an out-of-bounds write is not modelled: the check shows there is none"]),
    "C15": dict(gen=gen_C15, needs=["harness", "cli"], extra=extra_C15, to_spec=to_spec_cli, sample_filter=cheap_cli, sample_limit={"quick": 12, "thorough": 60}, sample_maxlen=400,
                rule="the kmertools binary built from the working tree over seeded option combinations of all five subcommands: presets, --counts, -H, -t {default,0,1,2,7,16}, --acgt, --alt-input, stdin input, short and long option names, every numeric option inside, at both ends of and just outside its documented range; exit status, presence of output and canonical output compared with the CLI model (regenerated ranges) and the CLI spec (documented ranges); each run repeated with another thread count (must agree) and, for oligo, through the library with the same settings (must agree); non-trivial = the run was accepted and produced output",
                nontrivial=lambda c, o: o.startswith("exit=0|") and not o.endswith(("NOOUT", "|")),
                assumptions=["argv construction from the settings and output canonicalisation are done by the harness (trusted)",
                             "the CLI's memory limits (>= 6 GB) are never reached by test-sized inputs"]),
    "C16": dict(gen=gen_C16, needs=["harness", "cli", "harness_release", "cli_release"], extra=extra_C16, release_too=True,
                to_spec=lambda c, o: to_spec_cgrfile(c, to_spec_cli(c, o)), sample_filter=cheap_cli,
                sample_limit={"quick": 24, "thorough": 80}, sample_maxlen=500,
                rule="degenerate matrix: 0 records; records of length 0, 1, k-1, k, k+1, w-1, w; all-N; N first / last; mixtures with empty records first / last / only; x every subcommand (binary and library) x both oligo writers x w = 0 and w > 0 x threads {1, 8} x debug and release builds; observables: exit status (0, or 2 for clap), no panic/abort, one row per record, no NUL byte, no placeholder minimiser; every output also compared with model and spec; non-trivial = accepted run",
                nontrivial=lambda c, o: o.startswith("exit=0|") or (not c.startswith("cli") and not o.startswith(("PANIC", "CRASH", "NOT-RUN"))),
                assumptions=["runtime aborts and hangs not caused by the modelled logic (allocation failure, poisoned locks) are outside the model"]),
    "C17": dict(gen=gen_C17, needs=["harness", "cli"], to_spec=spec_fs(to_spec_cli), sample_filter=lambda c: len(c) < 600 and " cov " not in c and " ctr " not in c, sample_limit={"quick": 16, "thorough": 60}, sample_maxlen=900,
                rule="histories of two or three accepted runs of one subcommand (different inputs, k, thread counts, presets) sharing one output location, half of them with stale temp chunk files of a bigger run (20 partitions x 4 chunks), a stale kmers.counts and a longer stale kmers.vectors planted before the last run; the result files after the last run are compared with the model/spec of the last run alone (i.e. a fresh location); then `ctrfs` / `covfs`: the counter and `cov` (one worker, budgets 0..10^6 k-mers per chunk pass) in a directory that is empty or holds those stale files - the partition and chunk counts, every file of the directory after count() and every file after merge(true) are compared with the file-level model of the counter (Model/CtrFs.v: names, text, read-back, removal) and - reduced to the result files, counts table and vectors file - with the spec; the same `min` command twice at 8 / 16 threads on groups of identical neighbouring reads; non-trivial = output produced",
                nontrivial=lambda c, o: (o.startswith("exit=0|") and not o.endswith(("NOOUT", "|"))) or (c.startswith(("ctrfs ", "covfs ")) and "counts=" in o and not o.endswith("counts=") and not o.endswith("counts=;vectors")),
                assumptions=["File::create / truncate + set_len / unlink behave as POSIX says (OS semantics are not modelled)"]),
    "C18": dict(gen=gen_C18, needs=["harness"], extra=extra_C18, to_spec=to_spec_C18,
                rule="seeded (w, m, sequence) with m <= w <= 31 as for C09; each sequence goes through the k-mer+minimiser iterator, the plain minimiser iterator and the k-mer iterator; non-trivial = at least one run; relations checked on the implementation's outputs: identical runs, k-mer lists concatenate to the canonical w-mers",
                assumptions=["bytes 0x00-0x03 are generated only for the comparison with the model and for the relations between the iterators (what they mean is unspecified)"]),
}
