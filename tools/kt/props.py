"""Per-property definitions: case generators (all random choices from the one seeded Rng), which token of
a case line is a shrinkable payload, relations checked on the implementation's own outputs, and the texts
that go into the evidence."""
import os
from .common import *

# token indices (0 = op) holding hex payloads / payload lists, per op: used by the shrinker
PAYLOAD = {"kg": [2], "mg": [3], "kmg": [3]}

BASE_TRUSTED = [
    "Coq 8.16.1 kernel incl. vm_compute (no native_compute, no kernel flags, full .vo build)",
    "tools/translate.py (data patterns only) producing Gen/Generated.v from /repo's working tree",
    "Extraction with ExtrOcamlBasic only (its Extract Inductive bool/option/unit/list/prod/sumbool/sumor and Extract Inlined Constant andb/orb; none of our own); OCaml 4.13.1; ocaml/driver.ml (I/O glue only: parsing and rendering are extracted Coq)",
    "in-Coq vm_compute re-evaluation of a sample of the cases cross-checks the extracted code",
    "Rust harness harness/src/*.rs, the generators in tools/kt/props.py, the comparison in ./check",
]


def corpus_lines(prop):
    d = os.path.join(ROOT, "corpus", prop)
    out = []
    if os.path.isdir(d):
        for f in sorted(os.listdir(d)):
            out += [l for l in open(os.path.join(d, f)).read().splitlines() if l and not l.startswith("#")]
    return out


def klen(r, k):
    return [0, max(k - 1, 0), k, k + 1, 2 * k, 3 * k + 1, r.below(300)][r.below(7)]


# ---------------------------------------------------------------- C01
def gen_C01(r, tier):
    n = {"quick": 30000, "thorough": 600000}[tier]
    cases = []
    # exhaustive alphabet sweep: every specified byte alone (k=1) and inside a clean context (k=2)
    for b in range(4, 256):
        cases.append("kg 1 " + hx([b]))
        cases.append("kg 2 " + hx([65, 67, b, 71, 84]))
    if tier == "thorough":
        import itertools
        alpha = [65, 99, 71, 117, 78, 255]
        for L in range(0, 8):
            for t in itertools.product(alpha, repeat=L):
                for k in range(1, 5):
                    cases.append("kg %d %s" % (k, hx(t)))
    for _ in range(n):
        k = r.pick([1, 15, 16, 17, 30, 31]) if r.below(4) == 0 else 1 + r.below(31)
        s = gen_seq(r, klen(r, k))
        cases.append("kg %d %s" % (k, hx(s)))
    return cases


# ---------------------------------------------------------------- C02
def gen_C02(r, tier):
    cases = []
    kmax = {"quick": 7, "thorough": 9}[tier]
    for k in range(1, kmax + 1):
        for x in range(4 ** k):
            cases.append("rc %d %d" % (k, x)); cases.append("dec %d %d" % (k, x))
    n = {"quick": 6000, "thorough": 200000}[tier]
    for _ in range(n):
        k = 1 + r.below(31)
        c = r.below(5)
        if c == 0: x = 0
        elif c == 1: x = 4 ** k - 1
        elif c == 2 and k % 2 == 0:    # palindrome: code (h ++ rc h)
            h = [r.below(4) for _ in range(k // 2)]
            ds = h + [3 - d for d in reversed(h)]
            x = 0
            for d in ds: x = 4 * x + d
        else: x = r.below(4 ** k)
        cases.append("rc %d %d" % (k, x)); cases.append("dec %d %d" % (k, x))
    # strand symmetry on the iterator: a sequence and its reverse complement (ambiguous bytes included)
    m = {"quick": 4000, "thorough": 60000}[tier]
    for _ in range(m):
        k = r.pick([1, 2, 15, 16, 17, 31]) if r.below(3) == 0 else 1 + r.below(31)
        s = gen_seq(r, klen(r, k))
        cases.append("kg %d %s" % (k, hx(s))); cases.append("kg %d %s" % (k, hx(rc_bytes(s))))
    return cases


def parse_pairs(txt):
    return [tuple(map(int, p.split(":"))) for p in txt.split(",")] if txt else []


def extra_C02(cases, impl):
    """relations on the implementation's own outputs: involution, pair = (x, rc x), strand symmetry"""
    bad = []
    rcmap = {}
    for c, o in zip(cases, impl):
        p = c.split(" ")
        if p[0] == "rc": rcmap[(p[1], p[2])] = o
    for c, o in zip(cases, impl):
        p = c.split(" ")
        if p[0] == "rc" and (p[1], o) in rcmap and rcmap[(p[1], o)] != p[2]:
            bad.append((c, "rev_comp(rev_comp(x)) = %s, expected x" % rcmap[(p[1], o)]))
    last = None
    for c, o in zip(cases, impl):
        p = c.split(" ")
        if p[0] != "kg" or o.startswith(("PANIC", "CRASH", "NOT-RUN")): last = None; continue
        if last is not None and last[0] == p[1] and unhx(p[2]) == rc_bytes(unhx(last[1])):
            a = parse_pairs(last[2]); b = parse_pairs(o)
            if b != [(y, x) for (x, y) in reversed(a)]:
                bad.append((c, "k-mer stream of the reverse complement is not the reversed, strand-swapped stream of %s" % last[1]))
            if sorted(min(x, y) for x, y in a) != sorted(min(x, y) for x, y in b):
                bad.append((c, "canonical multiset differs from that of the reverse complement"))
            last = None
        else:
            last = (p[1], p[2], o)
    return bad


# ---------------------------------------------------------------- C03
def gen_C03(r, tier):
    kmax = {"quick": 7, "thorough": 8}[tier]
    cases = []
    for k in range(1, kmax + 1):
        cases.append("posmap %d" % k); cases.append("header %d" % k)
    return cases


# ---------------------------------------------------------------- C09 / C18
def gen_min_params(r, wmax_extra=60, wcap=None):
    m = 1 + r.below(4) if r.below(3) == 0 else 1 + r.below(31)
    w = m + [0, r.below(4), r.below(wmax_extra), r.below(wmax_extra)][r.below(4)]
    if wcap: w = min(w, wcap)
    m = min(m, w)
    n = [0, m, max(w - 1, 0), w, w + 1, 2 * w + 3, r.below(400), r.below(400)][r.below(8)]
    s = gen_lowc(r, n) if r.below(2) == 0 else gen_seq(r, n)
    if n and r.below(6) == 0:      # a change on the very last base / a trailing short clean segment
        s = s[:-1] + bytes([r.pick(NUC)])
    if n > w and r.below(6) == 0:
        cut = n - 1 - r.below(w)
        s = s[:cut] + b"N" + s[cut + 1:]
    return w, m, s


def gen_C09(r, tier):
    n = {"quick": 30000, "thorough": 600000}[tier]
    cases = []
    if tier == "thorough":
        import itertools
        for L in range(0, 9):
            for t in itertools.product(b"ACGTN", repeat=L):
                for m in range(1, 4):
                    for w in range(m, m + 3):
                        cases.append("mg %d %d %s" % (w, m, hx(t)))
    for _ in range(n):
        w, m, s = gen_min_params(r)
        cases.append("mg %d %d %s" % (w, m, hx(s)))
    return cases


def gen_C18(r, tier):
    n = {"quick": 15000, "thorough": 300000}[tier]
    cases = []
    for _ in range(n):
        w, m, s = gen_min_params(r, wmax_extra=30, wcap=31)
        h = hx(s)
        cases.append("kmg %d %d %s" % (w, m, h)); cases.append("mg %d %d %s" % (w, m, h)); cases.append("kg %d %s" % (w, h))
    return cases


def to_spec_C18(case, out):
    """the property fixes the runs and the concatenation of the k-mer lists, not their distribution over runs"""
    if not case.startswith("kmg ") or out.startswith(("PANIC", "CRASH", "NOT-RUN", "MODEL")): return out
    items = out.split(",") if out else []
    runs = [x.split("=")[0] for x in items]
    ks = [v for x in items for v in (x.split("=")[1].split("+") if x.split("=")[1] else [])]
    return ",".join(runs) + "|" + "+".join(ks)


def extra_C18(cases, impl):
    """on the implementation itself: same runs as the plain iterator; k-mer lists concatenate to the canonical w-mers"""
    bad = []
    for i in range(0, len(cases) - 2):
        p = cases[i].split(" ")
        if p[0] != "kmg": continue
        q, z = cases[i + 1].split(" "), cases[i + 2].split(" ")
        if q[0] != "mg" or z[0] != "kg" or q[3] != p[3] or z[2] != p[3]: continue
        if any(o.startswith(("PANIC", "CRASH", "NOT-RUN")) for o in impl[i:i + 3]): continue
        runs = [x.split("=")[0] for x in impl[i].split(",")] if impl[i] else []
        if ",".join(runs) != impl[i + 1]:
            bad.append((cases[i], "runs differ from the plain minimiser iterator: %s vs %s" % (",".join(runs)[:80], impl[i + 1][:80])))
        ks = []
        for x in (impl[i].split(",") if impl[i] else []):
            kk = x.split("=")[1]
            ks += [int(v) for v in kk.split("+")] if kk else []
        canon = [min(a, b) for a, b in parse_pairs(impl[i + 2])]
        if ks != canon:
            bad.append((cases[i], "attached k-mer lists do not concatenate to the canonical w-mers of the k-mer iterator"))
    return bad


PROPS = {
    "C01": dict(gen=gen_C01, needs=["harness"],
                rule="corpus, then the exhaustive alphabet sweep (every byte 4..255 alone at k=1 and inside AC?GT at k=2), then seeded structured sequences (per-case ambiguity rate 0/1/5/15 %, k in 1..=31 with extra weight on 1,15,16,17,30,31, boundary lengths 0,k-1,k,k+1,2k,3k+1); thorough adds every string over {A,c,G,u,N,0xFF} up to length 7 for k 1..4; non-trivial = the iterator yields at least one item; distinct = distinct case lines",
                assumptions=["bytes 0x00-0x03 are never generated (left unspecified by the property)"]),
    "C02": dict(gen=gen_C02, needs=["harness"], extra=extra_C02,
                rule="rev_comp and numeric_to_kmer on every code x < 4^k for k <= 7 (quick) / 9 (thorough), random codes for k up to 31 including 0, 4^k-1 and palindromes code(h ++ rc h); the k-mer iterator on seeded sequences and on their reverse complements; non-trivial = non-empty result; relations checked on the implementation's outputs: involution, stream reversal with swapped strands, equal canonical multisets",
                assumptions=["codes >= 4^k are never generated (unspecified)", "bytes 0x00-0x03 are never generated"]),
    "C03": dict(gen=gen_C03, needs=["harness"],
                rule="kmer_pos_maps(k) and the header for every k in 1..=7 (quick) / 1..=8 (thorough), all 4^k entries enumerated (entries of non-canonical codes are not compared: unspecified); one case per (op, k), each non-trivial",
                assumptions=[], exhaustive=True),
    "C09": dict(gen=gen_C09, needs=["harness"],
                rule="corpus (witnesses of the repaired defects D1/D2 first), then seeded (w, m, sequence): m to 31, w to m+60, lengths 0,m,w-1,w,w+1,2w+3 and random to 400, half low-complexity repeats (period 1..6) with planted N and point mutations, a change on the last base, an N within the last window; thorough adds every string over {A,C,G,T,N} up to length 8 for m<=3, w<=m+2; non-trivial = at least one run",
                assumptions=["bytes 0x00-0x03 are never generated"]),
    "C18": dict(gen=gen_C18, needs=["harness"], extra=extra_C18, to_spec=to_spec_C18,
                rule="seeded (w, m, sequence) with m <= w <= 31 as for C09; each sequence goes through the k-mer+minimiser iterator, the plain minimiser iterator and the k-mer iterator; non-trivial = at least one run; relations checked on the implementation's outputs: identical runs, k-mer lists concatenate to the canonical w-mers",
                assumptions=["bytes 0x00-0x03 are never generated"]),
}
