"""Running the implementation (Rust harness), the extracted model (OCaml driver) and the in-Coq sample."""
import os, re, shutil, subprocess, threading
from .common import *


def _shards(lines, shards):
    n = len(lines)
    if n == 0: return []
    size = (n + shards - 1) // shards
    return [lines[i:i + size] for i in range(0, n, size)]


def _deal(lines, shards):
    """round-robin shards: heavy cases that stand next to each other in the case list end up in different shards"""
    k = max(1, min(shards, len(lines)))
    return [lines[j::k] for j in range(k)] if lines else []


def _undeal(parts_out, n):
    """inverse of _deal for the per-shard result lists"""
    k = len(parts_out)
    out = [None] * n
    for j, res in enumerate(parts_out):
        out[j::k] = res
    return out


def run_impl(harness, cases, work, shards=NPROC, timeout=1800):
    """cases: list of case lines -> list of result lines (same length)"""
    parts = _deal(cases, shards)
    procs = []
    for j, part in enumerate(parts):
        cf = os.path.join(work, "cases.%d.txt" % j); of = os.path.join(work, "impl.%d.txt" % j)
        open(cf, "w").write("\n".join(part) + "\n")
        sc = os.path.join(work, "scratch.%d" % j)
        procs.append((subprocess.Popen([harness, cf, of, sc], env=ENV, stdout=subprocess.PIPE, stderr=subprocess.STDOUT), of, len(part), sc))
    outs = []
    for p, of, n, sc in procs:
        try:
            p.communicate(timeout=timeout)
        except subprocess.TimeoutExpired:
            p.kill(); p.communicate()
        res = open(of).read().splitlines() if os.path.exists(of) else []
        if len(res) < n:   # the harness died (abort / UB check / timeout): the first missing line is the culprit
            res = res + ["CRASH harness exited with status %s" % p.returncode] + ["NOT-RUN"] * (n - len(res) - 1)
        outs.append(res[:n])
        shutil.rmtree(sc, ignore_errors=True)
    return _undeal(outs, len(cases))


def run_model(cases, shards=NPROC, timeout=3000):
    """-> (model lines, spec lines)"""
    drv = os.path.join(CACHE, "ocaml", "driver")
    parts = _deal(cases, shards)
    outs = [None] * len(parts)
    def work(j):
        try:
            p = subprocess.run(["bash", "-c", "ulimit -s unlimited 2>/dev/null; exec " + drv], input="\n".join(parts[j]) + "\n",
                               stdout=subprocess.PIPE, stderr=subprocess.PIPE, text=True, timeout=timeout)
            outs[j] = p.stdout
        except subprocess.TimeoutExpired:
            outs[j] = ""
    th = [threading.Thread(target=work, args=(j,)) for j in range(len(parts))]
    [t.start() for t in th]; [t.join() for t in th]
    ms, ss_ = [], []
    for j, o in enumerate(outs):
        mm = [l[2:] for l in o.splitlines() if l.startswith("M ") or l == "M"]
        ss = [l[2:] for l in o.splitlines() if l.startswith("S ") or l == "S"]
        n = len(parts[j])
        mm += ["MODEL-DIED"] * (n - len(mm)); ss += ["MODEL-DIED"] * (n - len(ss))
        ms.append(mm[:n]); ss_.append(ss[:n])
    return _undeal(ms, len(cases)), _undeal(ss_, len(cases))


def coq_sample(cases, model_out, spec_out, notes, limit=160, max_len=4000, shards=NPROC, keep=None):
    """re-evaluate a deterministic sample of the cases inside Coq (vm_compute of the very function that was
    extracted) and compare with the output of the OCaml driver: extraction is cross-checked, not only trusted"""
    idx = [i for i in range(len(cases)) if len(cases[i]) <= max_len and (keep is None or keep(cases[i]))]
    if not idx: return 0, 0
    step = max(1, len(idx) // limit)
    picked = idx[::step][:limit]
    groups = _deal(picked, shards)
    d = os.path.join(CACHE, "work", "coqsample.%d" % os.getpid()); os.makedirs(d, exist_ok=True)
    procs = []
    for g, grp in enumerate(groups):
        lines = ["From Coq Require Import NArith List.", "From KT Require Import Extract.Dispatch.",
                 "Import ListNotations.", "Open Scope N_scope.",
                 "Definition both (l : list N) : list N := let (m, s) := dispatch l in m ++ 10 :: s."]
        for i in grp:
            lines.append("Eval vm_compute in (both [%s])." % "; ".join(str(b) for b in cases[i].encode()))
        f = os.path.join(d, "cases%d.v" % g)
        open(f, "w").write("\n".join(lines) + "\n")
        procs.append(subprocess.Popen(["bash", "-c", "ulimit -s unlimited 2>/dev/null; exec timeout 900 coqc -noglob -Q %s KT %s" % (os.path.join(COQ, "theories"), f)],
                                      cwd=d, stdout=subprocess.PIPE, stderr=subprocess.STDOUT, text=True))
    agree = 0
    for grp, p in zip(groups, procs):
        out = p.communicate()[0]
        vals = re.findall(r"=\s*(\[.*?\]|nil)\s*:\s*list N", out, flags=re.S)
        if p.returncode != 0 or len(vals) != len(grp):
            notes.append("coq sample: coqc failed or printed %d of %d values: %s" % (len(vals), len(grp), out[-200:]))
            continue
        for i, v in zip(grp, vals):
            txt = bytes(int(x) for x in re.findall(r"\d+", v)).decode("latin-1")
            if txt == model_out[i] + "\n" + spec_out[i]: agree += 1
            else: notes.append("coq sample DISAGREES with extracted code on case %d: %s" % (i, cases[i][:120]))
    shutil.rmtree(d, ignore_errors=True)
    return agree, len(picked)


def shrink_case(case, fails, payload_idx, budget=400, seconds=90):
    """delta-debug a case line while fails(case) stays true.  Tokens that are hex payloads (or comma lists
    of payloads) are reduced: first whole records are dropped, then bytes."""
    import time as _time
    toks = case.split(" ")
    calls = [0]
    t_end = _time.time() + seconds        # big cases are slow to re-run: shrinking is best effort within a time budget
    def test(ts):
        calls[0] += 1
        return calls[0] <= budget and _time.time() < t_end and fails(" ".join(ts))
    def is_hex(t): return t == "-" or (len(t) % 2 == 0 and len(t) > 0 and re.fullmatch(r"[0-9a-f]+", t) is not None)
    for ti in sorted(payload_idx, reverse=True):
        if ti >= len(toks): continue
        t = toks[ti]
        if "," in t and all(is_hex(x) for x in t.split(",")):
            recs = t.split(",")
            i = 0
            while i < len(recs) and len(recs) > 1:
                cand = recs[:i] + recs[i + 1:]
                ts = toks[:ti] + [",".join(cand)] + toks[ti + 1:]
                if test(ts): recs = cand; toks = ts
                else: i += 1
            t = toks[ti]
        items = t.split(",") if "," in t else [t]
        if not all(is_hex(x) for x in items) or not re.search(r"[a-f0-9]{2}", t): continue
        for ii in range(len(items)):
            if items[ii] == "-": continue
            bs = [items[ii][j:j + 2] for j in range(0, len(items[ii]), 2)]
            chunk = max(1, len(bs) // 2)
            while chunk >= 1:
                i = 0; progressed = False
                while i < len(bs):
                    cand = bs[:i] + bs[i + chunk:]
                    its = items[:ii] + ["".join(cand) or "-"] + items[ii + 1:]
                    ts = toks[:ti] + [",".join(its)] + toks[ti + 1:]
                    if test(ts): bs = cand; items = its; toks = ts; progressed = True
                    else: i += chunk
                if chunk == 1 and not progressed: break
                chunk = chunk // 2 if chunk > 1 else 1
                if calls[0] > budget: break
    return " ".join(toks)
