"""Builds: translator + Coq development (staged), extracted OCaml driver, Rust harness, CLI binary, Python extension."""
import hashlib, json, os, re, shutil, sys
from .common import *

ALLOWED_AXIOMS = {
    # standard-library axioms that Flocq's own correctness theorems (Bplus_correct, Bdiv_correct) depend on
    "ClassicalDedekindReals.sig_not_dec", "ClassicalDedekindReals.sig_forall_dec",
    "FunctionalExtensionality.functional_extensionality_dep", "Classical_Prop.classic",
}


def audit_sources(notes):
    """forbidden vernacular anywhere in the development; Variable/Hypothesis/Context only inside sections"""
    bad = []
    for dp, _, fs in os.walk(os.path.join(COQ, "theories")):
        for f in fs:
            if not f.endswith(".v"): continue
            path = os.path.join(dp, f)
            stack = []
            src = open(path).read()
            src_nc = re.sub(r"\(\*.*?\*\)", lambda m: "\n" * m.group(0).count("\n"), src, flags=re.S)
            for i, line in enumerate(src_nc.splitlines(), 1):
                m = re.match(r"\s*(Section|Module Type|Module)\s+(\w+)", line)
                if m and ":=" not in line: stack.append((m.group(1), m.group(2)))
                m = re.match(r"\s*End\s+(\w+)\s*\.", line)
                if m and stack and stack[-1][1] == m.group(1): stack.pop()
                if re.search(r"\bAdmitted\b|\badmit\b|^\s*Axiom\b|^\s*Axioms\b|^\s*Parameter\b|^\s*Parameters\b|^\s*Conjecture\b|Unset\s+Guard|Unset\s+Positivity|Unset\s+Universe|bypass_check|type-in-type|impredicative-set|Admit\s+Obligations|native_compute", line):
                    bad.append("%s:%d: %s" % (os.path.relpath(path, ROOT), i, line.strip()[:80]))
                in_section = any(k == "Section" for k, _ in stack)
                if not in_section and re.match(r"\s*(Variable|Variables|Hypothesis|Hypotheses|Context|Let)\b", line) and not re.match(r"\s*Let\b", line):
                    bad.append("%s:%d: %s outside a section" % (os.path.relpath(path, ROOT), i, line.strip()[:60]))
    if bad:
        notes.append("forbidden vernacular: " + "; ".join(bad[:5]))
    return not bad


def translate(notes, harness=None):
    rep = os.path.join(CACHE, "translate.json")
    env = dict(ENV, KT_CACHE=CACHE)
    if harness: env["KT_HARNESS"] = harness
    r = sh([sys.executable, os.path.join(ROOT, "tools/translate.py"),
            os.path.join(COQ, "theories/Gen/Generated.v"), rep], env=env)
    if r.returncode != 0:
        notes.append("translator failed: " + r.stdout[-300:]); return None
    tr = json.load(open(rep))
    obs = [k for k, v in tr["items"].items() if v.get("how") not in (None, "translated")]
    notes.append("translator: %d items regenerated from the sources, observed instead of translated=%s, missing=%s, changed=%s" % (
        len(tr["items"]), ["%s (%s)" % (k, tr["items"][k]["how"]) for k in obs], tr["missing"], tr["changed"]))
    return tr


def build_coq(prop, notes, harness=None):
    """returns dict(ok, obligations, discharged, failing, theorems, axioms, model_ok)"""
    res = dict(ok=False, obligations=0, discharged=0, failing=None, theorems=[], axioms=[], model_ok=False)
    tr = translate(notes, harness)
    if tr is None:
        res["failing"] = "translate"; return res
    res["translator"] = tr
    if not os.path.exists(os.path.join(COQ, "Makefile")) or \
       os.path.getmtime(os.path.join(COQ, "Makefile")) < os.path.getmtime(os.path.join(COQ, "_CoqProject")):
        sh(["coq_makefile", "-f", "_CoqProject", "-o", "Makefile"], cwd=COQ)
    # stage 1: the executable models and their extraction (no facts about generated data needed)
    r = sh(["make", "-j16", "theories/Extract/Extract.vo"], cwd=COQ, timeout=2400)
    if r.returncode != 0:
        notes.append("model/extraction build failed: " + r.stdout[-400:]); res["failing"] = "model"; return res
    res["model_ok"] = build_driver(notes)
    # stage 2: all proofs, including the facts over the regenerated data
    r = sh(["make", "-k", "-j16"], cwd=COQ, timeout=3000)
    open(os.path.join(CACHE, "coq_build.log"), "w").write(r.stdout)
    build_failed = None
    if r.returncode != 0:
        m = re.search(r'File "\./(theories/[^"]+)", line (\d+)[^\n]*\n(Error:[^\n]*\n?[^\n]*)', r.stdout)
        build_failed = (m.group(1) + ":" + m.group(2) + " " + m.group(3).replace("\n", " ")[:200]) if m else "coq build"
        notes.append("proof build failed at " + build_failed)
    if not audit_sources(notes):
        res["failing"] = "audit"; return res
    pf = "theories/Properties/%s.v" % prop
    src = open(os.path.join(COQ, pf)).read()
    thms = re.findall(r"^\s*Theorem\s+(\w+)", src, flags=re.M)
    res["theorems"] = thms; res["obligations"] = len(thms)
    r = sh(["coqc", "-Q", "theories", "KT", "-o", os.path.join(CACHE, prop + ".vo"), pf], cwd=COQ, timeout=900)
    if r.returncode != 0:
        m = re.search(r"Error:[^\n]*\n?[^\n]*", r.stdout)
        res["failing"] = build_failed or (pf + " " + (m.group(0).replace("\n", " ")[:200] if m else ""))
        return res
    # Print Assumptions audit: one block per theorem
    blocks = re.split(r"(?=Closed under the global context|Axioms:)", r.stdout)
    closed = sum(1 for b in blocks if b.startswith("Closed under"))
    ax_used = set()
    for b in blocks:
        if b.startswith("Axioms:"):
            ax_used.update(re.findall(r"^([A-Za-z_][\w.]*)\s*:", b[7:], flags=re.M))
    res["axioms"] = sorted(ax_used)
    n_print = len(re.findall(r"^\s*Print Assumptions\s+(\w+)", src, flags=re.M))
    stray = ax_used - ALLOWED_AXIOMS
    notes.append("Print Assumptions: %d theorems audited, %d closed under the global context, axioms used: %s"
                 % (n_print, closed, ", ".join(sorted(ax_used)) or "none"))
    if stray:
        res["failing"] = pf + " depends on axioms outside the allowlist: " + ", ".join(sorted(stray)); return res
    if n_print < len(thms):
        res["failing"] = pf + ": a theorem lacks its Print Assumptions"; return res
    if build_failed:
        # the property file itself compiled, so it does not depend on the file that failed
        notes.append("the failing file is not a dependency of %s" % pf)
    res["ok"] = True; res["discharged"] = len(thms)
    return res


def build_driver(notes):
    src = os.path.join(COQ, "model.ml")
    dst = os.path.join(CACHE, "ocaml"); os.makedirs(dst, exist_ok=True)
    stamp = hashlib.sha1(open(src, "rb").read() + open(os.path.join(ROOT, "ocaml/driver.ml"), "rb").read()).hexdigest()[:16]
    exe = os.path.join(dst, "driver." + stamp)
    if not os.path.exists(exe):
        for f in ("model.ml", "model.mli"):
            shutil.copy(os.path.join(COQ, f), dst)
        shutil.copy(os.path.join(ROOT, "ocaml/driver.ml"), dst)
        r = sh(["ocamlfind", "ocamlopt", "-O3", "-w", "-a", "model.mli", "model.ml", "driver.ml", "-o", exe], cwd=dst, timeout=900)
        if r.returncode != 0:
            notes.append("ocaml build failed: " + r.stdout[-300:]); return False
        for f in os.listdir(dst):
            if f.startswith("driver.") and f not in ("driver.ml", os.path.basename(exe)) and not f.endswith((".ml", ".mli")):
                try: os.remove(os.path.join(dst, f))
                except OSError: pass
    shutil.copy(exe, os.path.join(dst, "driver"))
    return True


def build_harness(notes, release=False):
    h = os.path.join(ROOT, "harness")
    shutil.copy(os.path.join(REPO, "Cargo.lock"), os.path.join(h, "Cargo.lock"))
    cmd = ["cargo", "build", "--offline", "--quiet"] + (["--release"] if release else [])
    r = sh(cmd, cwd=h, timeout=2400)
    if r.returncode != 0:
        notes.append("cargo build (harness) failed: " + r.stdout[-800:]); return None
    return os.path.join(TARGET, "release" if release else "debug", "kt_harness")


def build_cli(notes, release=False):
    """the kmertools binary from /repo's working tree (own target dir under .cache, /repo is not written)"""
    env = dict(ENV, CARGO_TARGET_DIR=os.path.join(CACHE, "target_repo"))
    cmd = ["cargo", "build", "--offline", "--quiet", "-p", "kmertools", "--bin", "kmertools"] + (["--release"] if release else [])
    r = sh(cmd, cwd=REPO, timeout=2400, env=env)
    if r.returncode != 0:
        notes.append("cargo build (kmertools) failed: " + r.stdout[-800:]); return None
    return os.path.join(CACHE, "target_repo", "release" if release else "debug", "kmertools")


def build_pyext(notes):
    """the Python extension from /repo's working tree, importable as pykmertools"""
    env = dict(ENV, CARGO_TARGET_DIR=os.path.join(CACHE, "target_repo"))
    r = sh(["cargo", "build", "--offline", "--quiet", "-p", "pip"], cwd=REPO, timeout=2400, env=env)
    if r.returncode != 0:
        notes.append("cargo build (pip) failed: " + r.stdout[-800:]); return None
    d = os.path.join(CACHE, "pyext"); os.makedirs(d, exist_ok=True)
    so = os.path.join(CACHE, "target_repo", "debug", "libpykmertools.so")
    if not os.path.exists(so):
        notes.append("libpykmertools.so not produced"); return None
    shutil.copy(so, os.path.join(d, "pykmertools.so"))
    return d


def coqchk(prop, notes):
    """thorough tier: re-check the compiled property file and everything it depends on with the independent checker"""
    import time
    t0 = time.time()
    r = sh(["coqchk", "-o", "-silent", "-Q", "theories", "KT", "KT.Properties.%s" % prop], cwd=COQ, timeout=2400)
    out = r.stdout
    axioms = set(a.strip().replace("Coq.Logic.", "").replace("Coq.Reals.", "") for a in re.findall(r"^\s{4}(\S+)\s*$", out.split("* Axioms:")[1].split("* Constants")[0], flags=re.M)) if "* Axioms:" in out else set()
    clean = all(re.search(re.escape(k) + r":\s*<none>", out) for k in
                ("relying on type-in-type", "relying on unsafe (co)fixpoints", "whose positivity is assumed"))
    stray = axioms - ALLOWED_AXIOMS
    ok = r.returncode == 0 and clean and not stray
    notes.append("coqchk -o on Properties/%s.vo and its dependencies: exit %s, axioms %s, no type-in-type / unsafe fixpoints / assumed positivity: %s (%.0fs)"
                 % (prop, r.returncode, sorted(axioms) or "none", clean, time.time() - t0))
    return ok
