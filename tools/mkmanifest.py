#!/usr/bin/env python3
"""Writes MANIFEST.json from the table below (kept as a script so that claims and not_applicable stay in step)."""
import json, os, subprocess
ROOT = os.path.dirname(os.path.dirname(os.path.abspath(__file__)))

HOOK_COMMITS = ["3fe897b", "8e454f5", "bb7cf87", "92db2c0", "8d2b097"]
BASELINE = ("cd /repo && cargo test --workspace --no-fail-fast --offline")

COMMON_NOTE = ("Trusted: Coq 8.16.1 kernel + vm_compute; the translator (data only); extraction (ExtrOcamlBasic only) and the I/O-only OCaml driver, "
               "cross-checked by an in-Coq vm_compute sample; the Rust harness, generators and comparison. The theorem is about the model; the model is tied to "
               "/repo's working tree on every run by regenerated tables (the facts in Gen/Fact*.v re-proved, one file per fact) and by the correspondence run. ")

CLAIMS = {
 "C01": ("proof", "Theorem C01_iterator_exact_letters: for every k in 1..=31 and every byte list over 4..255 the faithful u64 model of KmerGenerator::next equals the window specification over the property's alphabet (unbounded in length). Tied to the code by the regenerated lookup table (fact re-proved per run) and a differential run of the real iterator against model and spec.",
         "7 C01", "bytes 0x00-0x03 outside the statement, as in the property.",
         "Coq proof (induction over the input, register invariant) + regenerated table facts + differential correspondence"),
 "C02": ("proof", "Theorems for every k <= 31 and x < 4^k: rev_comp involutive, rev_comp = code of the reverse-complemented digits, digits/code bijection; strand symmetry of the window spec (Strand.v) transfers to the iterator through C01. Correspondence: rev_comp / numeric_to_kmer exhaustively for small k, sampled to k = 31, plus relation checks on the implementation's own streams.",
         "7 C02", "codes >= 4^k unspecified and never generated.",
         "Coq proof (digit-list algebra, induction) + exhaustive/sampled differential correspondence"),
 "C03": ("proof", "Theorems for every k in 1..=31: the set-then-sort model of kmer_pos_maps yields exactly the increasing list of canonical codes; closed-form column count (4^k + [k even] 4^(k/2))/2 by the involution argument. Correspondence: all 4^k entries and the header for k <= 7/8.",
         "7 C03", "HashSet/HashMap iteration order modelled as arbitrary (MSetAVL elements + sort).",
         "Coq proof (MSet + mergesort model, counting by involution) + exhaustive correspondence for small k"),
 "C09": ("proof", "Theorem C09_runs_exact: for all w, m with 1 <= m <= w, m <= 31 and every byte list the faithful model of MinimiserGenerator::next (ring buffer, sentinel, three emission sites) equals the grouping of window minima (three-layer simulation proof). Correspondence against model and spec, incl. witnesses of the repaired defects D1/D2 in the corpus.",
         "7 C09", "push-based model of a pull-based iterator (validated by comparing collected sequences and next() after exhaustion).",
         "Coq proof (simulation: registers -> events -> sliding-minimum machine -> grouped spec) + differential correspondence"),
 "C18": ("proof", "Theorems: map fst (kmg_run) = mg_run for all inputs; concat of attached lists = canonical w-mers of kg_run for 1 <= m <= w <= 31. Correspondence of the real iterator against the model (exact) and the spec (runs and concatenation), plus relation checks among the three real iterators.",
         "7 C18", "distribution of w-mers over runs is left open by the property and compared only against the model.",
         "Coq proof (simulation + conservation invariant) + differential correspondence"),

 "C04": ("proof", "Theorems for every k in 1..=31 and every byte list over 4..255: the model's vector (pos_map / histogram as in the Rust) equals, column by column, the number of valid windows whose canonical form is that column's k-mer; entries sum to the window count; all-zero row without windows; invariance under reverse complement, lower case and U for T. The normalised entry is the binary64 quotient count / max(1,total) (Flocq model, compared bit for bit); it is proved (Flocq Bdiv_correct) to lie in [0,1] and hence to print as exactly 8 characters; and the printed text is proved to be the 6-decimal rendering of an n with |n/10^6 - count/max(1,total)| <= 0.5e-6 + 2^-53 (integer rounding of fmt6 plus Flocq's error_le_half_ulp for the one division); that fmt6 is what Rust's {:.6} prints is validated text-exact by the correspondence.",
         "7 C04", "Rust float formatting {:.6} is modelled (fmt6) and validated bit/text-exact, not verified; Python and CLI paths are covered by C13/C15.",
         "Coq proof (histogram = occurrence counts over the canonical columns, permutation/extensionality arguments) + differential correspondence incl. metamorphic respellings"),
 "C05": ("proof", "Theorems: the batch loop outputs header ++ rows in record order for EVERY memory limit; the mapped writer's schedule model puts row n into slot n for EVERY worker count and EVERY complete interleaving of TAKE/WRITE/EXIT steps; both writers agree; a header adds exactly one line; container independence end to end on the executable reader + composition models (a FASTA file in any wrapping and a FASTQ file with the same sequences, any cut into gzip members, any limits: identical output, the specified one). Tied to the code by the byte-identity matrix (threads x limits x writers x containers x delimiters), by controlled-scheduler replay through the cfg(kmertools_verif) hooks whose logged trace, write offsets and bytes must equal the model's, and by run-twice agreement on the implementation.",
         "7 C05", "atomicity of the reader mutex and of one write_at per row, and order preservation of rayon collect, are assumed; interleavings below hook granularity are runtime behaviour the model cannot exhibit (partial).",
         "Coq proof (invariant over all schedules; induction over the batch loop) + schedule replay and trace validation against the hooked implementation"),
 "C07": ("proof", "Theorems: the rendered counts table of the partition/merge model equals the spec table for every n_parts >= 1 and every chunking; chunked counting under any schedule of CHECK/TAKE/INC/ADD/EXIT steps, any worker count and any limit counts every k-mer exactly as often as it occurs over all chunk passes; partition + per-partition merge yields exactly one line per distinct k-mer carrying the total, for every n_parts >= 1 and every chunking; at file level (Model/CtrFs.v, run against the real directory by the `ctrfs` cases) the table parsed back from kmers.counts is the spec table whatever the directory held before, also for the executable instance (one worker, passes of the budget rule), which is proved to terminate for every input within a linear number of steps (so the exactness theorem's `fin = true` is satisfiable for every input). Controlled-scheduler replay of count() through the hooks with trace validation (CHECK/TAKE/INC/ADD/EXIT, several chunk passes). Correspondence: kmers.counts (numeric and ACGT) and surviving temp files for ceilings giving 1..dozens of chunks/partitions, threads default/1..16, repetitive inputs.",
         "7 C07", "atomicity of scc entry and AtomicU64 assumed; a non-atomic get-then-insert shows only in free-running stress (partial); counts < 2^32.",
         "Coq proof (conservation invariant over all schedules; merge algebra) + differential correspondence on the merged table"),
 "C08": ("proof", "Theorems for every k in 1..=31, bin count >= 1, any table: the row has bin-count entries, entry b counts the valid windows whose canonical k-mer has multiplicity c with min(c / bin-size, bin-count - 1) = b (absent k-mers: bin 0), every window in exactly one bin; the normalised entry is printed correct to 6 decimals (same theorem as C04: |n/10^6 - count/max(1,total)| <= 0.5e-6 + 2^-53); the vectors file of the model is one specified row per record in input order for every flush limit; the batch loop writes one row per record in order for every limit (after the D5 fix). Correspondence at record level (boundary multiplicities) and file level (alt input, flush per record / never, threads, trailing empty records).",
         "7 C08", "(count as f64 / bin_size as f64).floor() modelled as integer division (assumed exact below 2^32, boundary values generated).",
         "Coq proof (histogram lemma, batch loop induction) + differential correspondence"),
 "C10": ("proof", "Theorems: for every worker count and every complete interleaving the emitted items (s2m lines; m2s pushes) are exactly all items as a multiset; the runs of a record are the spec runs of C09 over the effective window (w=0: whole record); both output files of the model equal the specified ones; the fused step the real workers take refines the model (replayed through the hooks with trace validation). Correspondence: both outputs as sets of lines (lists as multisets) against model and spec, and m2s = inversion of s2m on the implementation itself.",
         "7 C10", "atomicity of scc entry and of the mutex-protected line write assumed (a lost insert inside a non-atomic contains/insert is below hook granularity: partial).",
         "Coq proof (multiset conservation over all schedules, C09 transfer) + differential correspondence"),
 "C11": ("proof", "Theorems on the generic walk (both the exact dyadic and the Flocq binary64 model): one point per base, rejection exactly when a byte has no corner (and then no coordinates), prefix determinacy, midpoint rule; on the exact model: every point inside [0,S]^2 and the last j bases fix a sub-square of side S/2^j. Corner table regenerated and proved equal to the property's corners for all 256 bytes. On the binary64 model (Flocq): every coordinate stays finite and inside the square for every length and every integer size < 2^52, and has EXACTLY the chaos-game value while bitlen(S)+length+1 <= 53. Correspondence: coordinates bit for bit with the binary64 model for every length, with the exact spec on the exactly representable prefix; file path with threads/limits/containers.",
         "7 C11", "Rust f64 +,/ assumed IEEE binary64 RNE (Flocq); `{}` printing validated by parse-back only; beyond the exactly representable prefix only containment in the whole square is proved for the float walk (sub-square containment there is partial).",
         "Coq proof (induction over the walk, dyadic arithmetic by nia/lia) + bit-exact differential correspondence (Flocq)"),
 "C12": ("proof", "Theorems: one triple per canonical column; (x,y) of column j is the CGR end point of that k-mer's text and does not depend on the record; f equals the oligo entry (C04 transfer). Correspondence bit for bit at record and file level, and f cross-checked against the oligo vector on the implementation.",
         "7 C12", "as C04 and C11.",
         "Coq proof (C04/C11 transfer) + bit-exact differential correspondence"),
 "C06": ("proof", "Theorems: FASTA and FASTQ round trips of the line-parser model for ALL well-formed record lists printed with any whitespace line terminators, any line wrapping, optional descriptions, records without bases (FASTA), quality lines starting with @ or +; stream -> lines lemma; end-to-end theorem on the executable reader (suffix, any cut into gzip members, lines, parser, numbering, statistics); all gzip members are read; numbering 0,1,2,...; suffix table regenerated from SeqFormat::get and proved equal to the documented suffixes. Correspondence: the real reader and statistics pass on generated files (plain / gzip with 1..6 members, stored and deflated) against the parser model AND the generating list.",
         "7 C06", "bio 2.0.3's parsers are third-party code modelled from their source; the DEFLATE codec is not modelled (member structure only); non-UTF-8 input is outside 'well-formed'.",
         "Coq proof (induction over the printed record list) + differential correspondence against model and generating list"),
 "C13": ("proof", "Theorems: every byte of the UTF-8 encoding of a non-ASCII code point is >= 128, such bytes are ambiguous for all three iterators and have no CGR corner (table facts), batch = map. The binding is checked against the SAME extracted models as the core (py: case lines dispatch to the core ops on the UTF-8 bytes): tuples, vectors as bit patterns, headers, ValueError, batch order, iterators used after the source string was released.",
         "7 C13", "memory safety of the transmuted lifetime and 'never crashes the interpreter' are runtime behaviour a Gallina model cannot exhibit (exercised: interpreter death is reported): partial.",
         "Coq proof (UTF-8 lemma, table facts) + differential correspondence of the built extension against the core models"),
 "C14": ("proof", "Theorems: every index used unchecked is in bounds - canonical code < 4^k = |pos_map|, column < column count = |vec|, coverage bin < bin-count (bin-count >= 1), partition < n_parts; mapped layout for ANY delimiter length: rows inside the mapping, tiling exactly, never overlapping; numbers are 8 characters wide for frequencies and every normalised row has exactly the reserved length (Flocq); the inventory of unsafe constructs regenerated from the sources equals the hooked/modelled sites. Tied to the code by the hook log: every logged (index, len) and (pos, len, cap) must be in bounds, the writes must tile the file, and their counts must equal the model's.",
         "7 C14", "only hooked sites are observed; the effect of an out-of-bounds write is not modelled (we show there is none); only hooked/inventoried sites are covered.",
         "Coq proof (index and layout arithmetic) + runtime log checked against the model (cfg(kmertools_verif) hooks, debug build)"),
 "C15": ("proof", "Thin theorems over the cli() model: clap ranges/defaults, preset arms and refusals regenerated from args.rs and proved equal to the documented ones; presets only pick the delimiter, -H / --counts / -t as documented (for every accepted k, preset, flag and thread value, arbitrary writer); out-of-range values and windows not longer than the minimiser are refused. The weight is on the tie: the binary over the option matrix against model (regenerated data) and spec (documented data), thread-count and CLI-vs-library agreement on the implementation.",
         "7 C15", "argv construction and output canonicalisation are harness code (trusted).",
         "Coq proof (finite enumeration lifted by vm_compute, regenerated-data facts) + differential correspondence of the binary"),
 "C16": ("proof", "Theorems for ALL record lists: one LF-terminated row per record for oligo and coverage, coverage writer drops no record for any limit (D5), one s2m line per record, whole-read window never below m (D6), CGR gives one row per record or refuses exactly when a record holds a non-nucleotide byte, empty input gives empty output (D4); termination by structural recursion. Correspondence: degenerate matrix on binary and library, debug and release, with explicit row-count / NUL / placeholder scans.",
         "7 C16", "runtime aborts and hangs not caused by the modelled logic are outside the model: partial.",
         "Coq proof (structure of the total pipeline models) + degenerate-input correspondence incl. debug/release agreement"),
 "C17": ("proof", "Theorems on a file-system model (create/truncate replaces content; a run touches only its own temp files): the result files after any history of runs equal those of the last run in a fresh location. For the counter the model is concrete (Model/CtrFs.v: temp_kmers.part_P_chunk_C names, their text, read-back, summation, removal, kmers.counts): for every partition count, every list of chunk passes and every previous content of the directory the run does not fail, kmers.counts gets the merged table of this run alone, its own temp files are gone and every other path is untouched (names proved injective, text proved to parse back); the same for `cov` (cov_fs: counts table read back, kmers.vectors created; the vectors file is proved to be the specified one); both models are run against the real directory content (`ctrfs` / `covfs` cases: listing after count() and after merge, empty or stale directory). Correspondence: histories of 2-3 runs of the binary sharing a location, with stale chunk files, a stale counts table and a longer stale vectors file planted, against the model of the last run alone.",
         "7 C17", "OS file semantics (truncate, set_len, unlink, mmap) are assumed, not modelled.",
         "Coq proof (file-system model, induction over the history) + history replay on the binary"),
}

REASONS_PENDING = "check not built yet in this snapshot (planned: see DESIGN.md section 7); not claimed until its proof and correspondence run"

def main():
    props = [json.loads(l) for l in open(os.path.join(ROOT, "properties.jsonl"))]
    checks, na = [], []
    for p in props:
        pid = p["id"]
        if pid in CLAIMS:
            cat, text, ref, note, tech = CLAIMS[pid]
            checks.append({"property_id": pid, "quick_cmd": "./check %s --tier quick" % pid,
                           "thorough_cmd": "./check %s --tier thorough" % pid,
                           "evidence_file": "evidence/%s.json" % pid,
                           "replay_cmd_template": "./check %s --replay {path}" % pid,
                           "engine": "coq+correspondence",
                           "level_claimed": {"category": cat, "text": text, "design_ref": "DESIGN.md section " + ref},
                           "level_note": COMMON_NOTE + note, "technique": tech})
        else:
            na.append({"property_id": pid, "reason": REASONS_PENDING})
    man = {"version": 1, "setup_cmd": "./setup",
           "hooks": {"guard": "cfg(kmertools_verif)", "enable": "RUSTFLAGS=\"--cfg kmertools_verif\" (set by ./check and ./setup for every cargo build)",
                     "baseline_off_cmd": BASELINE, "source_commits": HOOK_COMMITS, "add_only": True},
           "engines": [
               {"name": "coq", "path": "coq/", "serves_properties": sorted(CLAIMS), "kind_free_text": "Coq 8.16.1 development: models, specs, proofs, pinned property theorems with Print Assumptions; regenerated Gen/Generated.v"},
               {"name": "ocaml-driver", "path": "ocaml/driver.ml", "serves_properties": sorted(CLAIMS), "kind_free_text": "I/O glue around Extract/Dispatch.v extracted with ExtrOcamlBasic"},
               {"name": "harness", "path": "harness/", "serves_properties": sorted(CLAIMS), "kind_free_text": "Rust executor of case lines linked against /repo's crates with --cfg kmertools_verif"},
               {"name": "pyexec", "path": "tools/pyexec.py", "serves_properties": ["C13"], "kind_free_text": "executor of py: case lines on the Python extension built from the working tree"},
               {"name": "check", "path": "check", "serves_properties": sorted(CLAIMS), "kind_free_text": "orchestrator: translator, staged Coq build, audits, generators, comparison, shrinking, evidence"}],
           "checks": checks,
           "notes": "Known findings: known_findings.txt. All seven defects found during the design (D1-D7) were repaired by fix: commits in /repo; their witnesses are in corpus/.",
           "not_applicable": na}
    json.dump(man, open(os.path.join(ROOT, "MANIFEST.json"), "w"), indent=1)

if __name__ == "__main__":
    main()
