#!/usr/bin/env python3
"""Writes seeded/<id>/meta.json from the agent's description, my confirmation and the check logs, and prints the
markdown tables of DESIGN.md section 12."""
import glob, json, os, re, sys
ROOT = os.path.dirname(os.path.dirname(os.path.abspath(__file__)))

def short(x, n):
    x = (x or "").replace("\n", " ").replace("|", "/")
    return x if len(x) <= n else x[:n - 1] + "…"

def load(p):
    try: return json.load(open(p))
    except Exception: return {}

def main():
    rows = {1: [], 2: [], 3: [], 4: [], 5: [], 6: [], 7: []}
    for d in sorted(os.listdir(os.path.join(ROOT, "seeded"))):
        p = os.path.join(ROOT, "seeded", d)
        if not os.path.isdir(p): continue
        am, cf = load(os.path.join(p, "agent_meta.json")), load(os.path.join(p, "confirm.json"))
        def parse(f):
            txt = open(f).read()
            prop = re.match(r"check_(C\d\d)", os.path.basename(f)).group(1)
            last = [l for l in txt.splitlines() if l.startswith(prop + " ")]
            return prop, {"violations": len(re.findall(r"^VIOLATION", txt, flags=re.M)), "summary": last[-1] if last else txt.strip().splitlines()[-1][:200] if txt.strip() else "",
                          "no_failing_input_found": "no-failing-input-found" in txt}
        final, before = {}, {}
        for f in sorted(glob.glob(os.path.join(p, "check_*.log"))):
            prop, r = parse(f)
            (before if ".before_strengthening" in f else final)[prop] = r
        replays = {}
        for f in sorted(glob.glob(os.path.join(p, "*replay*.json"))):
            r = load(f)
            if r: replays[os.path.basename(f)] = {"property": r.get("property"), "case": (r.get("case") or "")[:300], "why": r.get("why")}
        rnd = 2 if re.search(r"-2[AB]$", d) else 3 if re.search(r"-3[AB]$", d) else 4 if re.search(r"-4[AB]$", d) else 5 if re.search(r"-5[AB]$", d) else 6 if re.search(r"-6[AB]$", d) else 7 if re.search(r"-7[AB]$", d) else 1
        own = am.get("property", d.split("-")[0])
        meta = {"seed": d, "round": rnd, "property_broken": own, "summary": am.get("summary"),
                "needs_to_manifest": am.get("needs_to_manifest"), "files_touched": am.get("files_touched"),
                "produced_by": "independent sub-agent given only the property text and a scratch worktree of /repo",
                "confirmed_by_me": {"existing_suite_with_patch": cf.get("suite_with_patch"), "demo_exit_with_patch": cf.get("demo_exit_with_patch"),
                                    "demo_exit_without_patch": cf.get("demo_exit_without_patch"), "demo_cmd": cf.get("demo_cmd"), "demo_placed_at": cf.get("demo_placed_at")},
                "checks_run_with_patch_applied": final, "checks_before_strengthening": before, "replays": replays,
                "caught_by": sorted(k for k, v in final.items() if v["violations"] > 0),
                "missed_by": sorted(k for k, v in final.items() if v["violations"] == 0),
                "missed_before_strengthening_by": sorted(k for k, v in before.items() if v["violations"] == 0)}
        json.dump(meta, open(os.path.join(p, "meta.json"), "w"), indent=1)
        rows[rnd].append(meta)
    for rnd in (1, 2, 3, 4, 5, 6, 7):
        print("\n### Round %d (%d changes)\n" % (rnd, len(rows[rnd])))
        print("| seed | breaks | change (one line) | needs | caught by | first missed by |\n|---|---|---|---|---|---|")
        for m in rows[rnd]:
            print("| %s | %s | %s | %s | %s | %s |" % (m["seed"], m["property_broken"], short(m["summary"], 140), short(m["needs_to_manifest"], 100),
                                                    ", ".join(m["caught_by"]) or "-", ", ".join(sorted(set(m["missed_before_strengthening_by"] + m["missed_by"]))) or "-"))

if __name__ == "__main__":
    main()
