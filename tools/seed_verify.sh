#!/bin/bash
# Confirm a seeded defect in its scratch worktree and file it under /verif/seeded/<name>/.
# usage: seed_verify.sh <worktree> <A|B> <name> <demo-src-rel-to-seed_out/X/demo> <dest-rel-in-tree> <run command...>
# The run command is executed in the worktree with the demo in place (e.g. cargo test -p kmer --test seed_demo_a).
set -u
WT=$1; X=$2; NAME=$3; DEMO=$4; DEST=$5; shift 5
export CARGO_NET_OFFLINE=true CARGO_TARGET_DIR=$WT/target
cd $WT || exit 2
git checkout -q -- . ; 
OUT=/verif/seeded/$NAME; mkdir -p $OUT/demo
cp seed_out/$X/patch.diff $OUT/patch.diff; cp -r seed_out/$X/demo/. $OUT/demo/; cp seed_out/$X/meta.json $OUT/agent_meta.json; cp seed_out/$X/RUN.md $OUT/RUN.md 2>/dev/null
git apply --check $OUT/patch.diff || { echo "PATCH DOES NOT APPLY"; exit 2; }
# 1. suite with the patch, no demo in the tree
git apply $OUT/patch.diff
SUITE=$(cargo test --workspace --no-fail-fast --offline 2>&1 | grep -E "^test result" | awk '{p+=$4; f+=$6} END {print p" passed "f" failed"}')
echo "suite with patch: $SUITE"
# 2. demo with the patch
mkdir -p $(dirname $DEST); cp seed_out/$X/demo/$DEMO $DEST
"$@" > $OUT/demo_with_patch.log 2>&1; W=$?
# 3. demo without the patch
git checkout -q -- .
"$@" > $OUT/demo_without_patch.log 2>&1; WO=$?
rm -f $DEST; rmdir $(dirname $DEST) 2>/dev/null
echo "demo exit with patch: $W, without patch: $WO"
cat > $OUT/confirm.json <<EOT
{"suite_with_patch": "$SUITE", "demo_exit_with_patch": $W, "demo_exit_without_patch": $WO, "demo_cmd": "$*", "demo_placed_at": "$DEST"}
EOT
