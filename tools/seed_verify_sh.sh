#!/bin/bash
# Confirm a seeded defect whose demonstration is a shell script driving the built binary / extension.
# usage: seed_verify_sh.sh <worktree> <A|B> <name> <demo command (run in the worktree after `cargo build --workspace`)...>
set -u
WT=$1; X=$2; NAME=$3; shift 3
export CARGO_NET_OFFLINE=true CARGO_TARGET_DIR=$WT/target
cd $WT || exit 2
git checkout -q -- .
OUT=/verif/seeded/$NAME; mkdir -p $OUT/demo
cp seed_out/$X/patch.diff $OUT/patch.diff; cp -r seed_out/$X/demo/. $OUT/demo/; cp seed_out/$X/meta.json $OUT/agent_meta.json; cp seed_out/$X/RUN.md $OUT/RUN.md 2>/dev/null
git apply --check $OUT/patch.diff || { echo "PATCH DOES NOT APPLY"; exit 2; }
git apply $OUT/patch.diff
SUITE=$(cargo test --workspace --no-fail-fast --offline 2>&1 | grep -E "^test result" | awk '{p+=$4; f+=$6} END {print p" passed "f" failed"}')
echo "suite with patch: $SUITE"
cargo build --workspace --offline >/dev/null 2>&1
"$@" > $OUT/demo_with_patch.log 2>&1; W=$?
git checkout -q -- .
cargo build --workspace --offline >/dev/null 2>&1
"$@" > $OUT/demo_without_patch.log 2>&1; WO=$?
echo "demo exit with patch: $W, without patch: $WO"
cat > $OUT/confirm.json <<EOT
{"suite_with_patch": "$SUITE", "demo_exit_with_patch": $W, "demo_exit_without_patch": $WO, "demo_cmd": "$*"}
EOT
