#!/usr/bin/env python3
"""Executes `py:` case lines on the Python extension built from /repo's working tree (pykmertools.so).
usage: pyexec.py <ext-dir> <cases-file> <out-file>   One result line per case, same canonical formats as the
Rust harness, so that the same Coq models serve both."""
import gc, struct, sys
sys.path.insert(0, sys.argv[1])
import pykmertools as pk


def bits(x):
    return str(struct.unpack("<Q", struct.pack("<d", x))[0])


def text(hexs):
    return "" if hexs == "-" else bytes.fromhex(hexs).decode("utf-8")


def texts(tok):
    return [] if tok == "_" else [text(h) for h in tok.split(",")]


def churn():
    junk = [("x" * (17 + i)) + str(i) for i in range(300)]
    del junk
    gc.collect()


def fresh_each_time(f):
    """a value handed to the caller is the caller's: changing it must not change what the next call returns
    (same object, same arguments).  Returns the second result, or a marker when it differs from the first."""
    import copy
    a = f()
    snap = copy.deepcopy(a)
    if isinstance(a, list):
        a.reverse(); a.append("changed by the caller")
        for x in a:
            if isinstance(x, list): x.reverse(); x.append("changed by the caller")
    b = f()
    if b != snap: raise AssertionError("second call differs after the caller changed the first result")
    return b


def resumed(it):
    """an iterator that was advanced with next() and left by a `break` goes on where it was when a loop takes it up again"""
    items = []
    for _ in range(2):
        x = next(it, None)
        if x is None: return items
        items.append(x)
    for x in it:
        items.append(x)
        if len(items) == 5: break
    if len(items) == 5:
        import itertools
        items.extend(itertools.islice(it, 3))
        items.extend(list(it))
    return items


def run(line):
    p = line.split(" ")
    op = p[0][3:]
    if op == "kg":
        s = "".join([text(p[2])])          # a fresh string object that nothing else references
        it = pk.KmerGenerator(s, int(p[1]))
        del s; churn()                      # the iterator must stay valid after the Python string is released
        if len(line) % 3 == 0:
            # a second, unrelated iterator drawn from in turns: iterators do not share state
            other = pk.KmerGenerator("GATTACAnGATTACAGATTACA" * 3, 1 + int(p[1]) % 7); items = []
            for t in it:
                items.append(t); next(other, None)
            out = ",".join("%d:%d" % t for t in items)
        elif len(line) % 3 == 1:
            out = ",".join("%d:%d" % t for t in resumed(it))
        else:
            out = ",".join("%d:%d" % t for t in it)
        assert next(iter(it), None) is None
        return out
    if op == "mg":
        s = "".join([text(p[3])])
        it = pk.MinimiserGenerator(s, int(p[1]), int(p[2]))
        del s; churn()
        if len(line) % 3 == 0:
            other = pk.MinimiserGenerator("GATTACAnGATTACAGATTACAGGCCTTAA" * 3, 9, 4); items = []
            for t in it:
                items.append(t); next(other, None)
            return ",".join("%d:%d:%d" % t for t in items)
        if len(line) % 3 == 1:
            return ",".join("%d:%d:%d" % t for t in resumed(it))
        return ",".join("%d:%d:%d" % t for t in it)
    if op == "dec":
        return pk.KmerGenerator("A", int(p[1])).to_acgt(int(p[2]))
    if op == "oligo":
        c = pk.OligoComputer(int(p[1])); t = text(p[3])
        if len(line) % 2 == 0:              # the object has been used before, for another string and the other mode
            c.vectorise_one("ACGTNNACGGTTAACCn" * 3, p[2] != "1"); c.get_header()
        if len(t) > 100000: return ",".join(bits(v) for v in c.vectorise_one(t, p[2] == "1"))
        return ",".join(bits(v) for v in fresh_each_time(lambda: c.vectorise_one(t, p[2] == "1")))
    if op == "header":
        c = pk.OligoComputer(int(p[1]))
        return ",".join(fresh_each_time(c.get_header))
    if op == "cgr":
        c = pk.CgrComputer(int(p[1]))
        if len(line) % 2 == 0:              # the object has been used before: a good string, then a refused one
            c.vectorise_one("GATTACA")
            try: c.vectorise_one("GATNACA")
            except ValueError: pass
        try:
            return ",".join("%s:%s" % (bits(x), bits(y)) for x, y in fresh_each_time(lambda: c.vectorise_one(text(p[2]))))
        except ValueError:
            return "ERR"
    if op == "obatch":
        c = pk.OligoComputer(int(p[1])); ts = texts(p[3])
        rows = fresh_each_time(lambda: c.vectorise_batch(ts, p[2] == "1")) if len(ts) <= 100 else c.vectorise_batch(ts, p[2] == "1")
        return "%d#%s" % (len(rows), ";".join(",".join(bits(v) for v in row) for row in rows))
    if op == "cbatch":
        try:
            rows = pk.CgrComputer(int(p[1])).vectorise_batch(texts(p[2]))
        except ValueError:
            return "ERR"
        return "%d#%s" % (len(rows), ";".join(",".join("%s:%s" % (bits(x), bits(y)) for x, y in row) for row in rows))
    return "UNKNOWN-OP " + p[0]


def main():
    with open(sys.argv[2]) as f, open(sys.argv[3], "w") as out:
        for line in f:
            line = line.rstrip("\n")
            try:
                res = run(line)
            except UnicodeDecodeError:
                res = "INVALID-CASE payload is not UTF-8"
            except BaseException as e:          # pyo3 turns Rust panics into PanicException (a BaseException)
                res = "PANIC %s %s" % (type(e).__name__, str(e).replace("\n", " ")[:100])
            out.write(res + "\n"); out.flush()


if __name__ == "__main__":
    main()
