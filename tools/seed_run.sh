#!/bin/bash
# Apply a seeded defect to /repo, run the given checks (quick tier), undo it straight afterwards.
# usage: seed_run.sh <seed-name> <Cnn>...
set -u
NAME=$1; shift
S=/verif/seeded/$NAME
cd /repo && git diff --quiet || { echo "/repo has local changes"; exit 2; }
git -C /repo apply $S/patch.diff || exit 2
RES=""
for P in "$@"; do
  cd /verif && ./check $P --tier quick > $S/check_$P.log 2>&1; RC=$?
  V=$(grep -c "^VIOLATION" $S/check_$P.log)
  echo "$NAME $P: exit=$RC violations=$V :: $(grep '^VIOLATION' $S/check_$P.log | head -2 | tr '\n' ' ')"
  [ -f /verif/evidence/$P.replay.json ] && [ $RC -ne 0 ] && cp /verif/evidence/$P.replay.json $S/replay_$P.json
  RES="$RES $P:$RC"
done
git -C /repo checkout -- .
echo "$RES" > $S/last_run.txt
# restore the evidence of the unchanged tree (evidence must describe /repo itself)
cd /verif && git checkout -- evidence 2>/dev/null
