(* C05 / C14 / C17, end to end for the memory-mapped writer of `comp oligo`: file bytes in, file bytes out.
   oligo_mmap_cmd composes the executable reader model (path suffix -> format, gzip members concatenated, lines,
   parser), the statistics pass that sizes the mapping (it iterates the same parser: the record count), set_len on
   whatever the output path held, and the copies of the header and of every row to their offsets in the order
   `order` puts them (any re-listing of the same writes: a worker interleaving, repeated writes).  The result is
   the output of the batch writer for the same file - for every order, every previous content, every batch limit. *)
From Coq Require Import NArith ZArith List Lia Bool.
From KT Require Import Gen.Generated Gen.Alphabet Model.Kmer Model.Show Model.Ops Model.Rows Model.Pipeline Model.Reader.
From KT Require Import Proof.Fasta Proof.Fastq Proof.PipelineProof Proof.LayoutProof Proof.MappedBytes Proof.ContainerProof.
Import ListNotations.
Open Scope N_scope.
Notation length := List.length.
Notation concat := List.concat.

Definition oligo_mmap_cmd (path : list N) (members : list (list N)) (k : nat) (hdr : bool) (delim : list N)
  (order : list (nat * list N) -> list (nat * list N)) (old : list N) : option (list N) :=
  match format_of path with
  | None => None
  | Some f => match parse f (file_content members) with
              | Ok recs =>
                  let n := length recs in                         (* seq_stats: the same parser, counted *)
                  let h := if hdr then header_bytes k delim else [] in
                  let L := row_len k (length delim) in
                  let rows := map (oligo_row_bytes k true delim) (map snd recs) in
                  Some (apply_writes (order (layout h L rows)) (set_len (length h + L * n) old))
              | Panic => None
              end
  end.

Theorem mapped_cmd_is_batch_cmd path members k hdr delim order old mem f recs :
  (1 <= k <= 31)%nat -> (forall l w, In w (order l) <-> In w l) ->
  format_of path = Some f -> parse f (file_content members) = Ok recs ->
  Forall (Forall (fun b => nt4k b = digit_of_letter b)) (map snd recs) ->
  Forall (fun s => (Z.of_nat (S (length s)) < 2 ^ 53)%Z) (map snd recs) ->
  oligo_mmap_cmd path members k hdr delim order old = oligo_cmd path members k true hdr delim mem.
Proof.
  intros Hk Hord Hf Hp Hd Hl. unfold oligo_mmap_cmd, oligo_cmd. rewrite Hf, Hp. f_equal.
  rewrite ofile_batch_any_limit.
  set (h := if hdr then header_bytes k delim else []).
  set (L := row_len k (length delim)).
  set (rows := map (oligo_row_bytes k true delim) (map snd recs)).
  assert (Hn : length recs = length rows) by (unfold rows; now rewrite !map_length).
  rewrite Hn. apply mapped_file_any_order_any_previous_content.
  - unfold rows. apply Forall_forall. intros r Hr. apply in_map_iff in Hr as [s [<- Hs]].
    apply oligo_row_length; [exact Hk|exact (proj1 (Forall_forall _ _) Hd s Hs)|exact (proj1 (Forall_forall _ _) Hl s Hs)].
  - intros w Hw. apply Hord. exact Hw.
  - intros w Hw. apply Hord. exact Hw.
Qed.
