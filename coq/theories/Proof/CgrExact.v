(* C11: while the coordinates are exactly representable the binary64 walk computes EXACTLY the chaos-game values:
   point i of cgr_b64 has the real value of point i of the exact dyadic model, for every sequence with
   bitlen(S) + length + 2 <= 53 (e.g. S = 1: the first 50 points; every k-mer CGR with k <= 7, S <= 2^20).
   Flocq's Bplus_correct / Bdiv_correct: depends on the four real-number axioms. *)
From Coq Require Import ZArith NArith Reals Lra Lia List.
From Flocq Require Import Core IEEE754.BinarySingleNaN IEEE754.Binary IEEE754.Bits.
From KT Require Import Model.Flt Model.Rows Proof.InSquare Proof.CgrProof Proof.CgrFloat.
Import ListNotations.
Open Scope R_scope.

Definition dyR (d : dy) : R := IZR (fst d) * bpow radix2 (- Z.of_nat (snd d)).

Lemma dy_format (n : Z) (e : nat) : (Z.abs n < 2 ^ 53)%Z -> (e <= 1074)%nat ->
  generic_format radix2 fexp (IZR n * bpow radix2 (- Z.of_nat e)).
Proof.
  intros Hn He. change (IZR n * bpow radix2 (- Z.of_nat e)) with (F2R (Float radix2 n (- Z.of_nat e))).
  apply generic_format_F2R. intros Hnz. unfold cexp, SpecFloat.fexp, SpecFloat.emin.
  assert (Hmag : (mag radix2 (F2R (Float radix2 n (- Z.of_nat e))) <= 53 - Z.of_nat e)%Z).
  { apply mag_le_bpow.
    - unfold F2R; cbn [Fnum Fexp]. apply Rmult_integral_contrapositive_currified; [now apply IZR_neq|].
      apply Rgt_not_eq, bpow_gt_0.
    - unfold F2R; cbn [Fnum Fexp]. rewrite Rabs_mult, (Rabs_pos_eq (bpow _ _)) by apply bpow_ge_0.
      rewrite <- abs_IZR. replace (53 - Z.of_nat e)%Z with (53 + - Z.of_nat e)%Z by lia. rewrite bpow_plus.
      apply Rmult_lt_compat_r; [apply bpow_gt_0|]. change (bpow radix2 53) with (IZR (2 ^ 53)). now apply IZR_lt. }
  lia.
Qed.

Lemma dy_small (n : Z) (e : nat) : (0 <= n < 2 ^ 53)%Z -> 0 <= IZR n * bpow radix2 (- Z.of_nat e) < bpow radix2 1024.
Proof.
  intros Hn. assert (0 < bpow radix2 (- Z.of_nat e)) by apply bpow_gt_0.
  assert (bpow radix2 (- Z.of_nat e) <= 1).
  { change 1 with (bpow radix2 0). apply bpow_le. lia. }
  assert (0 <= IZR n) by (apply IZR_le; lia).
  assert (IZR n < IZR (2 ^ 53)) by (apply IZR_lt; lia).
  split; [apply Rmult_le_pos; lra|].
  apply Rle_lt_trans with (IZR n * 1); [apply Rmult_le_compat_l; lra|].
  rewrite Rmult_1_r. apply Rlt_trans with (IZR (2 ^ 53)); [assumption|].
  change (bpow radix2 1024) with (IZR (2 ^ 1024)). apply IZR_lt. reflexivity.
Qed.

(* one exact step: (c + x) / 2 with c the corner coordinate (0 or S) and x = n / 2^e *)
Lemma half_sum_exact (c x : binary64) (cz n : Z) (e : nat) :
  is_finite 53 1024 c = true -> is_finite 53 1024 x = true ->
  B2R 53 1024 c = IZR cz -> B2R 53 1024 x = IZR n * bpow radix2 (- Z.of_nat e) ->
  (0 <= cz)%Z -> (0 <= n)%Z -> (cz * 2 ^ Z.of_nat e + n < 2 ^ 53)%Z -> (S e <= 1074)%nat ->
  is_finite 53 1024 (b64_half_sum c x) = true /\
  B2R 53 1024 (b64_half_sum c x) = IZR (cz * 2 ^ Z.of_nat e + n) * bpow radix2 (- Z.of_nat (S e)).
Proof.
  intros Fc Fx Vc Vx Hc0 Hn0 Hsum He.
  assert (Hpow : IZR (2 ^ Z.of_nat e) = bpow radix2 (Z.of_nat e)).
  { change (2 ^ Z.of_nat e)%Z with (radix2 ^ Z.of_nat e)%Z. apply IZR_Zpower. lia. }
  assert (Hval : IZR cz + IZR n * bpow radix2 (- Z.of_nat e) = IZR (cz * 2 ^ Z.of_nat e + n) * bpow radix2 (- Z.of_nat e)).
  { rewrite plus_IZR, mult_IZR, Hpow. rewrite Rmult_plus_distr_r, Rmult_assoc, <- bpow_plus.
    replace (Z.of_nat e + - Z.of_nat e)%Z with 0%Z by lia. cbn [bpow]. lra. }
  set (n' := (cz * 2 ^ Z.of_nat e + n)%Z) in *.
  assert (Hn' : (0 <= n' < 2 ^ 53)%Z).
  { split; [|exact Hsum]. unfold n'. assert (0 <= 2 ^ Z.of_nat e)%Z by (apply Z.pow_nonneg; lia). nia. }
  rewrite half_sum_is_step. unfold InSquare.step, b64_div, b64_plus. cbv zeta. fold Hp53 Hpe.
  pose proof (Bplus_correct 53 1024 Hp53 Hpe binop_nan_pl64 mode_NE c x Fc Fx) as Hp. cbn [round_mode] in Hp.
  rewrite Vc, Vx, Hval in Hp.
  assert (Hf1 : rnd (IZR n' * bpow radix2 (- Z.of_nat e)) = IZR n' * bpow radix2 (- Z.of_nat e)).
  { apply round_generic; [apply valid_rnd_N|]. apply dy_format; lia. }
  rewrite Hf1 in Hp. destruct (dy_small n' e Hn') as [Hs0 Hs1].
  rewrite Rlt_bool_true in Hp by (rewrite Rabs_pos_eq; assumption).
  destruct Hp as (Hpv & Hpf & _).
  set (p := Bplus 53 1024 Hp53 Hpe binop_nan_pl64 mode_NE c x) in *.
  pose proof (Bdiv_correct 53 1024 Hp53 Hpe binop_nan_pl64 mode_NE p InSquare.two) as Hd.
  rewrite two_val in Hd. specialize (Hd ltac:(lra)). cbn [round_mode] in Hd. rewrite Hpv in Hd.
  assert (Hhalf : IZR n' * bpow radix2 (- Z.of_nat e) / 2 = IZR n' * bpow radix2 (- Z.of_nat (S e))).
  { replace (- Z.of_nat (S e))%Z with (- Z.of_nat e + -1)%Z by lia. rewrite bpow_plus.
    change (bpow radix2 (-1)) with (/ 2). unfold Rdiv. ring. }
  rewrite Hhalf in Hd.
  assert (Hf2 : rnd (IZR n' * bpow radix2 (- Z.of_nat (S e))) = IZR n' * bpow radix2 (- Z.of_nat (S e))).
  { apply round_generic; [apply valid_rnd_N|]. apply dy_format; lia. }
  rewrite Hf2 in Hd. destruct (dy_small n' (S e) Hn') as [Ht0 Ht1].
  rewrite Rlt_bool_true in Hd by (rewrite Rabs_pos_eq; assumption).
  destruct Hd as (Hdv & Hdf & _). split; [rewrite Hdf; exact Hpf|exact Hdv].
Qed.

(* ---------- along the walk ---------- *)
Section Walk.
Variable Sz : Z.
Variable b : nat.                       (* a bound on the bit length of the square size *)
Hypothesis HS : (0 <= Sz < 2 ^ Z.of_nat b)%Z.
Hypothesis Hb : (b <= 52)%nat.
Let Sf := b64_of_Z Sz.

Definition coord_rel (e : nat) (x : binary64) (d : dy) : Prop :=
  is_finite 53 1024 x = true /\ B2R 53 1024 x = dyR d /\ snd d = e /\ (0 <= fst d <= Sz * 2 ^ Z.of_nat e)%Z.
Definition pt_rel (e : nat) (fp : fpt) (dp : dpt) : Prop := coord_rel e (fst fp) (fst dp) /\ coord_rel e (snd fp) (snd dp).

Lemma pow_b_le : (2 ^ Z.of_nat b <= 2 ^ 53)%Z.
Proof. apply Z.pow_le_mono_r; lia. Qed.

Lemma Sf_val : B2R 53 1024 Sf = IZR Sz /\ is_finite 53 1024 Sf = true.
Proof. unfold Sf. apply b64_of_Z_val. pose proof pow_b_le. lia. Qed.

Lemma coord_step e (isS : bool) x d : (b + e + 1 <= 53)%nat -> coord_rel e x d ->
  coord_rel (S e) (b64_half_sum (if isS then Sf else fzero) x) (dmid1 Sz isS d).
Proof.
  intros He (Fx & Vx & Ee & Hn). destruct d as [n e']. cbn [fst snd] in *. subst e'.
  destruct Sf_val as [VS FS]. destruct fzero_val as [V0 F0].
  assert (P2 : (0 < 2 ^ Z.of_nat e)%Z) by (apply Z.pow_pos_nonneg; lia).
  assert (Hlim : (Sz * 2 ^ Z.of_nat e + Sz * 2 ^ Z.of_nat e < 2 ^ 53)%Z).
  { assert (Sz * 2 ^ Z.of_nat e < 2 ^ Z.of_nat b * 2 ^ Z.of_nat e)%Z by nia.
    rewrite <- Z.pow_add_r in H by lia.
    assert (2 * 2 ^ (Z.of_nat b + Z.of_nat e) <= 2 ^ 53)%Z.
    { rewrite <- Z.pow_succ_r by lia. apply Z.pow_le_mono_r; lia. }
    lia. }
  set (cz := if isS then Sz else 0%Z).
  assert (Hc : is_finite 53 1024 (if isS then Sf else fzero) = true /\ B2R 53 1024 (if isS then Sf else fzero) = IZR cz /\ (0 <= cz <= Sz)%Z).
  { unfold cz. destruct isS; repeat split; try assumption; lia. }
  destruct Hc as (Fc & Vc & Hcz).
  unfold dyR in Vx. cbn [fst snd] in Vx.
  destruct (half_sum_exact _ x cz n e Fc Fx Vc Vx ltac:(lia) ltac:(lia) ltac:(nia) ltac:(lia)) as [Ff Vf].
  unfold coord_rel, dmid1, dyR. cbn [fst snd]. split; [exact Ff|]. split; [|split; [reflexivity|]].
  - etransitivity; [exact Vf|]. unfold cz. destruct isS; [reflexivity|]. repeat f_equal.
  - rewrite pow2_S. unfold cz in *. destruct isS; nia.
Qed.

Lemma walk_exact corner s : forall e fp dp lf ld, (b + e + length s <= 53)%nat -> pt_rel e fp dp ->
  cgr_b64_go corner Sf fp s = Some lf -> cgr_exact_go corner Sz dp s = Some ld ->
  Forall2 (fun f d => B2R 53 1024 (fst f) = dyR (fst d) /\ B2R 53 1024 (snd f) = dyR (snd d) /\
                      is_finite 53 1024 (fst f) = true /\ is_finite 53 1024 (snd f) = true) lf ld.
Proof.
  unfold cgr_b64_go, cgr_exact_go.
  induction s as [|x t IH]; intros e fp dp lf ld Hlen [Rx Ry] Hf Hd; cbn [walk] in Hf, Hd.
  - inversion Hf; inversion Hd; subst. constructor.
  - cbn [length] in Hlen. destruct (corner x) as [c|]; [|discriminate].
    destruct (walk _ _ corner _ (fmid (fcorner Sf c) fp) t) as [lf'|] eqn:Ef; [|discriminate].
    destruct (walk _ _ corner (dmid Sz) (dmid Sz c dp) t) as [ld'|] eqn:Ed; [|discriminate].
    inversion Hf; inversion Hd; subst.
    assert (Rx' := coord_step e (fst c) (fst fp) (fst dp) ltac:(lia) Rx).
    assert (Ry' := coord_step e (snd c) (snd fp) (snd dp) ltac:(lia) Ry).
    constructor.
    + unfold fmid, fcorner, dmid. cbn [fst snd].
      destruct Rx' as (F1 & V1 & _), Ry' as (F2 & V2 & _). destruct c as [c1 c2]. cbn [fst snd] in *. tauto.
    + apply (IH (S e) (fmid (fcorner Sf c) fp) (dmid Sz c dp) lf' ld'); [lia| |exact Ef|exact Ed].
      split; unfold fmid, fcorner, dmid; destruct c as [c1 c2]; cbn [fst snd] in *; assumption.
Qed.

Lemma centre_rel : pt_rel 1 (fcentre Sf) (dcentre Sz).
Proof.
  destruct Sf_val as [VS FS].
  assert (H : coord_rel 1 (b64_div mode_NE Sf two64) (Sz, 1%nat)).
  { rewrite two64_is_two. unfold coord_rel, b64_div, dyR. fold Hp53 Hpe. cbn [fst snd].
    pose proof (Bdiv_correct 53 1024 Hp53 Hpe binop_nan_pl64 mode_NE Sf InSquare.two) as Hd.
    rewrite two_val in Hd. specialize (Hd ltac:(lra)). cbn [round_mode] in Hd. rewrite VS in Hd.
    assert (E : IZR Sz / 2 = IZR Sz * bpow radix2 (- Z.of_nat 1)) by (change (bpow radix2 (- Z.of_nat 1)) with (/ 2); unfold Rdiv; ring).
    rewrite E in Hd.
    assert (Hlt : (0 <= Sz < 2 ^ 53)%Z) by (pose proof pow_b_le; lia).
    rewrite round_generic in Hd by (try apply valid_rnd_N; apply dy_format; lia).
    destruct (dy_small Sz 1 Hlt) as [A0 A1].
    rewrite Rlt_bool_true in Hd by (rewrite Rabs_pos_eq; assumption).
    destruct Hd as (Hv & Hf & _). repeat split; try (rewrite Hf; exact FS); try exact Hv; try lia. }
  split; exact H.
Qed.

(* C11: the binary64 walk has exactly the chaos-game values while bitlen(S) + length + 1 <= 53 *)
Theorem cgr_b64_is_exact corner s lf ld : (b + 1 + length s <= 53)%nat ->
  cgr_b64 corner Sz s = Some lf -> cgr_exact corner Sz s = Some ld ->
  Forall2 (fun f d => B2R 53 1024 (fst f) = dyR (fst d) /\ B2R 53 1024 (snd f) = dyR (snd d) /\
                      is_finite 53 1024 (fst f) = true /\ is_finite 53 1024 (snd f) = true) lf ld.
Proof.
  intros Hl Hf Hd. unfold cgr_b64 in Hf. unfold cgr_exact in Hd. fold Sf in Hf.
  exact (walk_exact corner s 1 (fcentre Sf) (dcentre Sz) lf ld Hl centre_rel Hf Hd).
Qed.
End Walk.
