(* C03 prototype: the sorted, de-duplicated image of x -> min x (rc x) is exactly the increasing list of canonical codes *)
From Coq Require Import ZArith NArith List Lia Bool Arith Sorting.Mergesort Sorting.Sorted Sorting.Permutation Orders.
From Coq Require Import MSets.MSetAVL Structures.OrdersEx SetoidList.
From Coq Require Import ZifyN ZifyNat ZifyBool.
From KT Require Import Base.Bits Model.Kmer Proof.KmerProof Proof.Regs Proof.RevComp.
Import ListNotations.
Open Scope N_scope.

Module NOrder <: TotalLeBool.
  Definition t := N.
  Definition leb := N.leb.
  Theorem leb_total : forall a1 a2, leb a1 a2 = true \/ leb a2 a1 = true.
  Proof. intros a b. unfold leb. destruct (N.leb_spec a b); [now left|right]. apply N.leb_le. lia. Qed.
End NOrder.
Module NSort := Sort NOrder.
Module NS := MSetAVL.Make N_as_OT.

Definition nrange (n : nat) : list N := map N.of_nat (seq 0 n).
(* the same list built with a binary counter (N.of_nat on every element makes the executable model quadratic) *)
Fixpoint nrange_from (start : N) (n : nat) : list N :=
  match n with O => [] | S m => start :: nrange_from (N.succ start) m end.
Definition nrange_fast (n : nat) : list N := nrange_from 0 n.
Lemma nrange_from_eq n : forall a, nrange_from (N.of_nat a) n = map N.of_nat (seq a n).
Proof.
  induction n as [|n IH]; intros a; cbn [nrange_from seq map]; [reflexivity|].
  f_equal. rewrite <- Nat2N.inj_succ. apply IH.
Qed.
Lemma nrange_fast_eq n : nrange_fast n = nrange n.
Proof. unfold nrange_fast, nrange. apply (nrange_from_eq n 0). Qed.

Section PosMap.
Variable k : nat.
Hypothesis Hk : (1 <= k <= 31)%nat.
Let size : nat := N.to_nat (4 ^ N.of_nat k).
Definition cmin (x : N) : N := N.min x (rev_comp k x).
Definition canonb (x : N) : bool := x <=? rev_comp k x.

(* model of the Rust function *)
Definition min_mer_set : NS.t := fold_left (fun s x => NS.add (cmin x) s) (nrange_fast size) NS.empty.
Definition min_mer_vec : list N := NSort.sort (NS.elements min_mer_set).
Definition kcount : nat := NS.cardinal min_mer_set.

(* ---- facts ---- *)
Lemma in_nrange x n : In x (nrange n) <-> (N.to_nat x < n)%nat.
Proof.
  unfold nrange. rewrite in_map_iff. split.
  - intros [i [<- Hi]]. apply in_seq in Hi. lia.
  - intros H. exists (N.to_nat x). split; [lia|]. apply in_seq. lia.
Qed.

Lemma in_range_lt x : In x (nrange size) <-> x < 4 ^ N.of_nat k.
Proof. rewrite in_nrange. unfold size. lia. Qed.

Lemma fold_add_in l s y :
  NS.In y (fold_left (fun s x => NS.add (cmin x) s) l s) <-> NS.In y s \/ exists x, In x l /\ y = cmin x.
Proof.
  revert s. induction l as [|a l IH]; intros s; cbn [fold_left].
  - split; [now left|]. intros [H|[x [[] _]]]. exact H.
  - rewrite IH, NS.add_spec. split.
    + intros [[->|H]|[x [Hx ->]]]; [right; exists a; split; [now left|reflexivity] | now left | right; exists x; split; [now right|reflexivity]].
    + intros [H|[x [[<-|Hx] ->]]]; [left; now right | left; now left | right; exists x; split; [exact Hx|reflexivity]].
Qed.

Lemma set_spec y : NS.In y min_mer_set <-> y < 4 ^ N.of_nat k /\ canonb y = true.
Proof.
  unfold min_mer_set. rewrite nrange_fast_eq, fold_add_in. split.
  - intros [H|[x [Hx ->]]]; [exfalso; revert H; apply NS.empty_spec|].
    apply in_range_lt in Hx. unfold cmin, canonb.
    pose proof (rev_comp_lt k x ltac:(lia) Hx) as Hr.
    destruct (N.le_ge_cases x (rev_comp k x)) as [Hle|Hle].
    + rewrite N.min_l by exact Hle. split; [exact Hx|]. apply N.leb_le. exact Hle.
    + rewrite N.min_r by exact Hle. split; [exact Hr|]. apply N.leb_le.
      rewrite rev_comp_involutive by (try lia; exact Hx). exact Hle.
  - intros [Hy Hc]. right. exists y. split; [apply in_range_lt; exact Hy|].
    unfold cmin, canonb in *. apply N.leb_le in Hc. rewrite N.min_l by exact Hc. reflexivity.
Qed.

(* two strictly increasing lists with the same members are equal *)
Lemma sorted_lt_unique (l1 l2 : list N) :
  StronglySorted N.lt l1 -> StronglySorted N.lt l2 -> (forall x, In x l1 <-> In x l2) -> l1 = l2.
Proof.
  revert l2. induction l1 as [|a l1 IH]; intros l2 H1 H2 Heq.
  - destruct l2 as [|b l2]; [reflexivity|]. exfalso. apply (Heq b). now left.
  - destruct l2 as [|b l2]; [exfalso; apply (Heq a); now left|].
    apply StronglySorted_inv in H1 as [H1 Ha]. apply StronglySorted_inv in H2 as [H2 Hb].
    rewrite Forall_forall in Ha, Hb.
    assert (a = b).
    { destruct (proj1 (Heq a) (or_introl eq_refl)) as [->|Hin]; [reflexivity|].
      destruct (proj2 (Heq b) (or_introl eq_refl)) as [->|Hin']; [reflexivity|].
      specialize (Ha _ Hin'). specialize (Hb _ Hin). lia. }
    subst b. f_equal. apply IH; [exact H1|exact H2|].
    intros x. split; intros Hx.
    + destruct (proj1 (Heq x) (or_intror Hx)) as [->|H]; [|exact H]. specialize (Ha _ Hx). lia.
    + destruct (proj2 (Heq x) (or_intror Hx)) as [->|H]; [|exact H]. specialize (Hb _ Hx). lia.
Qed.

Lemma nrange_sorted n : StronglySorted N.lt (nrange n).
Proof.
  unfold nrange. generalize 0%nat. induction n as [|n IH]; intros s; cbn [seq map]; constructor.
  - apply IH.
  - apply Forall_forall. intros x Hx. apply in_map_iff in Hx as [i [<- Hi]]. apply in_seq in Hi. lia.
Qed.

Lemma filter_sorted (f : N -> bool) l : StronglySorted N.lt l -> StronglySorted N.lt (filter f l).
Proof.
  induction 1 as [|a l Hs IH Ha]; cbn [filter]; [constructor|].
  destruct (f a); [|exact IH]. constructor; [exact IH|].
  rewrite Forall_forall in *. intros x Hx. apply filter_In in Hx as [Hx _]. auto.
Qed.

Lemma sort_sorted_lt l : NoDup l -> StronglySorted N.lt (NSort.sort l).
Proof.
  intros Hnd.
  pose proof (NSort.StronglySorted_sort l) as Hs.
  assert (Htr : Relations_1.Transitive (fun x y => is_true (N.leb x y))).
  { intros x y z H1 H2. unfold is_true in *. apply N.leb_le in H1, H2. apply N.leb_le. lia. }
  specialize (Hs Htr).
  assert (Hnd' : NoDup (NSort.sort l)) by (eapply Permutation_NoDup; [apply NSort.Permuted_sort|exact Hnd]).
  clear Htr. induction Hs as [|a t Hs IH Ha]; [constructor|].
  inversion Hnd' as [|? ? Hna Hnt]; subst. constructor; [apply IH; exact Hnt|].
  rewrite Forall_forall in *. intros x Hx. specialize (Ha x Hx). unfold is_true in Ha. apply N.leb_le in Ha.
  assert (x <> a) by (intros ->; contradiction). lia.
Qed.

Lemma elements_nodup s : NoDup (NS.elements s).
Proof.
  pose proof (NS.elements_spec2w s) as H. induction H as [|a l Ha Hl IH]; constructor; [|exact IH].
  intros Hin. apply Ha. apply InA_alt. exists a. split; [reflexivity|exact Hin].
Qed.

Theorem min_mer_vec_eq : min_mer_vec = filter canonb (nrange size).
Proof.
  apply sorted_lt_unique.
  - apply sort_sorted_lt. apply elements_nodup.
  - apply filter_sorted. apply nrange_sorted.
  - intros x. unfold min_mer_vec. split.
    + intros Hx. apply (Permutation_in _ (Permutation_sym (NSort.Permuted_sort _))) in Hx.
      assert (NS.In x min_mer_set).
      { apply NS.elements_spec1. apply InA_alt. exists x. split; [reflexivity|exact Hx]. }
      apply set_spec in H as [H1 H2]. apply filter_In. split; [apply in_range_lt; exact H1|exact H2].
    + intros Hx. apply filter_In in Hx as [H1 H2]. apply in_range_lt in H1.
      apply (Permutation_in _ (NSort.Permuted_sort _)).
      assert (Hin : NS.In x min_mer_set) by (apply set_spec; split; assumption).
      apply NS.elements_spec1 in Hin. apply InA_alt in Hin as [y [Hy Hin]].
      unfold N_as_OT.eq in Hy. subst y. exact Hin.
Qed.
End PosMap.
Check min_mer_vec_eq.
Print Assumptions min_mer_vec_eq.
