(* C05: the composition output does not depend on the container the records arrive in.
   oligo_cmd is the composition of the executable reader model (path suffix -> format, gzip members concatenated,
   lines, parser) with the executable file-level model of `comp oligo`: file bytes in, output bytes out. *)
From Coq Require Import NArith List Lia Bool String.
From KT Require Import Gen.Generated Gen.Alphabet Model.Kmer Model.Show Model.Ops Model.Rows Model.Pipeline Model.Reader.
From KT Require Import Proof.Fasta Proof.Fastq Proof.ReaderProof Proof.PipelineProof.
Import ListNotations.
Open Scope N_scope.
Notation length := List.length.
Notation concat := List.concat.

Definition oligo_cmd (path : list N) (members : list (list N)) (k : nat) (norm hdr : bool) (delim : list N) (mem : nat) : option (list N) :=
  match format_of path with
  | None => None
  | Some f => match parse f (file_content members) with
              | Ok recs => Some (m_ofile k norm hdr delim mem (map snd recs))
              | Panic => None
              end
  end.

Lemma oligo_cmd_fasta path ms rs bodies last k norm hdr delim mem :
  format_of path = Some Fasta -> concat ms = stream bodies last ->
  Forall wf_rec rs -> Forall (fun b => ~ In LF b) bodies -> ~ In LF last ->
  printed rs (stream_lines bodies last) ->
  oligo_cmd path ms k norm hdr delim mem = Some (m_ofile k norm hdr delim mem (map rseq rs)).
Proof.
  intros Hf Hc Hw Hb Hl Hp. unfold oligo_cmd, file_content.
  rewrite Hf, Hc, (parse_stream_fasta rs bodies last Hw Hb Hl Hp), map_map. reflexivity.
Qed.
Lemma oligo_cmd_fastq path ms rs bodies last k norm hdr delim mem :
  format_of path = Some Fastq -> concat ms = stream bodies last ->
  Forall wf_recq rs -> Forall (fun b => ~ In LF b) bodies -> ~ In LF last ->
  printed_qs rs (stream_lines bodies last) ->
  oligo_cmd path ms k norm hdr delim mem = Some (m_ofile k norm hdr delim mem (map qseq rs)).
Proof.
  intros Hf Hc Hw Hb Hl Hp. unfold oligo_cmd, file_content.
  rewrite Hf, Hc, (parse_stream_fastq rs bodies last Hw Hb Hl Hp), map_map. reflexivity.
Qed.

(* a FASTA file (any line wrapping, any descriptions, LF or CRLF as covered by `printed`) and a FASTQ file that
   carry the same sequences in the same order, each cut into gzip members in any way, with any batch-memory
   limits: the same output bytes, namely the specified rows of the sequences *)
Theorem container_independent pa ma ra ba la pq mq rq bq lq k norm hdr delim mem mem' :
  (1 <= k <= 31)%nat -> letters = [65; 67; 71; 84] ->
  format_of pa = Some Fasta -> concat ma = stream ba la -> Forall wf_rec ra ->
  Forall (fun b => ~ In LF b) ba -> ~ In LF la -> printed ra (stream_lines ba la) ->
  format_of pq = Some Fastq -> concat mq = stream bq lq -> Forall wf_recq rq ->
  Forall (fun b => ~ In LF b) bq -> ~ In LF lq -> printed_qs rq (stream_lines bq lq) ->
  map rseq ra = map qseq rq ->
  Forall (Forall (fun b => nt4k b = digit_of_letter b)) (map rseq ra) ->
  oligo_cmd pa ma k norm hdr delim mem = oligo_cmd pq mq k norm hdr delim mem' /\
  oligo_cmd pa ma k norm hdr delim mem = Some (s_ofile k norm hdr delim (map rseq ra)).
Proof.
  intros Hk Hl Hfa Hca Hwa Hba Hla Hpa Hfq Hcq Hwq Hbq Hlq Hpq Hs Hd.
  rewrite (oligo_cmd_fasta pa ma ra ba la k norm hdr delim mem Hfa Hca Hwa Hba Hla Hpa).
  rewrite (oligo_cmd_fastq pq mq rq bq lq k norm hdr delim mem' Hfq Hcq Hwq Hbq Hlq Hpq).
  rewrite <- Hs. rewrite !(ofile_model_spec k Hk norm hdr delim _ (map rseq ra) Hl Hd). split; reflexivity.
Qed.
