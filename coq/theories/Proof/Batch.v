(* C05/C08/C11/C12 prototype: the batch loop writes the rows of all records in input order,
   for every memory limit *)
From Coq Require Import List Lia Arith Bool.
Import ListNotations.

Section Batch.
Variables (R Row : Type) (row : R -> Row) (len : R -> nat).

(* for record in records { total += len; buffer.push(record); if total >= mem { flush } } ; final flush *)
Fixpoint batch_go (nonempty_rule : bool) (mem : nat) (buffer : list R) (total : nat) (recs : list R) (out : list Row) : list Row :=
  match recs with
  | [] => if (if nonempty_rule then negb (Nat.eqb (length buffer) 0) else negb (Nat.eqb total 0))
          then out ++ map row buffer else out
  | r :: t => let total' := total + len r in
              let buffer' := buffer ++ [r] in
              if mem <=? total' then batch_go nonempty_rule mem [] 0 t (out ++ map row buffer')
              else batch_go nonempty_rule mem buffer' total' t out
  end.

(* oligo / cgr / oligocgr: final flush when the buffer is non-empty *)
Theorem batch_rows mem recs : forall buffer total out,
  batch_go true mem buffer total recs out = out ++ map row buffer ++ map row recs.
Proof.
  induction recs as [|r t IH]; intros buffer total out; cbn [batch_go].
  - rewrite app_nil_r. destruct buffer; cbn; [now rewrite app_nil_r|reflexivity].
  - destruct (mem <=? total + len r); rewrite IH.
    + cbn [map app]. rewrite map_app, <- !app_assoc. reflexivity.
    + rewrite map_app, <- !app_assoc. reflexivity.
Qed.

Corollary batch_all mem recs : batch_go true mem [] 0 recs [] = map row recs.
Proof. now rewrite batch_rows. Qed.

(* coverage as written: final flush only when total > 0 -- loses records whose lengths sum to 0 *)
Theorem batch_total_rule_refuted (r0 : R) : len r0 = 0 ->
  batch_go false 1 [] 0 [r0] [] <> map row [r0].
Proof. intros H. cbn. rewrite H. cbn. discriminate. Qed.
End Batch.

(* C14 prototype: the mapped layout *)
Section Layout.
Variables (km1 dlen hdr records : nat).            (* kcount = km1 + 1 >= 1 *)
Definition kcount := S km1.
Definition row_len := kcount * 8 + km1 * dlen + 1.               (* k numbers, k-1 delimiters, newline *)
Definition per_line_fixed := kcount * 8 + (kcount - 1) * dlen + 1.   (* after the repair *)
Definition per_line_orig := kcount * (8 + 1).                         (* as written *)
Definition offset (n : nat) := hdr + row_len * n.
Definition size_fixed := records * per_line_fixed + hdr.
Definition size_orig := records * per_line_orig + hdr.

Lemma per_line_fixed_eq : per_line_fixed = row_len.
Proof. unfold per_line_fixed, row_len, kcount. rewrite Nat.sub_succ, Nat.sub_0_r. reflexivity. Qed.

Theorem rows_in_bounds n : n < records -> offset n + row_len <= size_fixed.
Proof. unfold offset, size_fixed. rewrite per_line_fixed_eq. nia. Qed.
Theorem rows_tile n : offset (S n) = offset n + row_len /\ offset 0 = hdr /\ offset records = size_fixed.
Proof. unfold offset, size_fixed. rewrite per_line_fixed_eq. nia. Qed.
Theorem rows_disjoint n n' : n < n' -> offset n + row_len <= offset n'.
Proof. unfold offset. nia. Qed.
(* the size computed by the code as written is right exactly for one-byte delimiters *)
Theorem orig_size_iff_one_byte_delim : 1 <= km1 -> 1 <= records ->
  (offset records = size_orig <-> dlen = 1).
Proof. unfold offset, size_orig, per_line_orig, row_len, kcount. intros. split; intros; nia. Qed.
End Layout.
Print Assumptions batch_all.
Print Assumptions rows_tile.
Print Assumptions orig_size_iff_one_byte_delim.
