(* C03 prototype: closed form for the number of canonical k-mers, for every k <= 31 *)
From Coq Require Import ZArith NArith List Lia Bool Arith Sorting.Permutation.
From Coq Require Import ZifyN ZifyNat ZifyBool.
From KT Require Import Base.Bits Model.Kmer Proof.KmerProof Proof.Regs Proof.RevComp.
Import ListNotations.
Open Scope N_scope.
Arguments N.pow : simpl never. Arguments N.mul : simpl never. Arguments N.add : simpl never.
Arguments N.ltb : simpl never. Arguments N.leb : simpl never. Arguments N.eqb : simpl never.

(* ---------- counting with an involution ---------- *)
Section Invol.
Variable S : list N.
Variable f : N -> N.
Hypothesis HS : NoDup S.
Hypothesis Hclosed : forall x, In x S -> In (f x) S.
Hypothesis Hinv : forall x, In x S -> f (f x) = x.

Definition pa (x : N) : bool := x <? f x.
Definition pp (x : N) : bool := x =? f x.
Definition pb (x : N) : bool := f x <? x.
Definition pc (x : N) : bool := x <=? f x.
Let A := filter pa S.
Let P := filter pp S.
Let B := filter pb S.
Let C := filter pc S.

Lemma three_way (l : list N) :
  length l = (length (filter pa l) + length (filter pp l) + length (filter pb l))%nat.
Proof.
  induction l as [|a l IH]; [reflexivity|]. cbn [filter length]. unfold pa, pp, pb in *.
  destruct (a <? f a) eqn:E1, (a =? f a) eqn:E2, (f a <? a) eqn:E3; cbn [length]; lia.
Qed.

Lemma canon_split (l : list N) :
  length (filter pc l) = (length (filter pa l) + length (filter pp l))%nat.
Proof.
  induction l as [|a l IH]; [reflexivity|]. cbn [filter length]. unfold pa, pp, pc in *.
  destruct (a <? f a) eqn:E1, (a =? f a) eqn:E2, (a <=? f a) eqn:E3; cbn [length]; lia.
Qed.

Lemma NoDup_map_on {X Y} (g : X -> Y) (l : list X) :
  NoDup l -> (forall x y, In x l -> In y l -> g x = g y -> x = y) -> NoDup (map g l).
Proof.
  induction 1 as [|a l Ha Hl IH]; intros Hinj; cbn [map]; constructor.
  - intros Hin. apply in_map_iff in Hin as [y [Hy Hyin]].
    assert (y = a) by (apply Hinj; [now right|now left|exact Hy]). subst. contradiction.
  - apply IH. intros x y Hx Hy. apply Hinj; now right.
Qed.

Lemma AB_same : length A = length B.
Proof.
  rewrite <- (map_length f A). apply Permutation_length. apply NoDup_Permutation.
  - apply NoDup_map_on; [apply NoDup_filter; exact HS|].
    intros x y Hx Hy E. apply filter_In in Hx as [Hx _]. apply filter_In in Hy as [Hy _].
    rewrite <- (Hinv x Hx), <- (Hinv y Hy), E. reflexivity.
  - apply NoDup_filter; exact HS.
  - intros y. unfold A, B. rewrite in_map_iff. split.
    + intros [x [<- Hx]]. apply filter_In in Hx as [Hx Hlt]. apply filter_In. split; [apply Hclosed; exact Hx|].
      unfold pa, pb in *. rewrite (Hinv x Hx). exact Hlt.
    + intros Hy. apply filter_In in Hy as [Hy Hlt]. exists (f y). split; [apply Hinv; exact Hy|].
      apply filter_In. split; [apply Hclosed; exact Hy|]. unfold pa, pb in *. rewrite (Hinv y Hy). exact Hlt.
Qed.

Theorem twice_canon : (2 * length C = length S + length P)%nat.
Proof.
  unfold C. rewrite canon_split. rewrite (three_way S). fold A P B. rewrite <- AB_same. lia.
Qed.
End Invol.

(* ---------- palindromes ---------- *)
Lemma rc_app a b : rc (a ++ b) = rc b ++ rc a.
Proof. unfold rc. rewrite rev_app_distr, map_app. reflexivity. Qed.

Lemma rc_length l : length (rc l) = length l.
Proof. unfold rc. now rewrite map_length, rev_length. Qed.

Lemma code_inj l1 l2 : dig l1 -> dig l2 -> length l1 = length l2 -> code l1 = code l2 -> l1 = l2.
Proof.
  intros H1 H2 Hl E. rewrite <- (digits_code l1 H1), <- (digits_code l2 H2), Hl, E. reflexivity.
Qed.

Definition nrange (n : nat) : list N := map N.of_nat (seq 0 n).
Lemma in_nrange x n : In x (nrange n) <-> (N.to_nat x < n)%nat.
Proof.
  unfold nrange. rewrite in_map_iff. split.
  - intros [i [<- Hi]]. apply in_seq in Hi. lia.
  - intros H. exists (N.to_nat x). split; [lia|]. apply in_seq. lia.
Qed.
Lemma nrange_nodup n : NoDup (nrange n).
Proof. unfold nrange. apply NoDup_map_on; [apply seq_NoDup|]. intros x y _ _ E. lia. Qed.
Lemma nrange_length n : length (nrange n) = n.
Proof. unfold nrange. now rewrite map_length, seq_length. Qed.

Section Pal.
Variable k : nat.
Hypothesis Hk : (k <= 31)%nat.
Let size := N.to_nat (4 ^ N.of_nat k).
Let f := rev_comp k.
Definition pals : list N := filter (pp f) (nrange size).

Lemma in_size x : In x (nrange size) <-> x < 4 ^ N.of_nat k.
Proof. rewrite in_nrange. unfold size. lia. Qed.

Lemma pal_digits x : x < 4 ^ N.of_nat k -> (x = f x <-> digits k x = rc (digits k x)).
Proof.
  intros Hx. unfold f. rewrite (rev_comp_digits k x ltac:(lia) Hx). split.
  - intros E. apply code_inj; [apply digits_dig|apply rc_dig|now rewrite rc_length|].
    rewrite <- E. apply code_digits. exact Hx.
  - intros E. rewrite <- E. symmetry. apply code_digits. exact Hx.
Qed.

Lemma pals_odd h : k = (2 * h + 1)%nat -> pals = [].
Proof.
  intros Hh. unfold pals.
  assert (Hnone : forall x, In x (nrange size) -> pp f x = false).
  { intros x Hx. apply in_size in Hx. unfold pp. apply N.eqb_neq. intros E.
    apply (pal_digits x Hx) in E.
    set (l := digits k x) in *. assert (Hl : length l = k) by apply digits_len.
    assert (Hd : dig l) by apply digits_dig.
    assert (Hn : nth h l 0 = 3 - nth h l 0).
    { rewrite E at 1. unfold rc. change 0 with (compl 3) at 1. rewrite map_nth.
      rewrite rev_nth by lia. replace (length l - Datatypes.S h)%nat with h by lia.
      unfold compl. f_equal. apply nth_indep. lia. }
    assert (Hlt : nth h l 0 < 4).
    { unfold dig in Hd. rewrite Forall_forall in Hd. apply Hd. apply nth_In. lia. }
    lia. }
  induction (nrange size) as [|a l IH]; [reflexivity|]. cbn [filter].
  rewrite (Hnone a (or_introl eq_refl)). apply IH. intros x Hx. apply Hnone. now right.
Qed.

Definition pal (h : nat) (y : N) : N := code (digits h y ++ rc (digits h y)).

Lemma pals_even h : k = (2 * h)%nat -> length pals = N.to_nat (4 ^ N.of_nat h).
Proof.
  intros Hh.
  transitivity (length (map (pal h) (nrange (N.to_nat (4 ^ N.of_nat h))))); [|now rewrite map_length, nrange_length].
  apply Permutation_length. apply NoDup_Permutation.
  - apply NoDup_filter. apply nrange_nodup.
  - apply NoDup_map_on; [apply nrange_nodup|].
    intros y y' Hy Hy' E. apply in_nrange in Hy, Hy'.
    assert (Hy4 : y < 4 ^ N.of_nat h) by lia. assert (Hy4' : y' < 4 ^ N.of_nat h) by lia.
    unfold pal in E. apply code_inj in E.
    + apply (f_equal (firstn h)) in E. rewrite !firstn_app, !digits_len, !Nat.sub_diag, !firstn_O, !app_nil_r in E.
      rewrite !firstn_all2 in E by (rewrite digits_len; lia).
      rewrite <- (code_digits h y Hy4), <- (code_digits h y' Hy4'), E. reflexivity.
    + apply Forall_app. split; [apply digits_dig|apply rc_dig].
    + apply Forall_app. split; [apply digits_dig|apply rc_dig].
    + rewrite !app_length, !rc_length, !digits_len. reflexivity.
  - intros x. unfold pals. rewrite filter_In, in_map_iff. split.
    + intros [Hx E]. apply in_size in Hx. unfold pp in E. apply N.eqb_eq in E. apply (pal_digits x Hx) in E.
      set (l := digits k x) in *. assert (Hl : length l = k) by apply digits_len.
      assert (Hd : dig l) by apply digits_dig.
      set (a := firstn h l). set (b := skipn h l).
      assert (Hab : l = a ++ b) by (symmetry; apply firstn_skipn).
      assert (Hla : length a = h) by (unfold a; rewrite firstn_length; lia).
      assert (Hlb : length b = h) by (unfold b; rewrite skipn_length; lia).
      assert (Hda : dig a) by (apply Forall_forall; intros z Hz; unfold dig in Hd; rewrite Forall_forall in Hd; apply Hd; rewrite Hab; apply in_or_app; now left).
      assert (Hb : b = rc a).
      { rewrite Hab, rc_app in E. apply (f_equal (skipn h)) in E.
        rewrite !skipn_app, Hla, Nat.sub_diag in E. rewrite (skipn_all2 a) in E by lia.
        rewrite (skipn_all2 (rc b)) in E by (rewrite rc_length; lia).
        rewrite rc_length, Hlb, Nat.sub_diag in E. cbn [skipn app] in E. exact E. }
      exists (code a). split.
      * unfold pal. rewrite <- Hla, digits_code by exact Hda. rewrite <- Hb, <- Hab. apply code_digits. exact Hx.
      * apply in_nrange. pose proof (code_lt a Hda) as Hlt. rewrite Hla in Hlt. lia.
    + intros [y [<- Hy]]. apply in_nrange in Hy. assert (Hy4 : y < 4 ^ N.of_nat h) by lia.
      set (l := digits h y ++ rc (digits h y)).
      assert (Hdl : dig l) by (apply Forall_app; split; [apply digits_dig|apply rc_dig]).
      assert (Hll : length l = k) by (unfold l; rewrite app_length, rc_length, digits_len; lia).
      assert (Hlt : pal h y < 4 ^ N.of_nat k) by (unfold pal; fold l; pose proof (code_lt l Hdl) as H; rewrite Hll in H; exact H).
      split; [apply in_size; exact Hlt|]. unfold pp. apply N.eqb_eq. apply (pal_digits _ Hlt).
      unfold pal. fold l. rewrite <- Hll, digits_code by exact Hdl.
      unfold l. rewrite rc_app, rc_involutive by apply digits_dig. reflexivity.
Qed.

Definition canon_count : nat := length (filter (pc f) (nrange size)).

Theorem twice_canon_count : (2 * canon_count = size + length pals)%nat.
Proof.
  unfold canon_count, pals.
  assert (H : (2 * length (filter (pc f) (nrange size)) = length (nrange size) + length (filter (pp f) (nrange size)))%nat).
  { apply twice_canon.
    - apply nrange_nodup.
    - intros x Hx. apply in_size. apply rev_comp_lt; [lia|]. apply in_size. exact Hx.
    - intros x Hx. apply rev_comp_involutive; [lia|]. apply in_size. exact Hx. }
  rewrite nrange_length in H. exact H.
Qed.
End Pal.

Theorem canon_count_closed_form k : (k <= 31)%nat ->
  N.of_nat (canon_count k) =
  (4 ^ N.of_nat k + (if Nat.even k then 4 ^ N.of_nat (k / 2) else 0)) / 2.
Proof.
  intros Hk. pose proof (twice_canon_count k Hk) as H.
  destruct (Nat.even k) eqn:Ev.
  - apply Nat.even_spec in Ev as [h Hh]. rewrite (pals_even k Hk h Hh) in H.
    replace (k / 2)%nat with h by (subst k; rewrite Nat.mul_comm, Nat.div_mul; lia).
    apply N.div_unique with (r := 0); lia.
  - assert (Hodd : Nat.odd k = true) by (rewrite <- Nat.negb_even, Ev; reflexivity).
    apply Nat.odd_spec in Hodd as [h Hh]. rewrite (pals_odd k Hk h Hh) in H. cbn [length] in H.
    apply N.div_unique with (r := 0); lia.
Qed.
Check canon_count_closed_form.
Print Assumptions canon_count_closed_form.
