(* C04 / C14 prototype: the oligo vector counts canonical k-mers; all indices stay in bounds *)
From Coq Require Import ZArith NArith List Lia Bool Arith Sorting.Sorted.
From Coq Require Import ZifyN ZifyNat ZifyBool.
From KT Require Import Proof.Sched.   (* upd and its lemmas *)
Import ListNotations.

Lemma nth_rep {X} (x : X) n i d : i < n -> nth i (repeat x n) d = x.
Proof. revert i; induction n as [|n IH]; intros [|i] H; cbn; try lia; auto. apply IH; lia. Qed.

Fixpoint lsum (l : list nat) : nat := match l with [] => 0 | a :: t => a + lsum t end.

Section Hist.
(* vec[idx y] += 1 for every y, starting from zeros: a histogram *)
Variable Y : Type.
Variable idx : Y -> nat.
Variable n : nat.

Definition bump (vec : list nat) (y : Y) : list nat := upd vec (idx y) (S (nth (idx y) vec 0)).
Definition hist (ys : list Y) : list nat := fold_left bump ys (repeat 0 n).

Definition cnt (j : nat) (ys : list Y) : nat := length (filter (fun y => Nat.eqb (idx y) j) ys).

Lemma bump_length vec y : length (bump vec y) = length vec.
Proof. apply upd_length. Qed.

Lemma fold_bump_length ys vec : length (fold_left bump ys vec) = length vec.
Proof. revert vec. induction ys as [|y t IH]; intros vec; cbn [fold_left]; [reflexivity|]. rewrite IH. apply bump_length. Qed.

Lemma fold_bump_nth ys : forall vec j, length vec = n -> (forall y, In y ys -> idx y < n) ->
  nth j (fold_left bump ys vec) 0 = nth j vec 0 + cnt j ys.
Proof.
  induction ys as [|y t IH]; intros vec j Hl Hb; cbn [fold_left cnt filter length]; [unfold cnt; cbn; lia|].
  rewrite IH; [|rewrite bump_length; exact Hl|intros z Hz; apply Hb; now right].
  unfold cnt. cbn [filter]. unfold bump.
  assert (Hy : idx y < n) by (apply Hb; now left).
  destruct (Nat.eqb_spec (idx y) j) as [<-|Hne].
  - rewrite nth_upd_eq by lia. cbn [length]. lia.
  - rewrite nth_upd_neq by exact Hne. lia.
Qed.

Theorem hist_nth ys j : (forall y, In y ys -> idx y < n) -> nth j (hist ys) 0 = cnt j ys.
Proof.
  intros Hb. unfold hist. rewrite fold_bump_nth; [|apply repeat_length|exact Hb].
  destruct (Nat.lt_ge_cases j n); [rewrite nth_rep by assumption|rewrite nth_overflow by (rewrite repeat_length; lia)]; lia.
Qed.

Theorem hist_length ys : length (hist ys) = n.
Proof. unfold hist. rewrite fold_bump_length. apply repeat_length. Qed.

Lemma sum_add (f g : nat -> nat) l :
  lsum (map (fun j => f j + g j) l) = lsum (map f l) + lsum (map g l).
Proof. induction l as [|a l IH]; cbn [map lsum]; [reflexivity|]. lia. Qed.

Lemma sum_indicator i m : forall s,
  lsum (map (fun j => if Nat.eqb i j then 1 else 0) (seq s m)) = if (s <=? i) && (i <? s + m) then 1 else 0.
Proof.
  induction m as [|m IH]; intros s; cbn [seq map lsum].
  - destruct (s <=? i) eqn:E1, (i <? s + 0) eqn:E2; cbn; try reflexivity. lia.
  - rewrite IH. destruct (Nat.eqb_spec i s) as [->|Hne].
    + destruct (S s <=? s) eqn:E1; [lia|]. destruct (s <=? s) eqn:E2; [|lia]. destruct (s <? s + S m) eqn:E3; [reflexivity|lia].
    + destruct (S s <=? i) eqn:E1, (i <? S s + m) eqn:E2, (s <=? i) eqn:E3, (i <? s + S m) eqn:E4; cbn; lia.
Qed.

Lemma cnt_cons j y t : cnt j (y :: t) = (if Nat.eqb (idx y) j then 1 else 0) + cnt j t.
Proof. unfold cnt. cbn [filter]. destruct (Nat.eqb (idx y) j); reflexivity. Qed.

Lemma cnt_total ys : (forall y, In y ys -> idx y < n) ->
  lsum (map (fun j => cnt j ys) (seq 0 n)) = length ys.
Proof.
  induction ys as [|y t IH]; intros Hb.
  - unfold cnt. cbn [filter length]. induction (seq 0 n); cbn; auto.
  - cbn [length]. rewrite <- IH by (intros z Hz; apply Hb; now right).
    assert (Hy : idx y < n) by (apply Hb; now left).
    rewrite (map_ext _ (fun j => (if Nat.eqb (idx y) j then 1 else 0) + cnt j t)) by (intros; apply cnt_cons).
    rewrite sum_add, sum_indicator.
    destruct (0 <=? idx y) eqn:E1, (idx y <? 0 + n) eqn:E2; cbn; lia.
Qed.
End Hist.

(* rank map: pos_map[kmer] = position of kmer in the sorted vector *)
Section Rank.
Variable vec : list N.             (* min_mer_vec: strictly increasing canonical codes *)
Variable size : nat.               (* 4^k *)
Hypothesis Hsorted : StronglySorted N.lt vec.
Hypothesis Hsmall : forall x, In x vec -> (N.to_nat x < size)%nat.

Definition pos_map : list nat :=
  fold_left (fun pm '(pos, kmer) => upd pm (N.to_nat kmer) pos) (combine (seq 0 (length vec)) vec) (repeat 0 size).

Lemma pos_map_length : length pos_map = size.
Proof.
  unfold pos_map. generalize (combine (seq 0 (length vec)) vec). intros l.
  generalize (repeat_length 0 size). generalize (repeat 0 size).
  induction l as [|[p x] l IH]; intros pm Hl; cbn [fold_left]; [exact Hl|]. apply IH. now rewrite upd_length.
Qed.

Lemma sorted_nodup (l : list N) : StronglySorted N.lt l -> NoDup l.
Proof.
  induction 1 as [|a l Hs IH Ha]; constructor; [|exact IH].
  intros Hin. rewrite Forall_forall in Ha. specialize (Ha a Hin). lia.
Qed.

(* generic: after writing pos at key for each (pos,key) with distinct keys, key_j holds pos_j *)
Lemma fold_assign (l : list (nat * N)) : forall pm,
  NoDup (map snd l) -> (forall p x, In (p, x) l -> (N.to_nat x < length pm)%nat) ->
  forall p x, In (p, x) l ->
  nth (N.to_nat x) (fold_left (fun pm '(pos, kmer) => upd pm (N.to_nat kmer) pos) l pm) 0 = p.
Proof.
  induction l as [|[q y] l IH]; intros pm Hnd Hb p x Hin; [contradiction|].
  cbn [fold_left]. cbn [map snd] in Hnd. inversion Hnd as [|? ? Hny Hnd']; subst.
  destruct Hin as [E|Hin].
  - inversion E; subst q y. clear E.
    (* later writes never touch key x *)
    assert (G : forall l' pm', ~ In x (map snd l') ->
              nth (N.to_nat x) (fold_left (fun pm '(pos, kmer) => upd pm (N.to_nat kmer) pos) l' pm') 0 = nth (N.to_nat x) pm' 0).
    { induction l' as [|[q' y'] l' IH']; intros pm' Hn; [reflexivity|]. cbn [fold_left].
      rewrite IH' by (intro H; apply Hn; now right).
      apply nth_upd_neq. intro E. apply Hn. left. cbn. lia. }
    rewrite G by exact Hny. apply nth_upd_eq. apply (Hb p x). now left.
  - apply IH; [exact Hnd'| |exact Hin].
    intros p' x' H'. rewrite upd_length. apply (Hb p' x'). now right.
Qed.

Lemma combine_seq_in (l : list N) s j : (j < length l)%nat -> In ((s + j)%nat, nth j l 0%N) (combine (seq s (length l)) l).
Proof.
  revert s j. induction l as [|a l IH]; intros s j Hj; cbn in Hj; [lia|].
  cbn [length seq combine]. destruct j as [|j]; [left; f_equal; lia|].
  right. replace (s + S j)%nat with (S s + j)%nat by lia. apply IH. lia.
Qed.

Lemma snd_combine_seq (l : list N) s : map snd (combine (seq s (length l)) l) = l.
Proof. revert s. induction l as [|a l IH]; intros s; cbn; [reflexivity|]. f_equal. apply IH. Qed.

Theorem pos_map_rank j : (j < length vec)%nat -> nth (N.to_nat (nth j vec 0%N)) pos_map 0 = j.
Proof.
  intros Hj. unfold pos_map. apply fold_assign.
  - rewrite snd_combine_seq. apply sorted_nodup. exact Hsorted.
  - intros p x Hin. rewrite repeat_length. apply Hsmall.
    apply in_combine_r in Hin. exact Hin.
  - apply (combine_seq_in vec 0 j Hj).
Qed.

(* C14: the value read from pos_map for a canonical code is a valid column *)
Theorem pos_map_in_bounds x : In x vec -> (nth (N.to_nat x) pos_map 0 < length vec)%nat.
Proof.
  intros Hin. destruct (In_nth vec x 0%N Hin) as [j [Hj <-]]. rewrite pos_map_rank by exact Hj. exact Hj.
Qed.
End Rank.
Check pos_map_rank. Check hist_nth. Check cnt_total.
Print Assumptions pos_map_rank.
