(* Decimal text of a number: parse_dec (dec n) = n, every character is a digit, dec is injective. *)
From Coq Require Import NArith ZArith List Lia Bool ZifyN ZifyBool ZifyNat.
From KT Require Import Model.Show.
Import ListNotations.
Open Scope N_scope.
Ltac Zify.zify_post_hook ::= Z.div_mod_to_equations.

Definition pstep (a d : N) : N := 10 * a + (d - 48).
Lemma parse_dec_fold l : parse_dec l = fold_left pstep l 0.
Proof. reflexivity. Qed.

Lemma dec_go_app fuel : forall n acc, exists ds, dec_go fuel n acc = ds ++ acc /\ Forall (fun d => 48 <= d < 58) ds /\
  (n < 10 ^ N.of_nat fuel -> forall a, fold_left pstep (ds ++ acc) a = fold_left pstep acc (a * 10 ^ N.of_nat (length ds) + n)) /\
  (fuel <> 0%nat -> ds <> []).
Proof.
  induction fuel as [|f IH]; intros n acc.
  - exists []. cbn [dec_go app length]. split; [reflexivity|]. split; [constructor|]. split; [|congruence].
    intros H a. cbn in H. f_equal. cbn. lia.
  - cbn [dec_go]. destruct (N.eqb_spec (n / 10) 0) as [E|E].
    + exists [48 + n mod 10]. split; [reflexivity|]. split; [constructor; [lia|constructor]|]. split; [|discriminate].
      intros _ a. cbn [app fold_left length]. f_equal. unfold pstep. change (10 ^ N.of_nat 1) with 10. lia.
    + destruct (IH (n / 10) ((48 + n mod 10) :: acc)) as (ds & Hd & Hf & Hp & _).
      exists (ds ++ [48 + n mod 10]). split; [rewrite Hd, <- app_assoc; reflexivity|].
      split; [apply Forall_app; split; [exact Hf|constructor; [lia|constructor]]|]. split.
      * intros Hn a. rewrite <- app_assoc. cbn [app].
        assert (Hn' : n / 10 < 10 ^ N.of_nat f).
        { rewrite Nat2N.inj_succ, N.pow_succ_r' in Hn. lia. }
        rewrite (Hp Hn' a). cbn [fold_left]. f_equal. unfold pstep. rewrite app_length. cbn [length].
        rewrite Nat.add_1_r, Nat2N.inj_succ, N.pow_succ_r'. lia.
      * intros _ H. destruct ds; discriminate.
Qed.

Lemma pos_size_pow p : N.pos p < 2 ^ N.of_nat (Pos.size_nat p).
Proof.
  induction p as [p IH|p IH|]; cbn [Pos.size_nat]; try rewrite Nat2N.inj_succ, N.pow_succ_r'; try lia.
Qed.
Lemma size_pow n : n < 10 ^ N.of_nat (S (N.size_nat n)).
Proof.
  assert (H2 : n < 2 ^ N.of_nat (S (N.size_nat n))).
  { destruct n as [|p]; [cbn; lia|]. cbn [N.size_nat]. pose proof (pos_size_pow p) as H.
    rewrite Nat2N.inj_succ, N.pow_succ_r'. lia. }
  eapply N.lt_le_trans; [exact H2|]. apply N.pow_le_mono_l. lia.
Qed.

Lemma dec_spec n : exists ds, dec n = ds /\ ds <> [] /\ Forall (fun d => 48 <= d < 58) ds /\ parse_dec ds = n.
Proof.
  unfold dec. destruct (dec_go_app (S (N.size_nat n)) n []) as (ds & Hd & Hf & Hp & Hne).
  rewrite app_nil_r in Hd. exists ds. split; [exact Hd|]. split; [apply Hne; discriminate|]. split; [exact Hf|].
  specialize (Hp (size_pow n) 0). rewrite app_nil_r in Hp. rewrite parse_dec_fold, Hp. cbn [fold_left]. lia.
Qed.

Theorem parse_dec_dec n : parse_dec (dec n) = n.
Proof. destruct (dec_spec n) as (ds & -> & _ & _ & H). exact H. Qed.
Theorem dec_digits n : Forall (fun d => 48 <= d < 58) (dec n).
Proof. destruct (dec_spec n) as (ds & -> & _ & H & _). exact H. Qed.
Theorem dec_nonempty n : dec n <> [].
Proof. destruct (dec_spec n) as (ds & -> & H & _). exact H. Qed.
Theorem dec_inj a b : dec a = dec b -> a = b.
Proof. intros H. rewrite <- (parse_dec_dec a), <- (parse_dec_dec b), H. reflexivity. Qed.
Theorem parse_nat_dec_nat n : parse_nat (dec_nat n) = n.
Proof. unfold parse_nat, dec_nat. rewrite parse_dec_dec. lia. Qed.

(* two digit strings followed by the same non-digit: the digit strings and the rests are equal *)
Lemma digits_then_sep (x : N) (a : list N) : forall a' r r', ~ (48 <= x < 58) ->
  Forall (fun d => 48 <= d < 58) a -> Forall (fun d => 48 <= d < 58) a' ->
  a ++ x :: r = a' ++ x :: r' -> a = a' /\ r = r'.
Proof.
  induction a as [|d a IH]; intros [|d' a'] r r' Hx Ha Ha' E; cbn in E.
  - inversion E. now split.
  - inversion E; subst. inversion Ha'; subst. lia.
  - inversion E; subst. inversion Ha; subst. lia.
  - inversion E; subst. inversion Ha; inversion Ha'; subst.
    destruct (IH a' r r' Hx) as [-> ->]; try assumption. now split.
Qed.
