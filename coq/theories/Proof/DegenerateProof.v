(* C16 / C17: row structure of the outputs on arbitrary (in particular degenerate) inputs, and independence of
   the result files from what the output location held before. *)
From Coq Require Import ZArith NArith List Lia Bool Arith.
From KT Require Import Model.Show Model.Ops Model.Rows Model.Pipeline Proof.Batch Proof.PipelineProof Proof.CgrProof.
Import ListNotations.
Open Scope N_scope.

Lemma row_text_ends_lf norm delim t cs : exists body, row_text norm delim t cs = body ++ [10].
Proof. unfold row_text. eexists. reflexivity. Qed.

(* comp oligo / cov: one row per record, each closed by a line feed, whatever the records are *)
Theorem ofile_rows k norm hdr delim recs :
  exists rows, s_ofile k norm hdr delim recs = (if hdr then header_bytes_spec k delim else []) ++ concat rows
               /\ length rows = length recs /\ Forall (fun r => exists body, r = body ++ [10]) rows.
Proof.
  exists (map (oligo_row_bytes_spec k norm delim) recs). split; [reflexivity|]. split; [apply map_length|].
  apply Forall_forall. intros r Hr. apply in_map_iff in Hr as [s [<- _]]. apply row_text_ends_lf.
Qed.

Theorem cov_rows k bs bc norm delim recs alt :
  exists rows, s_cov k bs bc norm delim recs alt = concat rows
               /\ length rows = length recs /\ Forall (fun r => exists body, r = body ++ [10]) rows.
Proof.
  exists (map (cov_row_bytes_spec k bs bc norm delim (count_table_spec k alt)) recs). split; [reflexivity|].
  split; [apply map_length|]. apply Forall_forall. intros r Hr. apply in_map_iff in Hr as [s [<- _]]. apply row_text_ends_lf.
Qed.

(* the model of the coverage writer (batch loop, final flush when the buffer is non-empty) loses no record,
   in particular no trailing record without bases *)
Theorem cov_model_rows k bs bc norm delim mem recs alt :
  m_cov k bs bc norm delim mem recs alt = concat (map (cov_row_bytes k bs bc norm delim (count_table k alt)) recs).
Proof. apply cov_batch_any_limit. Qed.

(* min: one s2m line per record; in whole-read mode the window is never shorter than the minimiser, so the
   iterator's `wsize - msize + 1` cannot underflow *)
Lemma number_length {A} (l : list A) : forall i, length (number i l) = length l.
Proof. induction l as [|x t IH]; intros i; cbn; [reflexivity|now rewrite IH]. Qed.

Theorem s2m_one_line_per_record txt runs m recs :
  exists lines, s2m_lines txt runs m recs = join semi lines /\ length lines = length recs.
Proof. unfold s2m_lines. eexists. split; [reflexivity|]. rewrite map_length. apply number_length. Qed.

Theorem eff_w_ge_m w m s : (w = 0 \/ m <= w)%nat -> (m <= eff_w w m s)%nat.
Proof. unfold eff_w. intros H. destruct (Nat.eqb_spec w 0); lia. Qed.

(* whole-sequence CGR: either every record is a nucleotide string and there is one row per record, or the
   run is refused *)
Lemma all_some_spec {A} (l : list (option A)) :
  match all_some l with
  | Some r => l = map Some r
  | None => In None l
  end.
Proof.
  induction l as [|o t IH]; [reflexivity|]. unfold all_some in *. cbn [fold_right].
  destruct o as [x|]; [|now left].
  destruct (fold_right _ _ t) as [r|]; [cbn [map]; now rewrite IH|now right].
Qed.

Theorem cgrfile_rows_or_refusal S recs :
  (exists rows, s_cgrfile S recs = dec_nat (length recs) ++ [35] ++ join semi rows /\ length rows = length recs) \/
  (s_cgrfile S recs = err /\ exists s b, In s recs /\ In b s /\ corner_spec b = None).
Proof.
  unfold s_cgrfile. pose proof (all_some_spec (map (cgr_exact corner_spec S) recs)) as H.
  destruct (all_some (map (cgr_exact corner_spec S) recs)) as [rows|].
  - assert (Hl : length rows = length recs).
    { rewrite <- (map_length (cgr_exact corner_spec S) recs), H, map_length. reflexivity. }
    left. eexists. split; [rewrite Hl; reflexivity|]. rewrite map_length. exact Hl.
  - right. split; [reflexivity|]. apply in_map_iff in H as [s [Hs Hin]]. exists s.
    apply (walk_reject _ _ corner_spec (dmid S) s (dcentre S)) in Hs as [b [Hb Hn]]. exists b. auto.
Qed.

(* ---------- C17: a file-system model ---------- *)
From KT Require Export Model.Fs.
Lemma list_eqb_refl p : list_eqb p p = true.
Proof. induction p as [|a p IH]; cbn; [reflexivity|]. now rewrite N.eqb_refl, IH. Qed.
Lemma list_eqb_eq p : forall q, list_eqb p q = true -> p = q.
Proof.
  induction p as [|a p IH]; intros [|b q] E; cbn in E; try discriminate; [reflexivity|].
  apply andb_prop in E as [A B]. apply N.eqb_eq in A. subst. f_equal. now apply IH.
Qed.

Section Fs.
(* path, fs, fs_remove, fs_write, fs_read: Model/Fs.v *)
Lemma read_write_same p c f : fs_read p (fs_write p c f) = Some c.
Proof. unfold fs_write. cbn. now rewrite list_eqb_refl. Qed.

(* a command writes its result files (content a function of input and options only); temp files of THIS run
   are created, read back and removed by names derived from this run's own chunk and partition counts *)
Record cmd := { results : list (path * list N); temps : list (path * list N) }.
Definition run (c : cmd) (f : fs) : fs :=
  let f1 := fold_left (fun f pc => fs_write (fst pc) (snd pc) f) (temps c) f in
  let f2 := fold_left (fun f pc => fs_remove (fst pc) f) (temps c) f1 in
  fold_left (fun f pc => fs_write (fst pc) (snd pc) f) (results c) f2.

Lemma read_after_writes l : forall f p, NoDup (map fst l) -> forall c, In (p, c) l ->
  fs_read p (fold_left (fun f pc => fs_write (fst pc) (snd pc) f) l f) = Some c.
Proof.
  induction l as [|[q d] t IH]; intros f p Hnd c Hin; [destruct Hin|].
  cbn [fold_left fst snd]. inversion Hnd as [|? ? Hni Hnd']; subst. destruct Hin as [E|Hin].
  - inversion E; subst q d. clear E.
    assert (G : forall l f, ~ In p (map fst l) -> fs_read p f = Some c ->
                fs_read p (fold_left (fun f pc => fs_write (fst pc) (snd pc) f) l f) = Some c).
    { clear. induction l as [|[q d] t IH]; intros f Hn Hr; [exact Hr|]. cbn [fold_left fst snd].
      apply IH; [intro; apply Hn; now right|]. unfold fs_write. cbn [fs_read].
      destruct (list_eqb p q) eqn:E.
      - exfalso. apply Hn. left. cbn. symmetry. now apply list_eqb_eq.
      - clear -Hr E. revert Hr. induction f as [|[r e] f IHf]; cbn; [discriminate|].
        destruct (list_eqb p r) eqn:E2.
        + intros H. destruct (list_eqb q r) eqn:E3.
          * exfalso. apply list_eqb_eq in E3, E2. subst. rewrite list_eqb_refl in E. discriminate.
          * cbn. rewrite E2. exact H.
        + intros H. destruct (list_eqb q r); [now apply IHf|]. cbn. rewrite E2. now apply IHf. }
    apply G; [exact Hni|]. apply read_write_same.
  - apply IH; assumption.
Qed.

(* the result files after a run do not depend on what the location held before *)
Theorem results_do_not_depend_on_history c f f' p d : NoDup (map fst (results c)) -> In (p, d) (results c) ->
  fs_read p (run c f) = Some d /\ fs_read p (run c f') = Some d.
Proof. intros Hnd Hin. unfold run. split; apply read_after_writes; assumption. Qed.

Corollary history_independent cs c f0 p d : NoDup (map fst (results c)) -> In (p, d) (results c) ->
  fs_read p (fold_left (fun f c => run c f) (cs ++ [c]) f0) = fs_read p (run c []).
Proof.
  intros Hnd Hin. rewrite fold_left_app. cbn [fold_left].
  destruct (results_do_not_depend_on_history c (fold_left (fun f c => run c f) cs f0) [] p d Hnd Hin) as [-> ->]. reflexivity.
Qed.
End Fs.
