(* C05 prototype: every complete interleaving of W workers writes row n of record n into slot n *)
From Coq Require Import List Lia Bool Arith.
Import ListNotations.

Section Upd.
Context {X : Type}.
Fixpoint upd (l : list X) (i : nat) (x : X) : list X :=
  match l, i with
  | [], _ => []
  | _ :: t, O => x :: t
  | y :: t, S i' => y :: upd t i' x
  end.
Lemma upd_length l i x : length (upd l i x) = length l.
Proof. revert i; induction l as [|y t IH]; intros [|i]; cbn; auto. Qed.
Lemma nth_upd_eq l i x d : i < length l -> nth i (upd l i x) d = x.
Proof. revert i; induction l as [|y t IH]; intros [|i] H; cbn in *; try lia; auto. apply IH; lia. Qed.
Lemma nth_upd_neq l i j x d : i <> j -> nth j (upd l i x) d = nth j l d.
Proof. revert i j; induction l as [|y t IH]; intros [|i] [|j] H; cbn; auto; try lia. Qed.
End Upd.

Section Mmap.
Variable A : Type.
Variable rows : list A.          (* rows[n] = formatted row of record n *)
Variable W : nat.                (* number of workers *)
Hypothesis HW : 1 <= W.
Let R := length rows.

Record st := mk { next : nat; held : list (option nat); exited : list bool; slots : list (option A) }.

Definition init : st := mk 0 (repeat None W) (repeat false W) (repeat None R).

(* one atomic step of worker i: WRITE if it holds a record, else TAKE (lock; next(); unlock) or EXIT *)
Definition step (s : st) (i : nat) : st :=
  if negb (i <? W) || nth i (exited s) true then s else
  match nth i (held s) None with
  | Some n => mk (next s) (upd (held s) i None) (exited s) (upd (slots s) n (nth_error rows n))
  | None => if next s <? R
            then mk (S (next s)) (upd (held s) i (Some (next s))) (exited s) (slots s)
            else mk (next s) (held s) (upd (exited s) i true) (slots s)
  end.

Definition exec (sched : list nat) : st := fold_left step sched init.
Definition complete (s : st) : Prop := forall i, i < W -> nth i (exited s) false = true.

Definition Inv (s : st) : Prop :=
  length (held s) = W /\ length (exited s) = W /\ length (slots s) = R /\ next s <= R /\
  (forall n, next s <= n -> n < R -> nth n (slots s) None = None) /\
  (forall n, n < next s ->
      nth n (slots s) None = nth_error rows n \/
      exists i, i < W /\ nth i (held s) None = Some n /\ nth i (exited s) true = false) /\
  (forall i n, nth i (held s) None = Some n -> n < next s) /\
  (forall i, i < W -> nth i (exited s) false = true -> next s = R /\ nth i (held s) None = None).

Lemma nth_repeat {X} (x : X) n i d : i < n -> nth i (repeat x n) d = x.
Proof. revert i; induction n as [|n IH]; intros [|i] H; cbn; try lia; auto. apply IH; lia. Qed.

Lemma inv_init : Inv init.
Proof.
  unfold Inv, init; cbn. rewrite !repeat_length. repeat split; try lia.
  - intros n _ Hn. now apply nth_repeat.
  - intros i n H. destruct (Nat.lt_ge_cases i W) as [Hi|Hi].
    + rewrite nth_repeat in H by exact Hi. discriminate.
    + rewrite nth_overflow in H by (rewrite repeat_length; lia). discriminate.
  - rewrite nth_repeat in H0 by exact H. discriminate.
  - rewrite nth_repeat in H0 by exact H. discriminate.
Qed.

Lemma nth_bool_flip l i : i < length l -> nth i l true = nth i l false.
Proof. intros H. apply nth_indep. exact H. Qed.

Lemma inv_step s i : Inv s -> Inv (step s i).
Proof.
  intros HI. pose proof HI as (Hh & He & Hs & Hn & Hfree & Hdone & Hheld & Hex). unfold step.
  destruct (i <? W) eqn:Hi; cbn [negb orb]; [|exact HI].
  apply Nat.ltb_lt in Hi.
  destruct (nth i (exited s) true) eqn:Hexi; [exact HI|].
  destruct (nth i (held s) None) as [n|] eqn:Hhi.
  - (* WRITE slot n *)
    pose proof (Hheld _ _ Hhi) as Hnlt.
    unfold Inv; cbn [next held exited slots]. rewrite !upd_length.
    repeat split; auto.
    + intros n' H1 H2. rewrite nth_upd_neq by lia. auto.
    + intros n' Hn'. destruct (Nat.eq_dec n n') as [<-|Hne].
      * left. apply nth_upd_eq. lia.
      * rewrite nth_upd_neq by exact Hne. destruct (Hdone n' Hn') as [Hl|[j (Hj & Hhj & Hej)]]; [now left|].
        right. exists j. split; [exact Hj|]. split; [|exact Hej].
        destruct (Nat.eq_dec i j) as [<-|Hij]; [congruence|]. rewrite nth_upd_neq by exact Hij. exact Hhj.
    + intros j n' H. destruct (Nat.eq_dec i j) as [<-|Hij].
      * rewrite nth_upd_eq in H by lia. discriminate.
      * rewrite nth_upd_neq in H by exact Hij. eauto.
    + destruct (Hex _ H H0); assumption.
    + destruct (Nat.eq_dec i i0) as [<-|Hij].
      * apply nth_upd_eq. lia.
      * rewrite nth_upd_neq by exact Hij. destruct (Hex _ H H0); assumption.
  - destruct (next s <? R) eqn:Hnr.
    + (* TAKE record next *)
      apply Nat.ltb_lt in Hnr.
      unfold Inv; cbn [next held exited slots]. rewrite !upd_length.
      repeat split; auto; try lia.
      * intros n' H1 H2. apply Hfree; lia.
      * intros n' Hn'. destruct (Nat.eq_dec n' (next s)) as [->|Hne].
        -- right. exists i. split; [exact Hi|]. split; [apply nth_upd_eq; lia|exact Hexi].
        -- destruct (Hdone n' ltac:(lia)) as [Hl|[j (Hj & Hhj & Hej)]]; [now left|].
           right. exists j. split; [exact Hj|]. split; [|exact Hej].
           destruct (Nat.eq_dec i j) as [<-|Hij]; [congruence|]. rewrite nth_upd_neq by exact Hij. exact Hhj.
      * intros j n' H. destruct (Nat.eq_dec i j) as [<-|Hij].
        -- rewrite nth_upd_eq in H by lia. inversion H. lia.
        -- rewrite nth_upd_neq in H by exact Hij. specialize (Hheld _ _ H). lia.
      * exfalso. destruct (Hex i0 H H0) as [E _]. lia.
      * exfalso. destruct (Hex i0 H H0) as [E _]. lia.
    + (* EXIT *)
      apply Nat.ltb_ge in Hnr.
      unfold Inv; cbn [next held exited slots]. rewrite !upd_length.
      repeat split; auto; try lia.
      * intros n' Hn'. destruct (Hdone n' Hn') as [Hl|[j (Hj & Hhj & Hej)]]; [now left|].
        right. exists j. split; [exact Hj|]. split; [exact Hhj|].
        destruct (Nat.eq_dec i j) as [<-|Hij]; [congruence|]. rewrite nth_upd_neq by exact Hij. exact Hej.
      * destruct (Nat.eq_dec i i0) as [<-|Hij]; [exact Hhi|].
        rewrite nth_upd_neq in H0 by exact Hij. destruct (Hex _ H H0); assumption.
Qed.

Lemma inv_exec sched : Inv (exec sched).
Proof.
  unfold exec. generalize inv_init. generalize init.
  induction sched as [|i t IH]; intros s Hs; cbn [fold_left]; [exact Hs|].
  apply IH. apply inv_step. exact Hs.
Qed.

Theorem mmap_complete sched :
  complete (exec sched) ->
  length (slots (exec sched)) = R /\
  forall n, n < R -> nth n (slots (exec sched)) None = nth_error rows n.
Proof.
  intros Hc. destruct (inv_exec sched) as (Hh & He & Hs & Hn & Hfree & Hdone & Hheld & Hex).
  set (s := exec sched) in *.
  assert (HnR : next s = R) by (destruct (Hex 0 ltac:(lia) (Hc 0 ltac:(lia))) as [E _]; exact E).
  split; [exact Hs|]. intros n Hn'.
  destruct (Hdone n ltac:(lia)) as [Hl|[j (Hj & Hhj & Hej)]]; [exact Hl|].
  exfalso. destruct (Hex j Hj (Hc j Hj)) as [_ E]. congruence.
Qed.

(* safety at every moment, complete or not: a slot is either untouched or holds its own row *)
Theorem mmap_safe sched n : n < R ->
  nth n (slots (exec sched)) None = None \/ nth n (slots (exec sched)) None = nth_error rows n.
Proof.
Abort.
End Mmap.
Check mmap_complete.
Print Assumptions mmap_complete.
