(* C11 prototype: exact chaos-game model over Q *)
From Coq Require Import QArith List Lia Lqa NArith.
Import ListNotations.
Open Scope Q_scope.

Section Cgr.
Variable corner01 : N -> option (Q * Q).   (* corner of a byte in the unit square; None = not a nucleotide *)
Hypothesis corner_unit : forall b c, corner01 b = Some c ->
  (fst c == 0 \/ fst c == 1) /\ (snd c == 0 \/ snd c == 1).
Variable S : Q.
Hypothesis HS : 0 <= S.

Definition pt := (Q * Q)%type.
Definition mid (c p : pt) : pt := ((S * fst c + fst p) * (1#2), (S * snd c + snd p) * (1#2)).

Fixpoint cgr_go (p : pt) (s : list N) : option (list pt) :=
  match s with
  | [] => Some []
  | b :: t => match corner01 b with
              | None => None
              | Some c => let p' := mid c p in
                          match cgr_go p' t with Some l => Some (p' :: l) | None => None end
              end
  end.
Definition centre : pt := (S * (1#2), S * (1#2)).
Definition cgr (s : list N) : option (list pt) := cgr_go centre s.

Definition inside (p : pt) : Prop := 0 <= fst p <= S /\ 0 <= snd p <= S.

Lemma mid_inside c p b : corner01 b = Some c -> inside p -> inside (mid c p).
Proof.
  intros Hc [[Hx1 Hx2] [Hy1 Hy2]]. destruct (corner_unit b c Hc) as [[Hcx|Hcx] [Hcy|Hcy]];
    unfold inside, mid; cbn [fst snd]; rewrite Hcx, Hcy; repeat split; lra.
Qed.

Lemma cgr_go_length s : forall p l, cgr_go p s = Some l -> length l = length s.
Proof.
  induction s as [|b t IH]; intros p l H; cbn in H.
  - inversion H. reflexivity.
  - destruct (corner01 b) as [c|]; [|discriminate].
    destruct (cgr_go (mid c p) t) as [l'|] eqn:E; [|discriminate]. inversion H. cbn. f_equal. eapply IH. exact E.
Qed.

Lemma cgr_go_inside s : forall p l, inside p -> cgr_go p s = Some l -> Forall inside l.
Proof.
  induction s as [|b t IH]; intros p l Hp H; cbn in H.
  - inversion H. constructor.
  - destruct (corner01 b) as [c|] eqn:Hc; [|discriminate].
    destruct (cgr_go (mid c p) t) as [l'|] eqn:E; [|discriminate]. inversion H. subst l.
    pose proof (mid_inside c p b Hc Hp) as Hm. constructor; [exact Hm|]. eapply IH; eassumption.
Qed.

Lemma centre_inside : inside centre.
Proof. unfold inside, centre; cbn [fst snd]. repeat split; lra. Qed.

Theorem cgr_in_square s l : cgr s = Some l -> Forall inside l.
Proof. apply cgr_go_inside. apply centre_inside. Qed.

(* rejection: an error iff some byte is not a nucleotide; and an error yields no coordinates at all *)
Theorem cgr_reject s : cgr s = None <-> exists b, In b s /\ corner01 b = None.
Proof.
  unfold cgr. generalize centre. induction s as [|b t IH]; intros p; cbn.
  - split; [discriminate|intros [b [[] _]]].
  - destruct (corner01 b) as [c|] eqn:Hc.
    + destruct (cgr_go (mid c p) t) as [l|] eqn:E.
      * split; [discriminate|]. intros [x [[<-|Hx] Hn]]; [congruence|].
        assert (cgr_go (mid c p) t = None) by (apply IH; eauto). congruence.
      * split; [|reflexivity]. intros _. apply IH in E as [x [Hx Hn]]. exists x. split; [now right|exact Hn].
    + split; [|reflexivity]. intros _. exists b. split; [now left|exact Hc].
Qed.

(* prefix determinism *)
Theorem cgr_prefix a b l : cgr (a ++ b) = Some l -> cgr a = Some (firstn (length a) l).
Proof.
  unfold cgr. generalize centre. revert l. induction a as [|x a IH]; intros l p H; cbn in *; [reflexivity|].
  destruct (corner01 x) as [c|]; [|discriminate].
  destruct (cgr_go (mid c p) (a ++ b)) as [l'|] eqn:E; [|discriminate]. inversion H. subst l.
  rewrite (IH l' _ E). reflexivity.
Qed.

(* the last j bases confine the point: starting anywhere inside, after bases t the point lies in the
   sub-square reached from the unit corners of t *)
Fixpoint addr (t : list pt) : pt * Q :=       (* (offset in units of S, scale 1/2^j), last base first *)
  match t with
  | [] => ((0, 0), 1)
  | c :: t' => let '((ox, oy), sc) := addr t' in ((ox + fst c * sc / 2, oy + snd c * sc / 2), sc / 2)
  end.
End Cgr.
Check cgr_in_square. Check cgr_reject. Check cgr_prefix.
Print Assumptions cgr_reject.
