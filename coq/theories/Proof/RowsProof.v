(* C04 (and the pieces C02/C12/C14 reuse): the oligo vector of a record is the histogram of its canonical
   k-mers over the canonical columns; invariances; second component of every pair is the reverse complement *)
From Coq Require Import ZArith NArith List Lia Bool Arith Sorting.Permutation Sorting.Sorted.
From Coq Require Import ZifyN ZifyNat ZifyBool.
From KT Require Import Base.Bits Gen.Alphabet Model.Kmer Model.Show Model.Ops Model.Rows.
From KT Require Import Proof.KmerProof Proof.Regs Proof.RevComp Proof.Strand Proof.PosMap Proof.Oligo Proof.Sched.
Import ListNotations.
Open Scope N_scope.

(* ---------- every emitted pair is (code of a clean k-window, its reverse complement) ---------- *)
Section Pairs.
Variable nt4 : N -> N.

Lemma window_length (s : list N) p k : (p + k <= length s)%nat -> length (window s p k) = k.
Proof. intros H. unfold window. rewrite firstn_length, skipn_length. lia. Qed.

Lemma spec_kmers_in k s f r : In (f, r) (spec_kmers nt4 k s) ->
  exists w, length w = k /\ forallb (clean nt4) w = true /\ f = fwd_code nt4 w /\ r = rev_code nt4 w.
Proof.
  rewrite spec_kmers_windows. rewrite in_flat_map. intros [p [Hp Hin]]. apply in_seq in Hp.
  unfold emit in Hin. destruct (forallb (clean nt4) (window s p k)) eqn:E; [|destruct Hin].
  destruct Hin as [Heq|[]]. inversion Heq; subst.
  exists (window s p k). split; [apply window_length; lia|]. split; [exact E|]. split; reflexivity.
Qed.

Lemma clean_dig w : forallb (clean nt4) w = true -> dig (map nt4 w).
Proof.
  intros H. unfold dig. rewrite Forall_map. rewrite forallb_forall in H. apply Forall_forall.
  intros b Hb. specialize (H b Hb). unfold clean in H. lia.
Qed.

Lemma rev_code_rc w : rev_code nt4 w = code (rc (map nt4 w)).
Proof. unfold rev_code, rc, compl. rewrite <- map_rev, map_map. reflexivity. Qed.

Theorem pair_is_rc k s f r : (k <= 32)%nat -> In (f, r) (spec_kmers nt4 k s) ->
  f < 4 ^ N.of_nat k /\ r = rev_comp k f /\ r < 4 ^ N.of_nat k.
Proof.
  intros Hk Hin. destruct (spec_kmers_in k s f r Hin) as [w [Hl [Hc [-> ->]]]].
  pose proof (clean_dig w Hc) as Hd.
  assert (Hf : fwd_code nt4 w < 4 ^ N.of_nat k).
  { unfold fwd_code. rewrite <- Hl, <- (map_length nt4 w). apply code_lt. exact Hd. }
  split; [exact Hf|]. rewrite rev_code_rc. unfold fwd_code.
  assert (Hr : code (rc (map nt4 w)) = rev_comp k (code (map nt4 w))).
  { symmetry. apply rev_comp_code; [exact Hk|exact Hd|now rewrite map_length]. }
  split; [exact Hr|]. rewrite Hr. apply rev_comp_lt; [exact Hk|exact Hf].
Qed.
End Pairs.

(* ---------- the histogram over the canonical columns ---------- *)
Lemma index_of_lt x l : In x l -> (index_of x l < length l)%nat.
Proof.
  induction l as [|y t IH]; intros H; [destruct H|]. cbn [index_of length].
  destruct (N.eqb_spec x y); [lia|]. destruct H as [H|H]; [congruence|]. specialize (IH H). lia.
Qed.

Lemma index_of_nth x l : In x l -> nth (index_of x l) l 0 = x.
Proof.
  induction l as [|y t IH]; intros H; [destruct H|]. cbn [index_of].
  destruct (N.eqb_spec x y); [now subst|]. destruct H as [H|H]; [congruence|]. cbn [nth]. now apply IH.
Qed.

Lemma index_of_nodup j l : NoDup l -> (j < length l)%nat -> index_of (nth j l 0) l = j.
Proof.
  revert j. induction l as [|y t IH]; intros j Hnd Hj; [cbn in Hj; lia|].
  inversion Hnd as [|? ? Hni Hnd']; subst. destruct j as [|j]; cbn [nth index_of].
  - now rewrite N.eqb_refl.
  - cbn [length] in Hj. destruct (N.eqb_spec (nth j t 0) y) as [E|E].
    + exfalso. apply Hni. rewrite <- E. apply nth_In. lia.
    + f_equal. apply IH; [exact Hnd'|lia].
Qed.

Lemma count_occ_filter (ws : list N) c :
  count_occ N.eq_dec ws c = length (filter (fun y => y =? c) ws).
Proof.
  induction ws as [|y t IH]; [reflexivity|]. cbn [count_occ filter].
  destruct (N.eq_dec y c) as [E|E]; destruct (N.eqb_spec y c); try congruence; cbn [length]; now rewrite IH.
Qed.

Lemma nth_map_default {A B} (f : A -> B) l d d' j : (j < length l)%nat -> nth j (map f l) d' = f (nth j l d).
Proof. intros H. rewrite (nth_indep _ d' (f d)) by (now rewrite map_length). apply map_nth. Qed.

Lemma in_nrange' x n : In x (nrange n) <-> (N.to_nat x < n)%nat.
Proof.
  unfold nrange. rewrite in_map_iff. split.
  - intros [i [<- Hi]]. apply in_seq in Hi. lia.
  - intros H. exists (N.to_nat x). split; [lia|]. apply in_seq. lia.
Qed.

Section Columns.
Variable k : nat.
Hypothesis Hk : (1 <= k <= 31)%nat.

Lemma canon_list_eq : canon_list k = min_mer_vec k.
Proof. unfold canon_list. rewrite nrange_fast_eq. symmetry. apply min_mer_vec_eq. exact Hk. Qed.

Lemma canon_list_nodup : NoDup (canon_list k).
Proof.
  unfold canon_list. rewrite nrange_fast_eq. apply NoDup_filter. unfold nrange. apply FinFun.Injective_map_NoDup; [|apply seq_NoDup].
  intros a b H. lia.
Qed.

Lemma in_canon_list x : In x (canon_list k) <-> x < 4 ^ N.of_nat k /\ canonb k x = true.
Proof.
  unfold canon_list. rewrite nrange_fast_eq, filter_In, in_nrange'. split; intros [H1 H2]; (split; [lia|exact H2]).
Qed.

(* the canonical form of an emitted pair is one of the columns *)
Lemma canon_of_in nt4 s p : In p (spec_kmers nt4 k s) -> In (canon_of p) (canon_list k).
Proof.
  destruct p as [f r]. intros Hin.
  destruct (pair_is_rc nt4 k s f r ltac:(lia) Hin) as [Hf [Hr Hrl]].
  apply in_canon_list. unfold canon_of, canonb. cbn [fst snd]. subst r.
  destruct (N.le_ge_cases f (rev_comp k f)) as [H|H].
  - rewrite N.min_l by exact H. split; [exact Hf|]. apply N.leb_le. exact H.
  - rewrite N.min_r by exact H. split; [exact Hrl|]. apply N.leb_le.
    rewrite rev_comp_involutive by (try lia; exact Hf). exact H.
Qed.

(* histogram through column indices = occurrence counts of the column's k-mer *)
Theorem hist_columns (ys : list N) : (forall y, In y ys -> In y (canon_list k)) ->
  hist N (fun x => index_of x (canon_list k)) (length (canon_list k)) ys
  = map (fun c => count_occ N.eq_dec ys c) (canon_list k).
Proof.
  intros Hin. set (vec := canon_list k). set (idx := fun x => index_of x vec).
  assert (Hb : forall y, In y ys -> (idx y < length vec)%nat) by (intros y Hy; apply index_of_lt, Hin, Hy).
  apply (nth_ext _ _ 0%nat 0%nat).
  - rewrite hist_length, map_length. reflexivity.
  - intros j Hj. rewrite hist_length in Hj.
    rewrite (hist_nth N idx (length vec) ys j Hb).
    rewrite (nth_map_default (fun c => count_occ N.eq_dec ys c) vec 0 0%nat j Hj), count_occ_filter.
    unfold cnt. f_equal. apply filter_ext_in. intros y Hy.
    destruct (Nat.eqb_spec (idx y) j) as [E|E]; destruct (N.eqb_spec y (nth j vec 0)) as [E'|E']; try reflexivity.
    + exfalso. apply E'. rewrite <- E. unfold idx. symmetry. apply index_of_nth. apply Hin, Hy.
    + exfalso. apply E. subst y. unfold idx. apply index_of_nodup; [apply canon_list_nodup|exact Hj].
Qed.

(* C04, main statement: under the table fact (bytes of the record decode as the property's letters) the model's
   vector is the specification's vector *)
Theorem oligo_counts_spec_eq (s : list N) :
  Forall (fun b => nt4k b = digit_of_letter b) s ->
  oligo_counts k s = oligo_counts_spec k s /\ oligo_total k s = oligo_total_spec k s.
Proof.
  intros Hs.
  assert (Hrun : kg_run nt4k k s = spec_kmers digit_of_letter k s).
  { rewrite (kg_run_spec nt4k k Hk s).
    apply (spec_kmers_ext nt4k digit_of_letter (fun b => nt4k b = digit_of_letter b) k s Hs). auto. }
  unfold oligo_counts, oligo_counts_spec, oligo_total, oligo_total_spec. rewrite Hrun, <- canon_list_eq.
  split; [|reflexivity]. apply hist_columns. intros y Hy. apply in_map_iff in Hy as [p [<- Hp]].
  apply (canon_of_in digit_of_letter s p Hp).
Qed.

Theorem oligo_counts_length (s : list N) : length (oligo_counts k s) = length (canon_list k).
Proof. unfold oligo_counts. rewrite hist_length, canon_list_eq. reflexivity. Qed.

(* every entry counts windows, and together they account for every valid window exactly once *)
Theorem oligo_spec_sum (s : list N) :
  lsum (oligo_counts_spec k s) = oligo_total_spec k s.
Proof.
  unfold oligo_counts_spec, oligo_total_spec.
  set (ws := map canon_of (spec_kmers digit_of_letter k s)).
  assert (Hin : forall y, In y ws -> In y (canon_list k)).
  { intros y Hy. apply in_map_iff in Hy as [p [<- Hp]]. apply (canon_of_in digit_of_letter s p Hp). }
  rewrite <- (hist_columns ws Hin).
  set (idx := fun x => index_of x (canon_list k)).
  assert (Hb : forall y, In y ws -> (idx y < length (canon_list k))%nat) by (intros y Hy; apply index_of_lt, Hin, Hy).
  rewrite <- (map_length canon_of (spec_kmers digit_of_letter k s)). fold ws.
  rewrite <- (cnt_total N idx (length (canon_list k)) ws Hb). f_equal.
  apply (nth_ext _ _ 0%nat 0%nat).
  - rewrite hist_length, map_length, seq_length. reflexivity.
  - intros j Hj. rewrite hist_length in Hj. rewrite (hist_nth N idx _ ws j Hb).
    rewrite (nth_map_default (fun j => cnt N idx j ws) (seq 0 (length (canon_list k))) 0%nat 0%nat j) by (now rewrite seq_length).
    rewrite seq_nth by exact Hj. reflexivity.
Qed.
End Columns.

(* ---------- invariances of the specification vector ---------- *)
Lemma digit_of_letter_big b : 256 <= b -> digit_of_letter b = 4.
Proof.
  intros H. destruct b as [|p]; [lia|].
  do 8 (destruct p as [p|p|]; try reflexivity; try lia).
Qed.

Lemma bytes_all (P : N -> bool) : forallb P (brange 0 256) = true -> forall b, b < 256 -> P b = true.
Proof.
  intros H b Hb. rewrite forallb_forall in H. apply H. unfold brange. apply in_map_iff.
  exists (N.to_nat b). split; [lia|]. apply in_seq. lia.
Qed.

(* complement of a letter; every other byte is left alone (and stays ambiguous) *)
Definition comp_byte (b : N) : N :=
  match b with
  | 65 => 84 | 67 => 71 | 71 => 67 | 84 => 65 | 85 => 65
  | 97 => 116 | 99 => 103 | 103 => 99 | 116 => 97 | 117 => 97
  | _ => b end.
Definition lower_byte (b : N) : N := if (65 <=? b) && (b <=? 90) then b + 32 else b.
Definition tu_byte (b : N) : N := if b =? 84 then 85 else if b =? 116 then 117 else b.

Lemma comp_byte_big b : 256 <= b -> comp_byte b = b.
Proof.
  intros H. destruct b as [|p]; [lia|].
  do 8 (destruct p as [p|p|]; try reflexivity; try lia).
Qed.

Lemma comp_clean b : clean digit_of_letter (comp_byte b) = clean digit_of_letter b.
Proof.
  destruct (N.lt_ge_cases b 256) as [H|H].
  - apply Bool.eqb_prop. revert b H.
    apply (bytes_all (fun b => Bool.eqb (clean digit_of_letter (comp_byte b)) (clean digit_of_letter b))).
    vm_compute. reflexivity.
  - now rewrite comp_byte_big.
Qed.

Lemma comp_digit b : clean digit_of_letter b = true -> digit_of_letter (comp_byte b) = 3 - digit_of_letter b.
Proof.
  destruct (N.lt_ge_cases b 256) as [H|H].
  - intros Hc. apply N.eqb_eq. revert b H Hc.
    assert (A : forall b, b < 256 -> (negb (clean digit_of_letter b) || (digit_of_letter (comp_byte b) =? 3 - digit_of_letter b)) = true).
    { apply bytes_all. vm_compute. reflexivity. }
    intros b H Hc. specialize (A b H). rewrite Hc in A. exact A.
  - unfold clean. rewrite (digit_of_letter_big b H). cbn. discriminate.
Qed.

Lemma lower_digit b : digit_of_letter (lower_byte b) = digit_of_letter b.
Proof.
  destruct (N.lt_ge_cases b 256) as [H|H].
  - apply N.eqb_eq. revert b H. apply (bytes_all (fun b => digit_of_letter (lower_byte b) =? digit_of_letter b)).
    vm_compute. reflexivity.
  - unfold lower_byte. destruct ((65 <=? b) && (b <=? 90)) eqn:E; [lia|reflexivity].
Qed.

Lemma tu_digit b : digit_of_letter (tu_byte b) = digit_of_letter b.
Proof.
  unfold tu_byte. destruct (N.eqb_spec b 84) as [->|]; [reflexivity|].
  destruct (N.eqb_spec b 116) as [->|]; reflexivity.
Qed.

(* the specification only sees the digits of the bytes *)
Section DigitsOnly.
Variables f g : N -> N.
Lemma forallb_map' {A B} (h : A -> B) (q : B -> bool) l : forallb q (map h l) = forallb (fun a => q (h a)) l.
Proof. induction l as [|a l IH]; cbn; [reflexivity|now rewrite IH]. Qed.

Lemma emit_digits w w2 : map f w = map g w2 -> emit f w = emit g w2.
Proof.
  intros H. unfold emit, fwd_code, rev_code, clean.
  assert (H1 : forallb (fun b => f b <? 4) w = forallb (fun b => g b <? 4) w2).
  { rewrite <- (forallb_map' f (fun d => d <? 4) w), <- (forallb_map' g (fun d => d <? 4) w2), H. reflexivity. }
  rewrite H1, H. destruct (forallb _ w2); [|reflexivity]. do 3 f_equal.
  rewrite <- (map_map f (fun d => 3 - d)), <- (map_map g (fun d => 3 - d)), !map_rev, H. reflexivity.
Qed.

Lemma spec_kmers_digits k s s2 : map f s = map g s2 -> spec_kmers f k s = spec_kmers g k s2.
Proof.
  intros H. rewrite !spec_kmers_windows.
  assert (Hl : length s = length s2) by (rewrite <- (map_length f s), H, map_length; reflexivity).
  rewrite Hl. apply flat_map_ext. intros p. apply emit_digits. unfold window.
  rewrite <- !firstn_map, <- !skipn_map, H. reflexivity.
Qed.
End DigitsOnly.

Section Invariance.
Variable k : nat.
Hypothesis Hk : (1 <= k <= 31)%nat.

Definition rc_seq (s : list N) : list N := rc_bytes comp_byte s.

Theorem oligo_spec_rc s : oligo_counts_spec k (rc_seq s) = oligo_counts_spec k s
                          /\ oligo_total_spec k (rc_seq s) = oligo_total_spec k s.
Proof.
  pose proof (canon_multiset_rc digit_of_letter comp_byte comp_clean comp_digit k s) as HP.
  split.
  - unfold oligo_counts_spec. apply map_ext. intros c. apply Permutation_count_occ. exact HP.
  - unfold oligo_total_spec.
    rewrite <- (map_length Strand.cmin (spec_kmers digit_of_letter k (rc_seq s))),
            <- (map_length Strand.cmin (spec_kmers digit_of_letter k s)).
    apply Permutation_length. exact HP.
Qed.

Theorem oligo_spec_respelling (h : N -> N) s : (forall b, digit_of_letter (h b) = digit_of_letter b) ->
  oligo_counts_spec k (map h s) = oligo_counts_spec k s /\ oligo_total_spec k (map h s) = oligo_total_spec k s.
Proof.
  intros Hh.
  assert (E : spec_kmers digit_of_letter k (map h s) = spec_kmers digit_of_letter k s).
  { apply spec_kmers_digits. rewrite map_map. apply map_ext. exact Hh. }
  unfold oligo_counts_spec, oligo_total_spec. rewrite E. split; reflexivity.
Qed.

Theorem oligo_spec_zero s : oligo_total_spec k s = 0%nat -> Forall (fun c => c = 0%nat) (oligo_counts_spec k s).
Proof.
  unfold oligo_total_spec, oligo_counts_spec. intros H. apply length_zero_iff_nil in H. rewrite H.
  apply Forall_forall. intros c Hc. apply in_map_iff in Hc as [x [<- _]]. reflexivity.
Qed.
End Invariance.

(* ---------- coverage rows (C08) ---------- *)
Theorem hist_bins (idx : N -> nat) (n : nat) (ys : list N) : (forall y, In y ys -> (idx y < n)%nat) ->
  hist N idx n ys = map (fun b => length (filter (fun y => Nat.eqb (idx y) b) ys)) (seq 0 n).
Proof.
  intros Hb. apply (nth_ext _ _ 0%nat 0%nat).
  - rewrite hist_length, map_length, seq_length. reflexivity.
  - intros j Hj. rewrite hist_length in Hj. rewrite (hist_nth N idx n ys j Hb).
    rewrite (nth_map_default (fun b => length (filter (fun y => Nat.eqb (idx y) b) ys)) (seq 0 n) 0%nat 0%nat j)
      by (now rewrite seq_length).
    rewrite seq_nth by exact Hj. reflexivity.
Qed.

Lemma cov_bin_lt bs bc c : (1 <= bc)%nat -> (cov_bin bs bc c < bc)%nat.
Proof. intros H. unfold cov_bin. lia. Qed.

Theorem cov_counts_spec_eq k bs bc tbl s : (1 <= k <= 31)%nat -> (1 <= bc)%nat ->
  Forall (fun b => nt4k b = digit_of_letter b) s ->
  cov_counts k bs bc tbl s = cov_counts_spec k bs bc tbl s /\ oligo_total k s = oligo_total_spec k s.
Proof.
  intros Hk Hbc Hs.
  assert (Hrun : kg_run nt4k k s = spec_kmers digit_of_letter k s).
  { rewrite (kg_run_spec nt4k k Hk s).
    apply (spec_kmers_ext nt4k digit_of_letter (fun b => nt4k b = digit_of_letter b) k s Hs). auto. }
  unfold cov_counts, cov_counts_spec, oligo_total, oligo_total_spec. rewrite Hrun. split; [|reflexivity].
  apply hist_bins. intros y _. apply cov_bin_lt. exact Hbc.
Qed.

Theorem cov_counts_length k bs bc tbl s : length (cov_counts k bs bc tbl s) = bc.
Proof. unfold cov_counts. apply hist_length. Qed.

(* entry b counts the valid windows whose canonical k-mer has multiplicity c with min (c / s) (n - 1) = b;
   every valid window is counted in exactly one bin *)
Theorem cov_spec_sum k bs bc tbl s : (1 <= bc)%nat ->
  lsum (cov_counts_spec k bs bc tbl s) = oligo_total_spec k s.
Proof.
  intros Hbc. unfold cov_counts_spec, oligo_total_spec.
  set (ws := map canon_of (spec_kmers digit_of_letter k s)).
  set (idx := fun x : N => cov_bin bs bc (lookup x tbl)).
  rewrite <- (map_length canon_of (spec_kmers digit_of_letter k s)). fold ws.
  rewrite <- (cnt_total N idx bc ws) by (intros y _; apply cov_bin_lt; exact Hbc).
  reflexivity.
Qed.
