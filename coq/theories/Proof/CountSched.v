(* C07 prototype: chunked, multi-worker counting is exact for every schedule *)
From Coq Require Import NArith List Lia Bool Arith.
From Coq Require Import ZifyN ZifyNat ZifyBool.
From KT Require Import Proof.Sched.
Import ListNotations.

Section Count.
Variable recs : list (list N * N).      (* canonical k-mers of each record, and its length in bases *)
Variable W : nat.
Hypothesis HW : 1 <= W.
Variable limit : N.

Inductive pc := Idle | Checked | Holding (len : N) (todo : list N) | Exited.

Record st := mk {
  next : nat; pcs : list pc; bag : list N; total : N; taken : nat;
  done : list (list N); fin : bool }.

Definition init : st := mk 0 (repeat Idle W) [] 0%N 0 [] false.

Definition all_exited (l : list pc) : bool :=
  forallb (fun p => match p with Exited => true | _ => false end) l.

(* the main thread between two chunk passes *)
Definition boundary (s : st) : st :=
  if all_exited (pcs s) then
    if Nat.eqb (taken s) 0 then mk (next s) (pcs s) (bag s) (total s) (taken s) (done s) true
    else mk (next s) (repeat Idle W) [] 0%N 0 (bag s :: done s) false
  else s.

Definition set (s : st) (i : nat) (p : pc) : st :=
  mk (next s) (upd (pcs s) i p) (bag s) (total s) (taken s) (done s) (fin s).

Definition wstep (s : st) (i : nat) : st :=
  match nth i (pcs s) Exited with
  | Idle => if (limit <? total s)%N then set s i Exited else set s i Checked
  | Checked =>
      match nth_error recs (next s) with
      | Some (ks, len) => mk (S (next s)) (upd (pcs s) i (Holding len ks)) (bag s) (total s)
                             (S (taken s)) (done s) (fin s)
      | None => set s i Exited
      end
  | Holding len (x :: t) => mk (next s) (upd (pcs s) i (Holding len t)) (x :: bag s) (total s)
                               (taken s) (done s) (fin s)
  | Holding len [] => mk (next s) (upd (pcs s) i Idle) (bag s) (total s + len)%N
                         (taken s) (done s) (fin s)
  | Exited => s
  end.

Definition step (s : st) (i : nat) : st :=
  if fin s || negb (i <? W) then s else boundary (wstep s i).

Definition exec (sched : list nat) : st := fold_left step sched init.

(* ---- counting ---- *)
Definition occ (x : N) (l : list N) : nat := count_occ N.eq_dec l x.
Definition todo (p : pc) : list N := match p with Holding _ t => t | _ => [] end.
Fixpoint lsum (l : list nat) : nat := match l with [] => 0 | a :: t => a + lsum t end.
Definition pend (x : N) (l : list pc) : nat := lsum (map (fun p => occ x (todo p)) l).
Definition unread (x : N) (n : nat) : nat := occ x (concat (map fst (skipn n recs))).
Definition all (x : N) : nat := occ x (concat (map fst recs)).
Definition cdone (x : N) (d : list (list N)) : nat := occ x (concat d).

Lemma occ_app x a b : occ x (a ++ b) = occ x a + occ x b.
Proof. apply count_occ_app. Qed.

Lemma pend_upd x l i p : i < length l ->
  pend x (upd l i p) + occ x (todo (nth i l Exited)) = pend x l + occ x (todo p).
Proof.
  revert i. induction l as [|q l IH]; intros [|i] Hi; cbn in Hi; try lia.
  - unfold pend. cbn [upd nth map lsum]. lia.
  - cbn [upd nth]. unfold pend in *. cbn [map lsum]. specialize (IH i ltac:(lia)). lia.
Qed.

Lemma pend_repeat_idle x n : pend x (repeat Idle n) = 0.
Proof. induction n as [|n IH]; [reflexivity|]. unfold pend in *. cbn [repeat map lsum todo]. rewrite IH. reflexivity. Qed.

Lemma pend_all_exited x l : all_exited l = true -> pend x l = 0.
Proof.
  induction l as [|p l IH]; intros H; [reflexivity|]. cbn in H. apply andb_prop in H as [Hp Hl].
  unfold pend in *. cbn [map lsum]. rewrite (IH Hl). destruct p; try discriminate. reflexivity.
Qed.

Lemma unread_take x n ks len : nth_error recs n = Some (ks, len) ->
  unread x n = occ x ks + unread x (S n).
Proof.
  intros H. unfold unread.
  assert (Hs : skipn n recs = (ks, len) :: skipn (S n) recs).
  { revert n H. induction recs as [|r l IH]; intros [|n] H; cbn in H; try discriminate.
    - inversion H. reflexivity.
    - cbn [skipn]. apply IH. exact H. }
  rewrite Hs. cbn [map concat fst]. apply occ_app.
Qed.

Lemma unread_end x n : nth_error recs n = None -> unread x n = 0.
Proof.
  intros H. unfold unread. apply nth_error_None in H. rewrite skipn_all2 by exact H. reflexivity.
Qed.

Definition holding (p : pc) : bool := match p with Holding _ _ => true | _ => false end.

Definition Inv (s : st) : Prop :=
  length (pcs s) = W /\
  (forall x, cdone x (done s) + occ x (bag s) + pend x (pcs s) + unread x (next s) = all x) /\
  (taken s = 0 -> bag s = [] /\ total s = 0%N /\ forall i, holding (nth i (pcs s) Exited) = false) /\
  (forall i, i < W -> nth i (pcs s) Idle = Exited -> taken s > 0 \/ length recs <= next s) /\
  (fin s = true -> bag s = [] /\ length recs <= next s /\ all_exited (pcs s) = true).

Lemma nth_repeat' {X} (x : X) n i d : i < n -> nth i (repeat x n) d = x.
Proof. revert i; induction n as [|n IH]; intros [|i] H; cbn; try lia; auto. apply IH; lia. Qed.

Lemma inv_init : Inv init.
Proof.
  unfold Inv, init; cbn [next pcs bag total taken done fin]. rewrite repeat_length.
  split; [reflexivity|]. split; [|split; [|split]].
  - intros x. rewrite pend_repeat_idle. unfold cdone, unread, all. cbn [concat skipn]. unfold occ. cbn [count_occ]. lia.
  - intros _. split; [reflexivity|]. split; [reflexivity|]. intros i.
    destruct (Nat.lt_ge_cases i W); [rewrite nth_repeat' by assumption|rewrite nth_overflow by (rewrite repeat_length; lia)]; reflexivity.
  - intros i Hi H. rewrite nth_repeat' in H by exact Hi. discriminate.
  - discriminate.
Qed.

Lemma all_exited_nth l i : all_exited l = true -> i < length l -> nth i l Idle = Exited.
Proof.
  revert i. induction l as [|p l IH]; intros i H Hi; cbn in Hi; [lia|].
  cbn in H. apply andb_prop in H as [Hp Hl]. destruct i as [|i]; cbn.
  - destruct p; try discriminate; reflexivity.
  - apply IH; [exact Hl|lia].
Qed.

Lemma inv_boundary s : Inv s -> fin s = false -> Inv (boundary s).
Proof.
  intros HI Hf. pose proof HI as (Hl & Hc & Ht & He & Hfin). unfold boundary.
  destruct (all_exited (pcs s)) eqn:Hall; [|exact HI].
  destruct (Nat.eqb_spec (taken s) 0) as [Hz|Hz].
  - unfold Inv; cbn [next pcs bag total taken done fin].
    split; [exact Hl|]. split; [exact Hc|]. split; [exact Ht|]. split; [exact He|].
    intros _. destruct (Ht Hz) as (Hb & _ & _). split; [exact Hb|]. split; [|exact Hall].
    destruct (He 0 ltac:(lia) (all_exited_nth _ 0 Hall ltac:(lia))) as [H|H]; [lia|exact H].
  - unfold Inv; cbn [next pcs bag total taken done fin]. rewrite repeat_length.
    split; [reflexivity|]. split; [|split; [|split]].
    + intros x. specialize (Hc x). rewrite pend_repeat_idle. rewrite (pend_all_exited x _ Hall) in Hc.
      unfold cdone in *. cbn [concat]. rewrite occ_app. cbn [occ count_occ]. lia.
    + intros _. split; [reflexivity|]. split; [reflexivity|]. intros i.
      destruct (Nat.lt_ge_cases i W); [rewrite nth_repeat' by assumption|rewrite nth_overflow by (rewrite repeat_length; lia)]; reflexivity.
    + intros i Hi H. rewrite nth_repeat' in H by exact Hi. discriminate.
    + discriminate.
Qed.

Lemma nth_default_irrel (l : list pc) i d d' : i < length l -> nth i l d = nth i l d'.
Proof. apply nth_indep. Qed.

(* generic helper: updating worker i to p where neither old nor new state is Holding-relevant *)
Lemma holding_upd l i p j : holding p = false ->
  (forall j, holding (nth j l Exited) = false) -> holding (nth j (upd l i p) Exited) = false.
Proof.
  intros Hp Hall. destruct (Nat.eq_dec i j) as [<-|Hij].
  - destruct (Nat.lt_ge_cases i (length l)).
    + rewrite nth_upd_eq by assumption. exact Hp.
    + rewrite nth_overflow by (rewrite upd_length; lia). reflexivity.
  - rewrite nth_upd_neq by exact Hij. apply Hall.
Qed.

Lemma inv_wstep s i : Inv s -> fin s = false -> i < W -> Inv (wstep s i) /\ fin (wstep s i) = false.
Proof.
  intros HI Hf Hi. pose proof HI as (Hl & Hc & Ht & He & Hfin). unfold wstep.
  assert (Hil : i < length (pcs s)) by lia.
  destruct (nth i (pcs s) Exited) as [| |len [|x t]|] eqn:Hp.
  - (* Idle: check the limit *)
    destruct (N.ltb_spec limit (total s)) as [Hlim|Hlim]; unfold set.
    + split; [|exact Hf]. unfold Inv; cbn [next pcs bag total taken done fin]. rewrite upd_length.
      split; [exact Hl|]. split; [|split; [|split]].
      * intros x. pose proof (pend_upd x (pcs s) i Exited Hil) as Hu. rewrite Hp in Hu. cbn [todo occ count_occ] in Hu. specialize (Hc x). lia.
      * intros Hz. destruct (Ht Hz) as (Hb & Htot & Hh). lia.
      * intros j Hj Hx. destruct (Nat.eq_dec i j) as [<-|Hij].
        -- left. destruct (Nat.eq_dec (taken s) 0) as [Hz|Hz]; [|lia]. destruct (Ht Hz) as (_ & Htot & _). lia.
        -- rewrite nth_upd_neq in Hx by exact Hij. apply (He j); assumption.
      * intros Hff. congruence.
    + split; [|exact Hf]. unfold Inv; cbn [next pcs bag total taken done fin]. rewrite upd_length.
      split; [exact Hl|]. split; [|split; [|split]].
      * intros x. pose proof (pend_upd x (pcs s) i Checked Hil) as Hu. rewrite Hp in Hu. cbn [todo occ count_occ] in Hu. specialize (Hc x). lia.
      * intros Hz. destruct (Ht Hz) as (Hb & Htot & Hh). split; [exact Hb|]. split; [exact Htot|].
        intros j. apply holding_upd; [reflexivity|exact Hh].
      * intros j Hj Hx. destruct (Nat.eq_dec i j) as [<-|Hij].
        -- rewrite nth_upd_eq in Hx by exact Hil. discriminate.
        -- rewrite nth_upd_neq in Hx by exact Hij. apply (He j); assumption.
      * intros Hff. congruence.
  - (* Checked: take the next record *)
    destruct (nth_error recs (next s)) as [[ks len]|] eqn:Hn.
    + split; [|exact Hf]. unfold Inv; cbn [next pcs bag total taken done fin]. rewrite upd_length.
      split; [exact Hl|]. split; [|split; [|split]].
      * intros x. pose proof (pend_upd x (pcs s) i (Holding len ks) Hil) as Hu. rewrite Hp in Hu. cbn [todo] in Hu.
        specialize (Hc x). rewrite (unread_take x _ _ _ Hn) in Hc. cbn [occ count_occ] in Hu. lia.
      * intros Hz. lia.
      * intros j Hj Hx. left. lia.
      * intros Hff. congruence.
    + unfold set. split; [|exact Hf]. unfold Inv; cbn [next pcs bag total taken done fin]. rewrite upd_length.
      split; [exact Hl|]. split; [|split; [|split]].
      * intros x. pose proof (pend_upd x (pcs s) i Exited Hil) as Hu. rewrite Hp in Hu. cbn [todo occ count_occ] in Hu. specialize (Hc x). lia.
      * intros Hz. destruct (Ht Hz) as (Hb & Htot & Hh). split; [exact Hb|]. split; [exact Htot|].
        intros j. apply holding_upd; [reflexivity|exact Hh].
      * intros j Hj Hx. destruct (Nat.eq_dec i j) as [<-|Hij].
        -- right. apply nth_error_None. exact Hn.
        -- rewrite nth_upd_neq in Hx by exact Hij. apply (He j); assumption.
      * intros Hff. congruence.
  - (* Holding, all k-mers counted: add the length *)
    split; [|exact Hf]. unfold Inv; cbn [next pcs bag total taken done fin]. rewrite upd_length.
    split; [exact Hl|]. split; [|split; [|split]].
    + intros x. pose proof (pend_upd x (pcs s) i Idle Hil) as Hu. rewrite Hp in Hu. cbn [todo occ count_occ] in Hu. specialize (Hc x). lia.
    + intros Hz. destruct (Ht Hz) as (_ & _ & Hh). specialize (Hh i). rewrite Hp in Hh. discriminate.
    + intros j Hj Hx. destruct (Nat.eq_dec i j) as [<-|Hij].
      * rewrite nth_upd_eq in Hx by exact Hil. discriminate.
      * rewrite nth_upd_neq in Hx by exact Hij. apply (He j); assumption.
    + intros Hff. congruence.
  - (* Holding: count one k-mer *)
    split; [|exact Hf]. unfold Inv; cbn [next pcs bag total taken done fin]. rewrite upd_length.
    split; [exact Hl|]. split; [|split; [|split]].
    + intros y. pose proof (pend_upd y (pcs s) i (Holding len t) Hil) as Hu. rewrite Hp in Hu. cbn [todo] in Hu.
      specialize (Hc y). unfold occ in *. cbn [count_occ] in *. destruct (N.eq_dec x y); lia.
    + intros Hz. destruct (Ht Hz) as (_ & _ & Hh). specialize (Hh i). rewrite Hp in Hh. discriminate.
    + intros j Hj Hx. destruct (Nat.eq_dec i j) as [<-|Hij].
      * rewrite nth_upd_eq in Hx by exact Hil. discriminate.
      * rewrite nth_upd_neq in Hx by exact Hij. apply (He j); assumption.
    + intros Hff. congruence.
  - split; [exact HI|exact Hf].
Qed.

Lemma inv_step s i : Inv s -> Inv (step s i).
Proof.
  intros HI. unfold step. destruct (fin s) eqn:Hf; cbn [orb]; [exact HI|].
  destruct (i <? W) eqn:Hi; cbn [negb]; [|exact HI]. apply Nat.ltb_lt in Hi.
  destruct (inv_wstep s i HI Hf Hi) as [HI' Hf']. apply inv_boundary; assumption.
Qed.

Lemma inv_exec sched : Inv (exec sched).
Proof.
  unfold exec. generalize inv_init. generalize init.
  induction sched as [|i t IH]; intros s Hs; cbn [fold_left]; [exact Hs|].
  apply IH. apply inv_step. exact Hs.
Qed.

(* every k-mer is counted exactly as often as it occurs, whatever the interleaving,
   the memory limit and the number of chunk passes *)
Theorem count_exact sched :
  fin (exec sched) = true -> forall x, cdone x (done (exec sched)) = all x.
Proof.
  intros Hf x. destruct (inv_exec sched) as (Hl & Hc & Ht & He & Hfin).
  destruct (Hfin Hf) as (Hb & Hn & Hall). specialize (Hc x).
  rewrite Hb, (pend_all_exited x _ Hall) in Hc.
  unfold unread in Hc. rewrite skipn_all2 in Hc by exact Hn. cbn in Hc. lia.
Qed.
End Count.
Check count_exact.
Print Assumptions count_exact.
