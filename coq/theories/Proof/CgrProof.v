(* C11/C12: the chaos-game walk.  Facts that hold for both arithmetic models (length, rejection, prefix
   determinacy, midpoint rule) are proved once on the generic walk; the geometric facts (inside the square,
   sub-square of the last j bases) on the exact dyadic model. *)
From Coq Require Import ZArith NArith List Lia Bool Arith.
From Coq Require Import ZifyN ZifyNat ZifyBool.
From KT Require Import Gen.Alphabet Model.Show Model.Rows.
Import ListNotations.

Section WalkFacts.
Variables (C P : Type) (corner : N -> option C) (mid : C -> P -> P).
Notation walk := (walk C P corner mid).

Lemma walk_length s : forall p l, walk p s = Some l -> length l = length s.
Proof.
  induction s as [|b t IH]; intros p l H; cbn in H.
  - inversion H. reflexivity.
  - destruct (corner b) as [c|]; [|discriminate].
    destruct (walk (mid c p) t) as [l'|] eqn:E; [|discriminate]. inversion H; subst. cbn. f_equal. eapply IH, E.
Qed.

(* rejected exactly when some byte has no corner; and then no coordinates at all are returned *)
Lemma walk_reject s : forall p, walk p s = None <-> exists b, In b s /\ corner b = None.
Proof.
  induction s as [|b t IH]; intros p; cbn.
  - split; [discriminate|intros [x [[] _]]].
  - destruct (corner b) as [c|] eqn:Ec.
    + destruct (walk (mid c p) t) as [l'|] eqn:E.
      * split; [discriminate|]. intros [x [[->|Hx] Hn]]; [congruence|].
        assert (walk (mid c p) t = None) by (apply IH; eauto). congruence.
      * split; [|reflexivity]. intros _. apply IH in E as [x [Hx Hn]]. exists x. split; [now right|exact Hn].
    + split; [|reflexivity]. intros _. exists b. split; [now left|exact Ec].
Qed.

(* point i depends only on the first i bases *)
Lemma walk_prefix a : forall b p l, walk p (a ++ b) = Some l -> walk p a = Some (firstn (length a) l).
Proof.
  induction a as [|x a IH]; intros b p l H; cbn in *.
  - reflexivity.
  - destruct (corner x) as [c|]; [|discriminate].
    destruct (walk (mid c p) (a ++ b)) as [l'|] eqn:E; [|discriminate]. inversion H; subst.
    rewrite (IH b _ l' E). reflexivity.
Qed.

(* the midpoint rule: point i is the step from point i-1 (the start for i = 0) towards the corner of base i *)
Lemma walk_step s : forall p l i b c, walk p s = Some l -> nth_error s i = Some b -> corner b = Some c ->
  exists q, match i with O => Some p | S j => nth_error l j end = Some q /\ nth_error l i = Some (mid c q).
Proof.
  induction s as [|x t IH]; intros p l i b c H Hb Hc; [destruct i; discriminate|].
  cbn in H. destruct (corner x) as [cx|] eqn:Ex; [|discriminate].
  destruct (walk (mid cx p) t) as [l'|] eqn:E; [|discriminate]. inversion H; subst.
  destruct i as [|i]; cbn in Hb |- *.
  - inversion Hb; subst. exists p. split; [reflexivity|congruence].
  - destruct (IH _ l' i b c E Hb Hc) as [q [Hq Hn]]. exists q. split; [|exact Hn].
    destruct i; [cbn; exact Hq|exact Hq].
Qed.

Lemma walk_Forall (Q : P -> Prop) : (forall c p, Q p -> Q (mid c p)) ->
  forall s p l, Q p -> walk p s = Some l -> Forall Q l.
Proof.
  intros Hstep. induction s as [|x t IH]; intros p l Hp H; cbn in H.
  - inversion H. constructor.
  - destruct (corner x) as [c|]; [|discriminate].
    destruct (walk (mid c p) t) as [l'|] eqn:E; [|discriminate]. inversion H; subst.
    constructor; [now apply Hstep|]. eapply IH; [|exact E]. now apply Hstep.
Qed.
End WalkFacts.

(* ---------- the exact model: geometry ---------- *)
Open Scope Z_scope.
Section Exact.
Variable S : Z.
Hypothesis HS : 0 <= S.

(* coordinate num / 2^e lies in [lo, hi] / 2^j  <->  lo * 2^e <= num * 2^j <= hi * 2^e *)
Definition dy_in (S' : Z) (d : dy) : Prop := 0 <= fst d <= S' * 2 ^ Z.of_nat (snd d).
Definition dpt_in (p : dpt) : Prop := dy_in S (fst p) /\ dy_in S (snd p).

Lemma pow2_S n : 2 ^ Z.of_nat (Datatypes.S n) = 2 * 2 ^ Z.of_nat n.
Proof. rewrite Nat2Z.inj_succ, Z.pow_succ_r by lia. reflexivity. Qed.

Lemma dmid1_in isS d : dy_in S d -> dy_in S (dmid1 S isS d).
Proof.
  unfold dy_in, dmid1. destruct d as [n e]. cbn [fst snd]. intros H. rewrite pow2_S.
  assert (0 < 2 ^ Z.of_nat e) by (apply Z.pow_pos_nonneg; lia).
  destruct isS; nia.
Qed.

Lemma dmid_in c p : dpt_in p -> dpt_in (dmid S c p).
Proof. intros [H1 H2]. split; apply dmid1_in; assumption. Qed.

Lemma dcentre_in : dpt_in (dcentre S).
Proof. unfold dpt_in, dy_in, dcentre. cbn. lia. Qed.

Theorem cgr_exact_in_square corner s l : cgr_exact corner S s = Some l -> Forall dpt_in l.
Proof.
  unfold cgr_exact, cgr_exact_go. intros H.
  eapply (walk_Forall _ _ corner (dmid S) dpt_in); [intros c p; apply dmid_in|apply dcentre_in|exact H].
Qed.

(* sub-square clause, one coordinate.  j steps towards the corners cs (earliest first) map a coordinate
   n / 2^e to (base1 cs * 2^e + n) / 2^(e+j): the last j bases alone fix base1 cs, i.e. the interval
   [base1 cs / 2^j, (base1 cs + S) / 2^j] of length S / 2^j inside [0, S] in which the point lies. *)
Fixpoint base1 (cs : list bool) : Z :=
  match cs with [] => 0 | c :: t => (if c then S else 0) + 2 * base1 t end.

Fixpoint steps1 (cs : list bool) (d : dy) : dy :=
  match cs with [] => d | c :: t => steps1 t (dmid1 S c d) end.

Lemma steps1_exp cs : forall d : dy, snd (steps1 cs d) = (snd d + length cs)%nat.
Proof. induction cs as [|x t IH]; intros d; cbn [steps1 length]; [lia|]. rewrite IH. unfold dmid1. cbn [snd]. lia. Qed.

Theorem steps1_value cs : forall d : dy, fst (steps1 cs d) = base1 cs * 2 ^ Z.of_nat (snd d) + fst d.
Proof.
  induction cs as [|c t IH]; intros d; cbn [steps1 base1]; [lia|].
  rewrite IH. unfold dmid1. cbn [fst snd]. rewrite pow2_S. destruct c; lia.
Qed.

Lemma base1_bound cs : 0 <= base1 cs /\ base1 cs + S <= S * 2 ^ Z.of_nat (length cs).
Proof.
  induction cs as [|c t [IH1 IH2]]; cbn [base1 length]; [cbn; lia|].
  rewrite pow2_S. destruct c; lia.
Qed.

Theorem subsquare1 cs (d : dy) : dy_in S d ->
  base1 cs * 2 ^ Z.of_nat (snd d) <= fst (steps1 cs d) <= (base1 cs + S) * 2 ^ Z.of_nat (snd d).
Proof. unfold dy_in. intros H. rewrite steps1_value. lia. Qed.

(* the walk over a suffix b, started at the point reached after the prefix a, is the j-step map above *)
Fixpoint corners (corner : N -> option (bool * bool)) (s : list N) : option (list (bool * bool)) :=
  match s with
  | [] => Some []
  | b :: t => match corner b, corners corner t with Some c, Some l => Some (c :: l) | _, _ => None end
  end.

Lemma last_cons_default {A} (x : A) l d : last (x :: l) d = last l x.
Proof.
  revert x d. induction l as [|y t IH]; intros x d; [reflexivity|].
  change (last (x :: y :: t) d) with (last (y :: t) d).
  rewrite (IH y d), (IH y x). reflexivity.
Qed.

Lemma walk_last corner b : forall (p : dpt) lb cs,
  walk (bool * bool) dpt corner (dmid S) p b = Some lb -> corners corner b = Some cs ->
  last lb p = (steps1 (map fst cs) (fst p), steps1 (map snd cs) (snd p)).
Proof.
  induction b as [|x t IH]; intros p lb cs H Hc; cbn in H, Hc.
  - inversion H; inversion Hc; subst. cbn. now destruct p.
  - destruct (corner x) as [c|]; [|discriminate].
    destruct (walk _ _ corner (dmid S) (dmid S c p) t) as [l'|] eqn:E; [|discriminate].
    destruct (corners corner t) as [cs'|] eqn:Ec; [|discriminate]. inversion H; inversion Hc; subst.
    pose proof (IH (dmid S c p) l' cs' E eq_refl) as HI.
    rewrite last_cons_default, HI. cbn [map steps1]. unfold dmid. cbn [fst snd]. reflexivity.
Qed.

Theorem cgr_exact_subsquare corner a b la lb cs :
  cgr_exact corner S a = Some la ->
  walk (bool * bool) dpt corner (dmid S) (last la (dcentre S)) b = Some lb ->
  corners corner b = Some cs ->
  let q := last lb (last la (dcentre S)) in
  let e := snd (fst (last la (dcentre S))) in
  let e' := snd (snd (last la (dcentre S))) in
  base1 (map fst cs) * 2 ^ Z.of_nat e <= fst (fst q) <= (base1 (map fst cs) + S) * 2 ^ Z.of_nat e /\
  base1 (map snd cs) * 2 ^ Z.of_nat e' <= fst (snd q) <= (base1 (map snd cs) + S) * 2 ^ Z.of_nat e' /\
  snd (fst q) = (e + length b)%nat /\ snd (snd q) = (e' + length b)%nat.
Proof.
  intros Ha Hb Hc. cbn zeta.
  assert (Hin : dpt_in (last la (dcentre S))).
  { pose proof (cgr_exact_in_square corner a la Ha) as HF.
    destruct la as [|x la'] using rev_ind; [apply dcentre_in|]. rewrite last_last.
    rewrite Forall_forall in HF. apply HF. apply in_or_app. right. now left. }
  rewrite (walk_last corner b _ lb cs Hb Hc). cbn [fst snd].
  assert (Hl : length cs = length b).
  { clear -Hc. revert cs Hc. induction b as [|x t IH]; intros cs Hc; cbn in Hc.
    - inversion Hc. reflexivity.
    - destruct (corner x); [|discriminate]. destruct (corners corner t) as [l|]; [|discriminate].
      inversion Hc; subst. cbn. f_equal. now apply IH. }
  destruct Hin as [H1 H2].
  repeat split; try (apply subsquare1; assumption); rewrite steps1_exp, map_length, Hl; reflexivity.
Qed.
End Exact.
