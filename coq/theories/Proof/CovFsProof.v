(* C17 / C08: `cov` at the level of its files (Model/CtrFs.v, cov_fs): count + merge into the output directory,
   kmers.counts read back, kmers.vectors created.  Whatever the directory held before, the vectors file is the one
   computed from this run's own counts table, and it is the specified file. *)
From Coq Require Import NArith ZArith List Lia Bool Arith String.
From KT Require Import Gen.Generated Gen.Alphabet Model.Kmer Model.Show Model.Ops Model.Rows Model.Pipeline Model.Fs Model.CtrFs.
From KT Require Import Proof.Merge Proof.Batch Proof.RowsProof Proof.PipelineProof Proof.CountProof Proof.FileSpecProof.
From KT Require Import Proof.DecProof Proof.DegenerateProof Proof.CtrFsProof.
Import ListNotations.
Open Scope N_scope.
Notation length := List.length.
Notation concat := List.concat.

Lemma vectors_not_counts dir : vectors_name dir <> counts_name dir.
Proof.
  unfold vectors_name, counts_name. intros H. apply app_inv_head in H.
  change (str "/kmers.vectors") with (str "/kmers." ++ 118 :: str "ectors") in H.
  change (str "/kmers.counts") with (str "/kmers." ++ 99 :: str "ounts") in H.
  apply app_inv_head in H. discriminate.
Qed.
Lemma temp_not_vectors dir p c : temp_name dir p c <> vectors_name dir.
Proof.
  unfold temp_name, vectors_name. intros H. apply app_inv_head in H.
  change (str "/temp_kmers.part_") with (47 :: 116 :: str "emp_kmers.part_") in H.
  change (str "/kmers.vectors") with (47 :: 107 :: str "mers.vectors") in H. discriminate.
Qed.

Theorem cov_fs_correct k bs bc norm delim mem n_parts dir bags recs f :
  exists f', cov_fs k bs bc norm delim mem n_parts dir bags recs f = Some f' /\
    fs_read (vectors_name dir) f' = Some (CtrFs.cov_rows k bs bc norm delim mem (cov_table (merged n_parts bags)) recs) /\
    fs_read (counts_name dir) f' = Some (file_text (merged n_parts bags)) /\
    (forall q, own n_parts dir (N.of_nat (length bags)) q -> fs_read q f' = None) /\
    (forall q, q <> counts_name dir -> q <> vectors_name dir -> ~ own n_parts dir (N.of_nat (length bags)) q ->
               fs_read q f' = fs_read q f).
Proof.
  destruct (ctr_fs_correct n_parts dir bags f) as (f1 & Hrun & Hc & Hown & Hframe).
  exists (fs_write (vectors_name dir) (CtrFs.cov_rows k bs bc norm delim mem (cov_table (merged n_parts bags)) recs) f1).
  split; [|split; [|split; [|split]]].
  - unfold cov_fs. rewrite Hrun, Hc, parse_file_text. reflexivity.
  - rewrite read_write, list_eqb_refl. reflexivity.
  - rewrite read_write, eqb_neq; [exact Hc|]. intro E. symmetry in E. exact (vectors_not_counts dir E).
  - intros q Hq. rewrite read_write. destruct Hq as (p & c & Hp & Hcc & ->).
    rewrite (eqb_neq _ _ (temp_not_vectors dir p c)). apply Hown. now exists p, c.
  - intros q H1 H2 H3. rewrite read_write, (eqb_neq _ _ H2). now apply Hframe.
Qed.

(* the table read back from this run's counts file answers every lookup like the in-memory table of the model *)
Lemma lookup_in_nodup (t : list (N * N)) x c : NoDup (map fst t) -> In (x, c) t -> Rows.lookup x t = c.
Proof.
  induction t as [|[y d] t IH]; intros Hn Hi; [destruct Hi|]. inversion Hn as [|? ? Hy Hn']; subst. cbn [Rows.lookup].
  destruct Hi as [E|Hi].
  - inversion E; subst. now rewrite N.eqb_refl.
  - destruct (N.eqb_spec x y) as [->|_]; [|now apply IH]. exfalso. apply Hy. apply in_map_iff. now exists (y, c).
Qed.
Lemma lookup_absent (t : list (N * N)) x : ~ In x (map fst t) -> Rows.lookup x t = 0.
Proof.
  induction t as [|[y d] t IH]; intros H; [reflexivity|]. cbn [Rows.lookup].
  destruct (N.eqb_spec x y) as [->|_]; [exfalso; apply H; now left|]. apply IH. intro. apply H. now right.
Qed.
Lemma lookup_count_table k recs x :
  Rows.lookup x (count_table k recs) = N.of_nat (count_occ N.eq_dec (all_canon k recs) x).
Proof.
  unfold count_table. set (ws := all_canon k recs).
  destruct (in_dec N.eq_dec x ws) as [Hin|Hout].
  - apply lookup_in_nodup.
    + rewrite map_map. cbn [fst]. rewrite map_id. apply NoDup_nodup.
    + apply in_map_iff. exists x. split; [reflexivity|now apply nodup_In].
  - rewrite lookup_absent.
    + apply (count_occ_not_In N.eq_dec) in Hout. now rewrite Hout.
    + rewrite map_map. cbn [fst]. rewrite map_id. now rewrite nodup_In.
Qed.
Lemma lookup_cov_table_merged n_parts bags x : 1 <= n_parts ->
  Rows.lookup x (cov_table (merged n_parts bags)) = N.of_nat (count_occ N.eq_dec (everything bags) x).
Proof.
  intros Hn. unfold cov_table.
  assert (Hk : map fst (map (fun kv : N * nat => (fst kv, N.of_nat (snd kv))) (merged n_parts bags)) = map fst (merged n_parts bags)).
  { rewrite map_map. reflexivity. }
  destruct (in_dec N.eq_dec x (everything bags)) as [Hin|Hout].
  - apply lookup_in_nodup; [rewrite Hk; now apply merged_keys_nodup|].
    apply in_map_iff. exists (x, Merge.occ x (everything bags)). split; [reflexivity|now apply merged_complete].
  - rewrite lookup_absent.
    + apply (count_occ_not_In N.eq_dec) in Hout. now rewrite Hout.
    + rewrite Hk. intros H. apply in_map_iff in H as ([y c] & E & Hi). cbn in E. subst y.
      apply merged_counts in Hi as [_ Hi]. contradiction.
Qed.

Lemma cov_counts_spec_ext k bs bc t1 t2 s : (forall x, Rows.lookup x t1 = Rows.lookup x t2) ->
  cov_counts_spec k bs bc t1 s = cov_counts_spec k bs bc t2 s.
Proof.
  intros H. unfold cov_counts_spec. apply map_ext. intros b. f_equal. apply filter_ext. intros x. now rewrite H.
Qed.

(* the vectors file of the file-level model is the specified vectors file *)
Theorem cov_fs_vectors_spec k bs bc norm delim mem n_parts chunks recs : (1 <= k <= 31)%nat -> (1 <= bc)%nat -> 1 <= n_parts ->
  decodes nt4k recs -> decodes nt4k (concat chunks) ->
  CtrFs.cov_rows k bs bc norm delim mem (cov_table (merged n_parts (map (all_canon k) chunks))) recs
  = s_cov k bs bc norm delim recs (concat chunks).
Proof.
  intros Hk Hbc Hn Hr Ha. rewrite <- (cov_model_spec k bs bc norm delim mem recs (concat chunks) Hk Hbc Hr Ha).
  rewrite cov_batch_any_limit. unfold CtrFs.cov_rows. rewrite batch_all. f_equal. apply map_ext_in. intros s Hs.
  unfold cov_row_bytes. f_equal. unfold decodes in Hr. rewrite Forall_forall in Hr.
  destruct (cov_counts_spec_eq k bs bc (cov_table (merged n_parts (map (all_canon k) chunks))) s Hk Hbc (Hr s Hs)) as [-> _].
  destruct (cov_counts_spec_eq k bs bc (count_table k (concat chunks)) s Hk Hbc (Hr s Hs)) as [-> _].
  apply cov_counts_spec_ext. intros x.
  rewrite lookup_cov_table_merged by exact Hn. rewrite lookup_count_table.
  unfold everything. now rewrite all_canon_concat.
Qed.
