(* C07: the rendered counts table of the model (partitioned chunk files, merge per partition) equals the
   specification's table (distinct canonical k-mers with their total occurrence counts, in increasing code order)
   for EVERY partition count >= 1 and EVERY way the records are split into chunk passes. *)
From Coq Require Import ZArith NArith List Lia Bool Arith Sorting.Permutation Sorting.Sorted.
From KT Require Import Gen.Generated Gen.Alphabet Model.Kmer Model.Show Model.Ops Model.Rows Model.Pipeline.
From KT Require Import Proof.KmerProof Proof.PosMap Proof.Merge Proof.RowsProof.
Import ListNotations.
Open Scope N_scope.

Lemma k1 : (1 <= 1 <= 31)%nat.
Proof. lia. Qed.

Lemma lookup_in (l : list (N * nat)) x c : NoDup (map fst l) -> In (x, c) l -> Merge.lookup x l = c.
Proof.
  unfold Merge.lookup. induction l as [|[y d] t IH]; intros Hnd Hin; [destruct Hin|].
  cbn [find fst]. inversion Hnd as [|? ? Hni Hnd']; subst. destruct Hin as [E|Hin].
  - inversion E; subst. now rewrite N.eqb_refl.
  - destruct (N.eqb_spec y x) as [->|Hne]; [|now apply IH].
    exfalso. apply Hni. apply in_map_iff. exists (x, c). split; [reflexivity|exact Hin].
Qed.

Lemma in_sort l x : In x (NSort.sort l) <-> In x l.
Proof.
  split; intro H.
  - eapply Permutation_in; [symmetry; apply NSort.Permuted_sort|exact H].
  - eapply Permutation_in; [apply NSort.Permuted_sort|exact H].
Qed.

Lemma all_canon_concat k chunks : concat (map (all_canon k) chunks) = all_canon k (concat chunks).
Proof.
  unfold all_canon. induction chunks as [|c t IH]; [reflexivity|].
  cbn [map concat]. rewrite IH, map_app, concat_app. reflexivity.
Qed.

Lemma all_canon_model_spec k recs : (1 <= k <= 31)%nat ->
  Forall (Forall (fun b => nt4k b = digit_of_letter b)) recs -> all_canon k recs = all_canon_spec k recs.
Proof.
  intros Hk Hr. unfold all_canon, all_canon_spec. f_equal. apply map_ext_in. intros s Hs. f_equal.
  rewrite (kg_run_spec nt4k k Hk s). rewrite Forall_forall in Hr.
  apply (spec_kmers_ext nt4k digit_of_letter (fun b => nt4k b = digit_of_letter b) k s (Hr s Hs)). auto.
Qed.

Section Table.
Variable n_parts : N.
Hypothesis Hn : 1 <= n_parts.
Variable bags : list (list N).
Let ws := everything bags.

Lemma keys_of_merged x : In x (map fst (merged n_parts bags)) <-> In x ws.
Proof.
  split.
  - intros H. apply in_map_iff in H as [[y c] [<- Hin]]. apply (merged_counts n_parts bags y c Hin).
  - intros H. apply in_map_iff. exists (x, Merge.occ x ws). split; [reflexivity|]. apply merged_complete; assumption.
Qed.

Lemma sorted_keys_eq : NSort.sort (map fst (merged n_parts bags)) = NSort.sort (nodup N.eq_dec ws).
Proof.
  apply (sorted_lt_unique 1 k1).
  - apply (sort_sorted_lt 1 k1). apply merged_keys_nodup. exact Hn.
  - apply (sort_sorted_lt 1 k1). apply NoDup_nodup.
  - intros x. rewrite !in_sort, keys_of_merged, nodup_In. reflexivity.
Qed.

Theorem sort_pairs_merged :
  sort_pairs (merged n_parts bags) = map (fun x => (x, count_occ N.eq_dec ws x)) (NSort.sort (nodup N.eq_dec ws)).
Proof.
  unfold sort_pairs. rewrite sorted_keys_eq. apply map_ext_in. intros x Hx. f_equal.
  apply (proj1 (in_sort _ _)) in Hx. apply (proj1 (nodup_In _ _ _)) in Hx.
  apply lookup_in; [apply merged_keys_nodup; exact Hn|]. apply merged_complete; assumption.
Qed.
End Table.

(* the whole rendered table: model = spec, any partition count, any chunking *)
Theorem ctr_model_spec k acgt n_parts chunks : (1 <= k <= 31)%nat -> 1 <= n_parts -> letters = [65; 67; 71; 84] ->
  Forall (Forall (fun b => nt4k b = digit_of_letter b)) (concat chunks) ->
  m_ctr k acgt n_parts chunks = s_ctr k acgt (concat chunks).
Proof.
  intros Hk Hn Hl Hr. unfold m_ctr, s_ctr.
  rewrite (sort_pairs_merged n_parts Hn). unfold everything. rewrite all_canon_concat, (all_canon_model_spec k _ Hk Hr).
  rewrite map_map. apply (f_equal (join comma)). apply map_ext. intros x. unfold show_count. cbn [fst snd].
  destruct acgt; [|reflexivity]. unfold kmer_text, s_dec, acgt. rewrite Hl. reflexivity.
Qed.
