(* The executable chunk passes of the file-level counter model (Model/CtrFs.v, passes: one worker, the budget rule)
   run to the end for every input, and together they hold every canonical k-mer of the input exactly as often as
   it occurs: the bags handed to ctr_fs in the `ctrfs` / `covfs` cases are a chunking of the input in the sense
   of the C07 theorems. *)
From Coq Require Import NArith List Lia Bool Arith.
From KT Require Import Gen.Generated Model.Kmer Model.Show Model.Ops Model.Rows Model.Pipeline Model.CtrFs.
From KT Require Import Proof.Sched Proof.CountSched Proof.CountLive.
Import ListNotations.

Lemma cost_le_steps (rs : list (list N * N)) :
  (cost rs 0 + 2 <= 2 * fold_right (fun r a => (length (fst r) + 4 + a)%nat) 8%nat rs)%nat.
Proof. unfold cost. cbn [skipn]. induction rs as [|r l IH]; cbn [fold_right]; lia. Qed.

Lemma count_occ_app (x : N) a b : count_occ N.eq_dec (a ++ b) x = (count_occ N.eq_dec a x + count_occ N.eq_dec b x)%nat.
Proof. induction a as [|y a IH]; cbn; [reflexivity|]. destruct (N.eq_dec y x); rewrite IH; lia. Qed.
Lemma count_occ_concat_rev (x : N) (l : list (list N)) :
  count_occ N.eq_dec (concat (rev l)) x = count_occ N.eq_dec (concat l) x.
Proof.
  induction l as [|a l IH]; [reflexivity|]. cbn [rev concat]. rewrite concat_app, !count_occ_app, IH. cbn [concat].
  rewrite app_nil_r. lia.
Qed.

Section P.
Variables (k : nat) (limit : N) (recs : list (list N)).
Let rs := map (fun s => (map canon_of (kg_run nt4k k s), N.of_nat (length s))) recs.
Let n := (2 * fold_right (fun r a => (length (fst r) + 4 + a)%nat) 8%nat rs)%nat.

Theorem passes_run_to_the_end : fin (exec rs 1 limit (repeat 0%nat n)) = true.
Proof. apply single_worker_terminates. apply cost_le_steps. Qed.

Theorem passes_exact x :
  count_occ N.eq_dec (concat (passes k limit recs)) x = count_occ N.eq_dec (all_canon k recs) x.
Proof.
  unfold passes. fold rs. fold n. rewrite count_occ_concat_rev.
  pose proof (count_exact rs 1 (le_n 1) limit (repeat 0%nat n) passes_run_to_the_end x) as H.
  unfold cdone, all, occ in H. rewrite H. unfold all_canon, rs. rewrite map_map. reflexivity.
Qed.
End P.

(* end to end for the executable instance: the counts file that the file-level model writes for the passes of
   the budget rule - whatever the directory held, whatever the budget and the partition count - parses back,
   sorted, to the specification's table of the input *)
From KT Require Import Gen.Alphabet Model.Fs Proof.PosMap Proof.Merge Proof.CountProof Proof.CtrFsProof.
Open Scope N_scope.

Theorem ctrfs_counts_file_is_spec k limit n_parts dir recs f : (1 <= k <= 31)%nat -> 1 <= n_parts ->
  Forall (Forall (fun b => nt4k b = digit_of_letter b)) recs ->
  exists f' content, ctr_fs n_parts dir (passes k limit recs) f = Some f' /\
    fs_read (counts_name dir) f' = Some content /\
    join comma (map (show_count false k) (sort_pairs (parse_file content))) = s_ctr k false recs.
Proof.
  intros Hk Hn Hr.
  destruct (ctr_fs_correct n_parts dir (passes k limit recs) f) as (f' & Hrun & Hc & _).
  exists f', (file_text (merged n_parts (passes k limit recs))). split; [exact Hrun|split; [exact Hc|]].
  rewrite parse_file_text, (sort_pairs_merged n_parts Hn). unfold s_ctr.
  rewrite <- (all_canon_model_spec k recs Hk Hr). unfold everything.
  set (ws := concat (passes k limit recs)). set (ws' := all_canon k recs).
  assert (Hocc : forall x, count_occ N.eq_dec ws x = count_occ N.eq_dec ws' x) by (intros x; apply passes_exact).
  assert (Hkeys : NSort.sort (nodup N.eq_dec ws) = NSort.sort (nodup N.eq_dec ws')).
  { apply (sorted_lt_unique 1 k1).
    - apply (sort_sorted_lt 1 k1). apply NoDup_nodup.
    - apply (sort_sorted_lt 1 k1). apply NoDup_nodup.
    - intros x. rewrite !in_sort, !nodup_In. rewrite !(count_occ_In N.eq_dec), Hocc. reflexivity. }
  rewrite Hkeys, map_map. f_equal. apply map_ext. intros x. unfold show_count. cbn [fst snd]. now rewrite Hocc.
Qed.
