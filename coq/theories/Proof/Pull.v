(* The Iterator interface of the three generators.  Rust's next() is pull-based: it consumes bytes until an item
   can be returned, or the sequence ends (where the minimiser iterators emit the run that is still open, once, and
   mark it as emitted).  The models of Model/Kmer.v, Proof/MinConc.v and Proof/KmMin.v are push-based folds (one
   step per byte, a final emission).  Here: a generic pull-based iterator object built from the same step and finish
   functions; calling next() until it returns None yields exactly the items of the fold, in the same order, and
   an exhausted iterator keeps returning None. *)
From Coq Require Import NArith List Lia Arith.
From KT Require Import Model.Kmer Proof.MinAbs Proof.MinSpec Proof.MinConc Proof.KmMin.
Import ListNotations.
Local Open Scope nat_scope.

Section Pull.
Variables St Out : Type.
Variable step : nat -> St -> N -> St * option Out.
Variable finish : nat -> St -> option Out.      (* the emission at the end of the sequence, if any *)
Variable close : St -> St.                        (* what the code does to the state when it makes that emission *)
Hypothesis closed : forall pos st, finish pos (close st) = None.

Definition obj := (St * nat * list N)%type.       (* registers, position, bytes not yet consumed *)

Fixpoint next (st : St) (pos : nat) (rest : list N) : option Out * obj :=
  match rest with
  | [] => match finish pos st with
          | Some x => (Some x, (close st, pos, []))
          | None => (None, (st, pos, []))
          end
  | b :: t => let '(st', o) := step pos st b in
              match o with
              | Some x => (Some x, (st', S pos, t))
              | None => next st' (S pos) t
              end
  end.

(* the push-based fold *)
Fixpoint go (st : St) (pos : nat) (rest : list N) : list Out :=
  match rest with
  | [] => ol (finish pos st)
  | b :: t => let '(st', o) := step pos st b in ol o ++ go st' (S pos) t
  end.

(* for x in iterator / collect(): call next until it returns None *)
Fixpoint collect (fuel : nat) (o : obj) : list Out :=
  match fuel with
  | O => []
  | S f => let '(st, pos, rest) := o in
           match next st pos rest with
           | (Some x, o') => x :: collect f o'
           | (None, _) => []
           end
  end.

Lemma next_spec rest : forall st pos,
  match next st pos rest with
  | (Some x, (st', pos', rest')) =>
      go st pos rest = x :: go st' pos' rest' /\
      (length rest' < length rest \/ (rest' = [] /\ finish pos' st' = None))
  | (None, (st', pos', rest')) => go st pos rest = [] /\ rest' = [] /\ finish pos' st' = None
  end.
Proof.
  induction rest as [|b t IH]; intros st pos; cbn [next go].
  - destruct (finish pos st) as [x|] eqn:E.
    + cbn [ol go]. rewrite (closed pos st). cbn [ol]. split; [reflexivity|]. right. split; [reflexivity|first [apply closed|reflexivity]].
    + cbn [ol]. split; [reflexivity|]. split; [reflexivity|exact E].
  - destruct (step pos st b) as [st' o]. destruct o as [x|].
    + cbn [ol app length]. split; [reflexivity|]. left. lia.
    + cbn [ol app]. specialize (IH st' (S pos)).
      destruct (next st' (S pos) t) as [[x|] [[st'' pos''] rest'']].
      * destruct IH as [Hgo Hm]. split; [exact Hgo|]. destruct Hm as [Hl|Hf]; [left; cbn [length]; lia|right; exact Hf].
      * exact IH.
Qed.

(* the items drawn with next() are the items of the fold *)
Theorem collect_go fuel : forall st pos rest,
  (length rest + 2 <= fuel \/ (rest = [] /\ finish pos st = None /\ 1 <= fuel)) ->
  collect fuel (st, pos, rest) = go st pos rest.
Proof.
  induction fuel as [|f IH]; intros st pos rest Hf.
  - exfalso. destruct Hf as [H|[_ [_ H]]]; lia.
  - cbn [collect]. pose proof (next_spec rest st pos) as Hn.
    destruct (next st pos rest) as [[x|] [[st' pos'] rest']].
    + destruct Hn as [Hgo Hm]. rewrite Hgo. f_equal. apply IH.
      destruct Hf as [Hf|[-> [Hfin _]]].
      * destruct Hm as [Hl|[-> Hc]]; [left; lia|right]. split; [reflexivity|split; [exact Hc|lia]].
      * cbn [next] in *. exfalso. cbn [go ol] in Hgo. rewrite Hfin in Hgo. discriminate.
    + destruct Hn as [Hgo _]. symmetry. exact Hgo.
Qed.

(* an iterator that has returned None keeps returning None, and does not change any more *)
Theorem next_fused st pos rest o' : next st pos rest = (None, o') ->
  let '(st', pos', rest') := o' in next st' pos' rest' = (None, o').
Proof.
  intros E. pose proof (next_spec rest st pos) as Hn. rewrite E in Hn.
  destruct o' as [[st' pos'] rest']. destruct Hn as [_ [-> Hfin]]. cbn [next]. rewrite Hfin. reflexivity.
Qed.
End Pull.

(* ---------- the k-mer iterator: no emission at the end ---------- *)
Section KmerPull.
Variable nt4 : N -> N.
Variable k : nat.
Definition kg_pstep (_ : nat) (st : Kmer.kst) (b : N) := kg_step nt4 k st b.
Definition kg_pfinish (_ : nat) (_ : Kmer.kst) : option (N * N) := None.
Definition kg_next := next Kmer.kst (N * N) kg_pstep kg_pfinish (fun st => st).
Definition kg_collect := collect Kmer.kst (N * N) kg_pstep kg_pfinish (fun st => st).

Lemma kg_go_pull rest : forall st pos, go Kmer.kst (N * N) kg_pstep kg_pfinish st pos rest = kg_go nt4 k st rest.
Proof.
  induction rest as [|b t IH]; intros st pos; cbn [go kg_go]; [reflexivity|].
  unfold kg_pstep at 1. destruct (kg_step nt4 k st b) as [st' o]. rewrite IH. destruct o; reflexivity.
Qed.

Theorem kg_collect_run s : kg_collect (length s + 2) (mkst 0 0 0, 0, s) = kg_run nt4 k s.
Proof.
  unfold kg_collect, kg_run. rewrite collect_go; [apply kg_go_pull|reflexivity|left; lia].
Qed.
End KmerPull.

(* ---------- the minimiser iterator: the open run is emitted once at the end, then marked as emitted ---------- *)
Section MinPull.
Variable nt4 : N -> N.
Variables w m : nat.
Definition mg_close (st : mst) : mst :=
  mkm (vf st) (vr st) (vl st) (mka (buff (ctl st)) (bpos (ctl st)) MAXV (wstart (ctl st))).
Definition mg_pfinish (pos : nat) (st : mst) : option out := afinish pos (ctl st).
Lemma mg_closed pos st : mg_pfinish pos (mg_close st) = None.
Proof. unfold mg_pfinish, mg_close, afinish. cbn [ctl active]. rewrite N.eqb_refl. reflexivity. Qed.

Definition mg_next := next mst out (mg_step nt4 w m) mg_pfinish mg_close.
Definition mg_collect := collect mst out (mg_step nt4 w m) mg_pfinish mg_close.

Lemma mg_go_pull rest : forall st pos, go mst out (mg_step nt4 w m) mg_pfinish st pos rest = mg_go nt4 w m st pos rest.
Proof.
  induction rest as [|b t IH]; intros st pos; cbn [go mg_go]; [reflexivity|].
  destruct (mg_step nt4 w m pos st b) as [st' o]. rewrite IH. reflexivity.
Qed.

Theorem mg_collect_run s : mg_collect (length s + 2) (mg_init, 0, s) = mg_run nt4 w m s.
Proof.
  unfold mg_collect, mg_run. rewrite collect_go; [apply mg_go_pull|apply mg_closed|left; lia].
Qed.

(* ---------- the iterator that also reports k-mers ---------- *)
Definition kmg_close (st : KmMin.kst) : KmMin.kst := mkk (mg_close (mreg st)) (kf st) (kr st) (kl st) (kb st).
Definition kmg_pfinish (pos : nat) (st : KmMin.kst) : option kout :=
  match afinish pos (ctl (mreg st)) with Some run => Some (run, kb st) | None => None end.
Lemma kmg_closed pos st : kmg_pfinish pos (kmg_close st) = None.
Proof.
  unfold kmg_pfinish, kmg_close. cbn [mreg]. pose proof (mg_closed pos (mreg st)) as H. unfold mg_pfinish in H.
  rewrite H. reflexivity.
Qed.

Definition kmg_next := next KmMin.kst kout (kmg_step nt4 w m) kmg_pfinish kmg_close.
Definition kmg_collect := collect KmMin.kst kout (kmg_step nt4 w m) kmg_pfinish kmg_close.

Lemma kmg_go_pull rest : forall st pos,
  go KmMin.kst kout (kmg_step nt4 w m) kmg_pfinish st pos rest = kmg_go nt4 w m st pos rest.
Proof.
  induction rest as [|b t IH]; intros st pos; cbn [go kmg_go].
  - unfold kmg_pfinish. destruct (afinish pos (ctl (mreg st))); reflexivity.
  - destruct (kmg_step nt4 w m pos st b) as [st' o]. rewrite IH. reflexivity.
Qed.

Theorem kmg_collect_run s : kmg_collect (length s + 2) (kmg_init, 0, s) = kmg_run nt4 w m s.
Proof.
  unfold kmg_collect, kmg_run. rewrite collect_go; [apply kmg_go_pull|apply kmg_closed|left; lia].
Qed.
End MinPull.
