(* C06 prototype: line-level FASTQ parser (as bio 2.0.3 reads it) and its round trip *)
From Coq Require Import NArith List Lia Bool Arith.
From Coq Require Import ZifyN ZifyNat ZifyBool.
From KT Require Import Proof.Fasta.
Import ListNotations.
Open Scope N_scope.

Definition AT : N := 64.
Definition PLUS : N := 43.
Definition SP : N := 32.

Fixpoint take_nosp (l : list N) : list N :=
  match l with b :: t => if b =? SP then [] else b :: take_nosp t | [] => [] end.

(* sequence lines up to (and consuming) the '+' line; returns the sequence, the number of lines, the rest *)
Fixpoint take_seq_fq (ls : list (list N)) : list N * nat * list (list N) :=
  match ls with
  | [] => ([], 0%nat, [])
  | l :: t => if starts_with PLUS l then ([], 0%nat, t)
              else let '(s, n, rest) := take_seq_fq t in (trim_end l ++ s, S n, rest)
  end.

Fixpoint parse_fastq (fuel : nat) (ls : list (list N)) : outcome (list (list N * list N)) :=
  match fuel with
  | O => Panic
  | S f =>
    match ls with
    | [] => Ok []
    | l :: t =>
      if starts_with AT l then
        let h := trim_end (tl l) in
        let id := take_nosp h in
        let has_desc := existsb (N.eqb SP) h in
        let '(s, n, rest) := take_seq_fq t in
        let qual := concat (map trim_end (firstn n rest)) in
        let rest' := skipn n rest in
        if isnil id && negb has_desc && isnil s && isnil qual then Ok []
        else match parse_fastq f rest' with Ok rs => Ok ((id, s) :: rs) | Panic => Panic end
      else Panic                                   (* Error::MissingAt, unwrapped by ktio *)
    end
  end.

(* well-formed FASTQ records: at least one sequence chunk, no chunk starts with '+' *)
Definition wf_chunk_q (c : list N) := c <> [] /\ nows c /\ starts_with PLUS c = false.
Record recq := mkq { qid : list N; qdesc : option (list N); qchunks : list (list N) }.
Definition qseq (r : recq) : list N := concat (qchunks r).
Definition wf_recq (r : recq) :=
  qid r <> [] /\ nows (qid r) /\
  (match qdesc r with Some d => exists b d', d = d' ++ [b] /\ is_ws b = false | None => True end) /\
  qchunks r <> [] /\ Forall wf_chunk_q (qchunks r).

Definition qheader (r : recq) : list N := AT :: qid r ++ match qdesc r with Some d => SP :: d | None => [] end.

(* header, sequence chunks, a '+' line with anything after the '+', as many quality lines as chunks *)
Inductive printed_q : recq -> list (list N) -> Prop :=
| PQ r eh es plus quals : allws eh -> length es = length (qchunks r) -> Forall allws es ->
    length quals = length (qchunks r) ->
    printed_q r ((qheader r ++ eh) :: map (fun ce => fst ce ++ snd ce) (combine (qchunks r) es)
                 ++ (PLUS :: plus) :: quals).

Inductive printed_qs : list recq -> list (list N) -> Prop :=
| PQ_nil : printed_qs [] []
| PQ_cons r rs l ls : printed_q r l -> printed_qs rs ls -> printed_qs (r :: rs) (l ++ ls).

Lemma take_nosp_app l r : nows l -> take_nosp (l ++ SP :: r) = l.
Proof.
  induction 1 as [|a l Ha Hl IH]; cbn [app take_nosp]; [reflexivity|].
  destruct (N.eqb_spec a SP) as [->|Hne]; [discriminate|]. f_equal. exact IH.
Qed.

Lemma take_nosp_all l : nows l -> take_nosp l = l.
Proof.
  induction 1 as [|a l Ha Hl IH]; cbn [take_nosp]; [reflexivity|].
  destruct (N.eqb_spec a SP) as [->|Hne]; [discriminate|]. f_equal. exact IH.
Qed.

Lemma qheader_id r eh : wf_recq r -> allws eh -> take_nosp (trim_end (tl (qheader r ++ eh))) = qid r.
Proof.
  intros (Hne & Hnw & Hd & _) He. unfold qheader. cbn [app tl].
  rewrite trim_end_app_allws by exact He.
  destruct (qdesc r) as [d|].
  - destruct Hd as (b & d' & -> & Hb).
    replace (qid r ++ SP :: d' ++ [b]) with ((qid r ++ SP :: d') ++ [b]) by (rewrite <- app_assoc; reflexivity).
    rewrite trim_end_last by exact Hb. rewrite <- app_assoc. cbn [app]. apply take_nosp_app. exact Hnw.
  - rewrite app_nil_r, trim_end_nows by exact Hnw. apply take_nosp_all. exact Hnw.
Qed.

Lemma take_seq_fq_chunks cs : forall es plus rest,
  Forall wf_chunk_q cs -> length es = length cs -> Forall allws es ->
  take_seq_fq (map (fun ce => fst ce ++ snd ce) (combine cs es) ++ (PLUS :: plus) :: rest)
  = (concat cs, length cs, rest).
Proof.
  induction cs as [|c cs IH]; intros es plus rest Hwf Hl He.
  - cbn [combine map app take_seq_fq starts_with]. rewrite N.eqb_refl. reflexivity.
  - destruct es as [|e es]; [discriminate|]. cbn [combine map app fst snd take_seq_fq concat length].
    inversion Hwf as [|? ? [Hne [Hnw Hp]] Hwf']; subst. inversion He as [|? ? Hae He']; subst.
    assert (Hs : starts_with PLUS (c ++ e) = false) by (destruct c as [|b c]; [congruence|exact Hp]).
    rewrite Hs. rewrite IH; [|exact Hwf'|cbn in Hl; lia|exact He'].
    rewrite trim_end_app_allws by exact Hae. rewrite trim_end_nows by exact Hnw. reflexivity.
Qed.

Theorem parse_printed_q rs : forall ls fuel, Forall wf_recq rs -> printed_qs rs ls -> (length ls < fuel)%nat ->
  parse_fastq fuel ls = Ok (map (fun r => (qid r, qseq r)) rs).
Proof.
  induction rs as [|r rs IH]; intros ls fuel Hwf Hp Hf.
  - inversion Hp; subst. destruct fuel; [lia|]. reflexivity.
  - inversion Hp as [|? ? l ls' Hr Hrs]; subst. inversion Hwf as [|? ? Hwr Hwf']; subst.
    destruct Hr as [r eh es plus quals Heh Hles Hes Hlq].
    destruct fuel as [|fuel]; [cbn in Hf; lia|].
    cbn [app parse_fastq]. unfold qheader at 1. cbn [app starts_with]. rewrite N.eqb_refl.
    fold (qheader r). change (tl (AT :: _)) with (tl (qheader r ++ eh)).
    rewrite (qheader_id r eh Hwr Heh).
    destruct Hwr as (Hne & Hnw & Hd & Hcne & Hch).
    rewrite <- app_assoc. cbn [app].
    rewrite take_seq_fq_chunks; [|exact Hch|exact Hles|exact Hes].
    assert (Hid : isnil (qid r) = false) by (destruct (qid r); [congruence|reflexivity]).
    rewrite Hid. cbn [andb].
    rewrite <- Hlq. rewrite skipn_app, skipn_all, Nat.sub_diag. cbn [skipn app].
    rewrite IH; [reflexivity|exact Hwf'|exact Hrs|].
    cbn [app length] in Hf. repeat (rewrite app_length in Hf; cbn [length] in Hf). lia.
Qed.
Print Assumptions parse_printed_q.
