(* C10: "the minimiser-to-sequence output has exactly one line per distinct minimiser, listing every (record, start,
   end) that the first output attributes to it and nothing else".  The m2s model and specification are built from
   the entry list m2s_entries; here: what that list and its grouping into lines mean in terms of the runs that the
   s2m output lists per record. *)
From Coq Require Import NArith List Lia Arith Bool Sorting.Permutation.
From KT Require Import Model.Pipeline.
Import ListNotations.
Local Open Scope nat_scope.

Section Inversion.
Variable runs : list N -> list (N * nat * nat).      (* the runs s2m lists for a record *)

Lemma in_number {A} (l : list A) : forall i j x, In (j, x) (number i l) <-> i <= j /\ nth_error l (j - i) = Some x.
Proof.
  induction l as [|y t IH]; intros i j x; cbn [number].
  - split; [intros []|]. intros [_ H]. destruct (j - i); discriminate.
  - cbn [In]. rewrite IH. split.
    + intros [E|[Hle Hn]].
      * inversion E; subst. split; [lia|]. rewrite Nat.sub_diag. reflexivity.
      * split; [lia|]. replace (j - i) with (S (j - S i)) by lia. exact Hn.
    + intros [Hle Hn]. destruct (Nat.eq_dec i j) as [->|Hne].
      * left. rewrite Nat.sub_diag in Hn. cbn in Hn. inversion Hn. reflexivity.
      * right. split; [lia|]. replace (j - i) with (S (j - S i)) in Hn by lia. exact Hn.
Qed.

(* an entry (v, (i, a, b)) exists exactly when record i exists and s2m lists the run (v, a, b) for it *)
Theorem entry_iff recs v i a b :
  In (v, (i, a, b)) (m2s_entries runs recs) <-> exists s, nth_error recs i = Some s /\ In (v, a, b) (runs s).
Proof.
  unfold m2s_entries. rewrite in_flat_map. split.
  - intros [[j s] [Hin Hm]]. cbn [fst snd] in Hm. apply in_map_iff in Hm as [[[v' a'] b'] [E Hr]].
    inversion E; subst. apply in_number in Hin as [_ Hn]. rewrite Nat.sub_0_r in Hn. exists s. split; assumption.
  - intros [s [Hn Hr]]. exists (i, s). split.
    + apply in_number. split; [lia|]. rewrite Nat.sub_0_r. exact Hn.
    + cbn [fst snd]. apply in_map_iff. exists (v, a, b). split; [reflexivity|exact Hr].
Qed.

(* grouping a list by the distinct values of a key loses and duplicates nothing *)
Lemma filter_neg_length {A} (p : A -> bool) (l : list A) :
  length (filter p l) + length (filter (fun x => negb (p x)) l) = length l.
Proof. induction l as [|x t IH]; [reflexivity|]. cbn [filter]. destruct (p x); cbn [negb length]; lia. Qed.

Lemma group_perm {E} (key : E -> N) (keys : list N) : NoDup keys -> forall es : list E,
  (forall e, In e es -> In (key e) keys) ->
  Permutation (concat (map (fun v => filter (fun e => N.eqb (key e) v) es) keys)) es.
Proof.
  induction 1 as [|k keys Hk Hnd IH]; intros es Hcov.
  - destruct es as [|e es]; [constructor|]. exfalso. apply (Hcov e). now left.
  - cbn [map concat].
    set (rest := filter (fun e => negb (N.eqb (key e) k)) es).
    assert (Hsplit : Permutation (filter (fun e => N.eqb (key e) k) es ++ rest) es).
    { unfold rest. clear. induction es as [|e es IHes]; [constructor|]. cbn [filter].
      destruct (N.eqb (key e) k); cbn [negb app].
      - constructor. exact IHes.
      - eapply Permutation_trans; [apply Permutation_sym, Permutation_middle|]. constructor. exact IHes. }
    eapply Permutation_trans; [|exact Hsplit]. apply Permutation_app_head.
    assert (Hsame : map (fun v => filter (fun e => N.eqb (key e) v) es) keys
                  = map (fun v => filter (fun e => N.eqb (key e) v) rest) keys).
    { apply map_ext_in. intros v Hv. unfold rest. clear - Hk Hv. induction es as [|e es IHes]; [reflexivity|].
      cbn [filter]. destruct (N.eqb_spec (key e) k) as [Ek|Ek]; cbn [negb].
      - destruct (N.eqb_spec (key e) v) as [Ev|Ev]; [exfalso; apply Hk; congruence|exact IHes].
      - cbn [filter]. destruct (N.eqb (key e) v); [f_equal|]; exact IHes. }
    rewrite Hsame. apply IH. intros e He. unfold rest in He. apply filter_In in He as [He Hne].
    destruct (Hcov e He) as [Ek|Hin]; [|exact Hin]. exfalso. rewrite <- Ek, N.eqb_refl in Hne. discriminate.
Qed.

(* the lines of m2s: one per distinct minimiser value among the entries; together they list every entry exactly
   once; every entry of the line of v has minimiser v, and no line is empty *)
Theorem lines_partition_the_entries recs :
  let es := m2s_entries runs recs in
  let keys := nodup N.eq_dec (map fst es) in
  NoDup keys /\
  (forall v, In v keys <-> exists e, In (v, e) es) /\
  Permutation (concat (map (fun v => filter (fun e => N.eqb (fst e) v) es) keys)) es /\
  (forall v, In v keys -> filter (fun e => N.eqb (fst e) v) es <> []).
Proof.
  intros es keys. split; [apply NoDup_nodup|]. split; [|split].
  - intros v. unfold keys. rewrite nodup_In, in_map_iff. split.
    + intros [[v' e] [E Hin]]. cbn [fst] in E. subst. exists e. exact Hin.
    + intros [e Hin]. exists (v, e). split; [reflexivity|exact Hin].
  - apply group_perm; [apply NoDup_nodup|]. intros e He. unfold keys. apply nodup_In, in_map. exact He.
  - intros v Hv. unfold keys in Hv. apply nodup_In, in_map_iff in Hv as [[v' e] [E Hin]]. cbn [fst] in E. subst.
    intros Hnil. assert (Hf : In (v, e) (filter (fun e0 => N.eqb (fst e0) v) es)).
    { apply filter_In. split; [exact Hin|]. cbn [fst]. apply N.eqb_refl. }
    rewrite Hnil in Hf. destruct Hf.
Qed.
End Inversion.
