(* executable trace semantics of the chunked-counting schedule model (Proof/CountSched.v), for replay against
   the hooked implementation: one event per atomic step CHECK (pass/fail), TAKE (record n / none), INC x, ADD *)
From Coq Require Import NArith List Arith Bool.
From KT Require Import Proof.Sched Proof.CountSched.
Import ListNotations.

Inductive cev := CPass | CFail | CTake (n : nat) | CNone | CInc (x : N) | CAdd.

Section Trace.
Variable recs : list (list N * N).
Variable W : nat.
Variable limit : N.

Definition cevent (s : st) (i : nat) : option cev :=
  if fin s || negb (i <? W) then None else
  match nth i (pcs s) Exited with
  | Idle => Some (if (limit <? total s)%N then CFail else CPass)
  | Checked => match nth_error recs (next s) with Some _ => Some (CTake (next s)) | None => Some CNone end
  | Holding _ (x :: _) => Some (CInc x)
  | Holding _ [] => Some CAdd
  | Exited => None
  end.

Fixpoint ctrace_go (s : st) (sched : list nat) : list (nat * cev) * st :=
  match sched with
  | [] => ([], s)
  | i :: t => let s' := step recs W limit s i in
              let '(tr, sf) := ctrace_go s' t in
              match cevent s i with Some e => ((i, e) :: tr, sf) | None => (tr, sf) end
  end.

Definition ctrace (sched : list nat) : list (nat * cev) * st := ctrace_go (init W) sched.
End Trace.
