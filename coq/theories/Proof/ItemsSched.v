(* C10 prototype: workers take records under a lock and emit each record's items (one output line for
   s2m, one (minimiser, entry) push per run for m2s) in atomic steps; for EVERY schedule the emitted
   multiset is the multiset of all items *)
From Coq Require Import NArith List Lia Bool Arith.
From KT Require Import Proof.Sched.
Import ListNotations.

Lemma nth_rep {X} (x : X) n i d : i < n -> nth i (repeat x n) d = x.
Proof. revert i; induction n as [|n IH]; intros [|i] H; cbn; try lia; auto. apply IH; lia. Qed.

Section Items.
Variable X : Type.
Variable X_dec : forall a b : X, {a = b} + {a <> b}.
Variable recs : list (list X).        (* items of each record, in the order the worker emits them *)
Variable W : nat.
Hypothesis HW : 1 <= W.

Inductive pc := Idle | Holding (todo : list X) | Exited.
Record st := mk { next : nat; pcs : list pc; out : list X }.
Definition init : st := mk 0 (repeat Idle W) [].

Definition step (s : st) (i : nat) : st :=
  if negb (i <? W) then s else
  match nth i (pcs s) Exited with
  | Idle => match nth_error recs (next s) with
            | Some items => mk (S (next s)) (upd (pcs s) i (Holding items)) (out s)
            | None => mk (next s) (upd (pcs s) i Exited) (out s)
            end
  | Holding (x :: t) => mk (next s) (upd (pcs s) i (Holding t)) (out s ++ [x])
  | Holding [] => mk (next s) (upd (pcs s) i Idle) (out s)
  | Exited => s
  end.
Definition exec (sched : list nat) : st := fold_left step sched init.
Definition complete (s : st) : Prop := forall i, i < W -> nth i (pcs s) Idle = Exited.

Definition occ (x : X) (l : list X) : nat := count_occ X_dec l x.
Definition todo (p : pc) : list X := match p with Holding t => t | _ => [] end.
Fixpoint lsum (l : list nat) : nat := match l with [] => 0 | a :: t => a + lsum t end.
Definition pend (x : X) (l : list pc) : nat := lsum (map (fun p => occ x (todo p)) l).
Definition unread (x : X) (n : nat) : nat := occ x (concat (skipn n recs)).
Definition all (x : X) : nat := occ x (concat recs).

Lemma pend_upd x l i p : i < length l ->
  pend x (upd l i p) + occ x (todo (nth i l Exited)) = pend x l + occ x (todo p).
Proof.
  revert i. induction l as [|q l IH]; intros [|i] Hi; cbn in Hi; try lia.
  - unfold pend. cbn [upd nth map lsum]. lia.
  - cbn [upd nth]. unfold pend in *. cbn [map lsum]. specialize (IH i ltac:(lia)). lia.
Qed.

Lemma pend_repeat_idle x n : pend x (repeat Idle n) = 0.
Proof. induction n as [|n IH]; [reflexivity|]. unfold pend in *. cbn [repeat map lsum todo]. rewrite IH. reflexivity. Qed.

Lemma unread_take x n items : nth_error recs n = Some items -> unread x n = occ x items + unread x (S n).
Proof.
  intros H. unfold unread.
  assert (Hs : skipn n recs = items :: skipn (S n) recs).
  { revert n H. induction recs as [|r l IH]; intros [|n] H; cbn in H; try discriminate.
    - inversion H. reflexivity.
    - cbn [skipn]. apply IH. exact H. }
  rewrite Hs. cbn [concat]. apply count_occ_app.
Qed.

Definition Inv (s : st) : Prop :=
  length (pcs s) = W /\
  (forall x, occ x (out s) + pend x (pcs s) + unread x (next s) = all x) /\
  (forall i, i < W -> nth i (pcs s) Idle = Exited -> length recs <= next s).

Lemma inv_init : Inv init.
Proof.
  unfold Inv, init; cbn [next pcs out]. rewrite repeat_length. split; [reflexivity|]. split.
  - intros x. rewrite pend_repeat_idle. unfold unread, all. cbn [skipn]. unfold occ. cbn [count_occ]. lia.
  - intros i Hi H. rewrite (nth_rep Idle W i Idle Hi) in H. discriminate.
Qed.

Lemma inv_step s i : Inv s -> Inv (step s i).
Proof.
  intros HI. pose proof HI as (Hl & Hc & He). unfold step.
  destruct (i <? W) eqn:Hi; cbn [negb]; [|exact HI]. apply Nat.ltb_lt in Hi.
  assert (Hil : i < length (pcs s)) by lia.
  destruct (nth i (pcs s) Exited) as [|[|x t]|] eqn:Hp.
  - destruct (nth_error recs (next s)) as [items|] eqn:Hn.
    + unfold Inv; cbn [next pcs out]. rewrite upd_length. split; [exact Hl|]. split.
      * intros x. pose proof (pend_upd x (pcs s) i (Holding items) Hil) as Hu. rewrite Hp in Hu. cbn [todo] in Hu.
        specialize (Hc x). rewrite (unread_take x _ _ Hn) in Hc. change (occ x []) with 0 in Hu. lia.
      * intros j Hj Hx. destruct (Nat.eq_dec i j) as [<-|Hij].
        -- rewrite nth_upd_eq in Hx by exact Hil. discriminate.
        -- rewrite nth_upd_neq in Hx by exact Hij. specialize (He j Hj Hx). lia.
    + unfold Inv; cbn [next pcs out]. rewrite upd_length. split; [exact Hl|]. split.
      * intros x. pose proof (pend_upd x (pcs s) i Exited Hil) as Hu. rewrite Hp in Hu. cbn [todo] in Hu.
        specialize (Hc x). lia.
      * intros j Hj Hx. destruct (Nat.eq_dec i j) as [<-|Hij].
        -- apply nth_error_None. exact Hn.
        -- rewrite nth_upd_neq in Hx by exact Hij. apply (He j); assumption.
  - unfold Inv; cbn [next pcs out]. rewrite upd_length. split; [exact Hl|]. split.
    + intros x. pose proof (pend_upd x (pcs s) i Idle Hil) as Hu. rewrite Hp in Hu. cbn [todo] in Hu.
      change (occ x []) with 0 in Hu. specialize (Hc x). lia.
    + intros j Hj Hx. destruct (Nat.eq_dec i j) as [<-|Hij].
      * rewrite nth_upd_eq in Hx by exact Hil. discriminate.
      * rewrite nth_upd_neq in Hx by exact Hij. apply (He j); assumption.
  - unfold Inv; cbn [next pcs out]. rewrite upd_length. split; [exact Hl|]. split.
    + intros y. pose proof (pend_upd y (pcs s) i (Holding t) Hil) as Hu. rewrite Hp in Hu. cbn [todo] in Hu.
      specialize (Hc y). unfold occ in *. rewrite count_occ_app. cbn [count_occ] in *. destruct (X_dec x y); lia.
    + intros j Hj Hx. destruct (Nat.eq_dec i j) as [<-|Hij].
      * rewrite nth_upd_eq in Hx by exact Hil. discriminate.
      * rewrite nth_upd_neq in Hx by exact Hij. apply (He j); assumption.
  - exact HI.
Qed.

Lemma inv_exec sched : Inv (exec sched).
Proof.
  unfold exec. generalize inv_init. generalize init.
  induction sched as [|i t IH]; intros s Hs; cbn [fold_left]; [exact Hs|].
  apply IH. apply inv_step. exact Hs.
Qed.

Lemma pend_all_exited x l : (forall i, i < length l -> nth i l Idle = Exited) -> pend x l = 0.
Proof.
  induction l as [|p l IH]; intros H; [reflexivity|]. unfold pend in *. cbn [map lsum].
  rewrite IH by (intros i Hi; apply (H (S i)); cbn; lia).
  specialize (H 0 ltac:(cbn; lia)). cbn in H. subst p. reflexivity.
Qed.

(* every item of every record is emitted exactly as often as it occurs: the output is a permutation
   of all items, whatever the interleaving and the number of workers *)
Theorem items_exact sched : complete (exec sched) -> forall x, occ x (out (exec sched)) = all x.
Proof.
  intros Hc x. destruct (inv_exec sched) as (Hl & Hcnt & He). specialize (Hcnt x).
  rewrite (pend_all_exited x) in Hcnt by (intros i Hi; apply Hc; lia).
  pose proof (He 0 ltac:(lia) (Hc 0 ltac:(lia))) as Hn.
  unfold unread in Hcnt. rewrite skipn_all2 in Hcnt by exact Hn. cbn [concat] in Hcnt. change (occ x []) with 0 in Hcnt. lia.
Qed.
End Items.
Check items_exact.
Print Assumptions items_exact.
