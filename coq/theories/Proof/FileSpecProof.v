(* file-level model = spec for cov and min (the oligo and ctr cases are in PipelineProof / CountProof):
   closes the chain implementation ~ model = spec for every op the correspondences compare *)
From Coq Require Import ZArith NArith List Lia Bool Arith.
From KT Require Import Gen.Generated Gen.Alphabet Model.Kmer Model.Show Model.Ops Model.Rows Model.Pipeline.
From KT Require Import Proof.KmerProof Proof.MinAbs Proof.MinSpec Proof.MinConc Proof.MinExt Proof.MinFast Proof.RowsProof Proof.PipelineProof Proof.CountProof.
Import ListNotations.
Open Scope N_scope.

Definition decodes (nt : N -> N) (recs : list (list N)) : Prop := Forall (Forall (fun b => nt b = digit_of_letter b)) recs.

Theorem cov_model_spec k bs bc norm delim mem recs alt : (1 <= k <= 31)%nat -> (1 <= bc)%nat ->
  decodes nt4k recs -> decodes nt4k alt ->
  m_cov k bs bc norm delim mem recs alt = s_cov k bs bc norm delim recs alt.
Proof.
  intros Hk Hbc Hr Ha. rewrite cov_batch_any_limit. unfold s_cov.
  assert (Ht : count_table k alt = count_table_spec k alt).
  { unfold count_table, count_table_spec. now rewrite (all_canon_model_spec k alt Hk Ha). }
  rewrite Ht. f_equal. apply map_ext_in. intros s Hs.
  unfold cov_row_bytes, cov_row_bytes_spec. unfold decodes in Hr. rewrite Forall_forall in Hr.
  destruct (cov_counts_spec_eq k bs bc (count_table_spec k alt) s Hk Hbc (Hr s Hs)) as [-> ->]. reflexivity.
Qed.

Section Min.
Variables w m : nat.
Hypothesis Hm1 : (1 <= m)%nat.
Hypothesis Hm31 : (m <= 31)%nat.
Hypothesis Hw : (w = 0 \/ m <= w)%nat.

Lemma runs_model_spec s : Forall (fun b => nt4m b = digit_of_letter b) s -> rec_runs w m s = rec_runs_spec w m s.
Proof.
  intros Hs. unfold rec_runs, rec_runs_spec. rewrite spec_runs_fast_eq.
  assert (He : (1 <= m <= eff_w w m s)%nat).
  { unfold eff_w. destruct (Nat.eqb_spec w 0); lia. }
  rewrite (mg_run_grp nt4m (eff_w w m s) m He Hm31 s).
  apply (grp_go_ext_bytes nt4m digit_of_letter (eff_w w m s) m (fun b => nt4m b = digit_of_letter b) s Hs). auto.
Qed.

Lemma text_model_spec : letters = [65; 67; 71; 84] -> forall x, kmer_text m x = s_dec m x.
Proof. intros Hl x. unfold kmer_text, s_dec, acgt. rewrite Hl. reflexivity. Qed.

Lemma number_map_ext {A B} (f g : nat * A -> B) (l : list A) : forall i,
  (forall j x, In x l -> f (j, x) = g (j, x)) -> map f (number i l) = map g (number i l).
Proof.
  induction l as [|x t IH]; intros i H; [reflexivity|]. cbn [number map].
  rewrite (H i x (or_introl eq_refl)), (IH (S i)); [reflexivity|]. intros j y Hy. apply H. now right.
Qed.

Theorem s2m_model_spec recs : letters = [65; 67; 71; 84] -> decodes nt4m recs -> m_s2m w m recs = s_s2m w m recs.
Proof.
  intros Hl Hr. unfold m_s2m, s_s2m, s2m_lines. f_equal. apply number_map_ext. intros j s Hs. cbn [fst snd].
  unfold decodes in Hr. rewrite Forall_forall in Hr. rewrite (runs_model_spec s (Hr s Hs)).
  rewrite (map_ext (show_s2m_run kmer_text m) (show_s2m_run s_dec m)); [reflexivity|].
  intros [[v a] b]. unfold show_s2m_run. now rewrite (text_model_spec Hl).
Qed.

Lemma entries_model_spec recs : decodes nt4m recs -> m2s_entries (rec_runs w m) recs = m2s_entries (rec_runs_spec w m) recs.
Proof.
  intros Hr. unfold m2s_entries. generalize 0%nat. induction recs as [|s t IH]; intros i; [reflexivity|].
  cbn [number flat_map fst snd]. inversion Hr as [|? ? Hs Ht]; subst. rewrite (runs_model_spec s Hs). f_equal. apply IH. exact Ht.
Qed.

Theorem m2s_model_spec recs : letters = [65; 67; 71; 84] -> decodes nt4m recs -> m_m2s w m recs = s_m2s w m recs.
Proof.
  intros Hl Hr. unfold m_m2s, s_m2s, m2s_lines. rewrite (entries_model_spec recs Hr).
  apply (f_equal (join semi)). apply map_ext. intros v. now rewrite (text_model_spec Hl).
Qed.
End Min.
