(* C06, end to end on the executable reader model: reading the byte stream of a printed well-formed record
   list returns exactly the records *)
From Coq Require Import NArith List Lia Bool String.
From KT Require Import Gen.Generated Model.Show Model.Reader Proof.Fasta Proof.Fastq.
Import ListNotations.
Open Scope N_scope.
Notation length := List.length.

Definition stream (bodies : list (list N)) (last : list N) : list N :=
  List.concat (map (fun b => b ++ [LF]) bodies) ++ last.
Definition stream_lines (bodies : list (list N)) (last : list N) : list (list N) :=
  map (fun b => b ++ [LF]) bodies ++ match last with [] => [] | _ => [last] end.

Theorem parse_stream_fasta rs bodies last :
  Forall wf_rec rs -> Forall (fun b => ~ In LF b) bodies -> ~ In LF last ->
  printed rs (stream_lines bodies last) ->
  parse Fasta (stream bodies last) = Ok (map (fun r => (rid r, rseq r)) rs).
Proof.
  intros Hw Hb Hl Hp. unfold parse, stream. rewrite (lines_concat bodies last Hb Hl).
  apply parse_printed; [exact Hw|exact Hp|]. unfold stream_lines. lia.
Qed.

Theorem parse_stream_fastq rs bodies last :
  Forall wf_recq rs -> Forall (fun b => ~ In LF b) bodies -> ~ In LF last ->
  printed_qs rs (stream_lines bodies last) ->
  parse Fastq (stream bodies last) = Ok (map (fun r => (qid r, qseq r)) rs).
Proof.
  intros Hw Hb Hl Hp. unfold parse, stream. rewrite (lines_concat bodies last Hb Hl).
  apply parse_printed_q; [exact Hw|exact Hp|]. unfold stream_lines. lia.
Qed.

(* the whole model: whatever the path's documented suffix says the format is, and however the stream was cut
   into gzip members, the reader returns the generating records, numbered, with matching statistics *)
Theorem read_printed_fasta path ms rs bodies last :
  format_of path = Some Fasta -> List.concat ms = stream bodies last ->
  Forall wf_rec rs -> Forall (fun b => ~ In LF b) bodies -> ~ In LF last ->
  printed rs (stream_lines bodies last) ->
  m_read path ms = s_read (str "fa"%string) (map (fun r => (rid r, rseq r)) rs).
Proof.
  intros Hf Hc Hw Hb Hl Hp. unfold m_read, file_content. rewrite Hf, Hc, (parse_stream_fasta rs bodies last Hw Hb Hl Hp).
  reflexivity.
Qed.

Theorem read_printed_fastq path ms rs bodies last :
  format_of path = Some Fastq -> List.concat ms = stream bodies last ->
  Forall wf_recq rs -> Forall (fun b => ~ In LF b) bodies -> ~ In LF last ->
  printed_qs rs (stream_lines bodies last) ->
  m_read path ms = s_read (str "fq"%string) (map (fun r => (qid r, qseq r)) rs).
Proof.
  intros Hf Hc Hw Hb Hl Hp. unfold m_read, file_content. rewrite Hf, Hc, (parse_stream_fastq rs bodies last Hw Hb Hl Hp).
  reflexivity.
Qed.
