(* an executable form of the grouped-minima specification that carries the position and the length of the
   trailing clean stretch instead of recomputing `length r` and `tcl r` at every byte (quadratic on long
   records); proved equal to grp_go *)
From Coq Require Import ZArith NArith List Lia Bool Arith.
From KT Require Import Model.Kmer Proof.MinAbs Proof.MinSpec.
Import ListNotations.
Open Scope N_scope.

Section Fast.
Variable nt4 : N -> N.
Variables w m : nat.
Let L := (w - m + 1)%nat.

Fixpoint grp_fast (cur : option (N * nat)) (r : list N) (pos tc : nat) (rest : list N) : list out :=
  match rest with
  | [] => close cur pos
  | b :: t =>
    let tc' := if clean nt4 b then S tc else 0%nat in
    match (if (w <=? tc')%nat then Some (lmin (mvals nt4 m L (b :: r))) else None) with
    | None => close cur pos ++ grp_fast None (b :: r) (S pos) tc' t
    | Some mv =>
      match cur with
      | Some (v, s) => if N.eqb mv v then grp_fast cur (b :: r) (S pos) tc' t
                       else (v, s, pos) :: grp_fast (Some (mv, (pos + 1 - w)%nat)) (b :: r) (S pos) tc' t
      | None => grp_fast (Some (mv, (pos + 1 - w)%nat)) (b :: r) (S pos) tc' t
      end
    end
  end.

Theorem grp_fast_eq rest : forall cur r pos tc, pos = length r -> tc = tcl nt4 r ->
  grp_fast cur r pos tc rest = grp_go nt4 w m cur r rest.
Proof.
  induction rest as [|b t IH]; intros cur r pos tc Hp Ht; cbn [grp_fast grp_go]; [now subst|].
  assert (Etc : (if clean nt4 b then S tc else 0%nat) = tcl nt4 (b :: r)) by (cbn [tcl]; now subst tc).
  assert (Ew : (if (w <=? (if clean nt4 b then S tc else 0))%nat then Some (lmin (mvals nt4 m L (b :: r))) else None)
               = win_of nt4 w m (b :: r)).
  { unfold win_of. rewrite Etc. reflexivity. }
  rewrite Ew. subst pos.
  assert (Hn : forall cur', grp_fast cur' (b :: r) (S (length r)) (if clean nt4 b then S tc else 0%nat) t = grp_go nt4 w m cur' (b :: r) t).
  { intros cur'. apply IH; [reflexivity|exact Etc]. }
  destruct (win_of nt4 w m (b :: r)) as [mv|]; [|now rewrite Hn].
  destruct cur as [[v s]|]; [|apply Hn]. destruct (N.eqb mv v); [apply Hn|]. f_equal. apply Hn.
Qed.

Definition spec_runs_fast (s : list N) : list out := grp_fast None [] 0 0 s.
Corollary spec_runs_fast_eq s : spec_runs_fast s = grp_go nt4 w m None [] s.
Proof. apply grp_fast_eq; reflexivity. Qed.
End Fast.
