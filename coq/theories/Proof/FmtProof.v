(* C04 / C14: a normalised entry count / total with count <= total is printed by {:.6} with exactly 8 characters:
   the binary64 quotient lies in [0, 1], so its value times 10^6, rounded half to even, is at most 10^6.
   (Flocq's Bdiv_correct: depends on the four real-number axioms.) *)
From Coq Require Import ZArith NArith Reals Lra Lia List.
From Flocq Require Import Core IEEE754.BinarySingleNaN IEEE754.Binary IEEE754.Bits.
From KT Require Import Model.Flt Model.Show Proof.InSquare Proof.CgrFloat.
Open Scope R_scope.

Lemma rnd_1 : rnd 1 = 1.
Proof. apply round_generic; [apply valid_rnd_N|]. replace 1 with (IZR 1) by reflexivity. apply int_format. cbn. lia. Qed.

(* the quotient of two integers 0 <= c <= t, 1 <= t < 2^53, as a binary64: finite and in [0, 1] *)
Lemma fdiv_unit (c t : Z) : (0 <= c <= t)%Z -> (1 <= t < 2 ^ 53)%Z ->
  is_finite 53 1024 (fdiv c t) = true /\ 0 <= B2R 53 1024 (fdiv c t) <= 1.
Proof.
  intros Hc Ht. unfold fdiv, b64_div. fold Hp53 Hpe.
  destruct (b64_of_Z_val c ltac:(lia)) as [Vc Fc]. destruct (b64_of_Z_val t ltac:(lia)) as [Vt Ft].
  pose proof (Bdiv_correct 53 1024 Hp53 Hpe binop_nan_pl64 mode_NE (b64_of_Z c) (b64_of_Z t)) as Hd.
  rewrite Vt in Hd. assert (Ht0 : IZR t <> 0) by (apply not_0_IZR; lia). specialize (Hd Ht0).
  cbn [round_mode] in Hd. rewrite Vc in Hd.
  assert (Hq : 0 <= IZR c / IZR t <= 1).
  { assert (0 < IZR t) by (apply IZR_lt; lia). assert (0 <= IZR c) by (apply IZR_le; lia).
    assert (IZR c <= IZR t) by (apply IZR_le; lia). split.
    - apply Rmult_le_pos; [assumption|]. left. now apply Rinv_0_lt_compat.
    - apply (Rmult_le_reg_r (IZR t)); [assumption|]. unfold Rdiv. rewrite Rmult_assoc, Rinv_l by assumption. lra. }
  assert (Hr : 0 <= rnd (IZR c / IZR t) <= 1).
  { split; [rewrite <- rnd_0; apply rnd_le; lra|rewrite <- rnd_1; apply rnd_le; lra]. }
  rewrite Rlt_bool_true in Hd.
  - destruct Hd as (Hv & Hf & _). split; [rewrite Hf; exact Fc|rewrite Hv; exact Hr].
  - rewrite Rabs_pos_eq by lra. apply Rle_lt_trans with 1; [lra|].
    change (bpow radix2 1024) with (IZR (2 ^ 1024)). apply IZR_lt. reflexivity.
Qed.

(* value * 10^6 rounded half to even is at most 10^6 for a finite binary64 in [0, 1] *)
Lemma fmt6_unit (x : binary64) : is_finite 53 1024 x = true -> 0 <= B2R 53 1024 x <= 1 ->
  exists n, fmt6 x = Some n /\ (0 <= n <= 1000000)%Z.
Proof.
  intros Hf [H0 H1]. destruct x as [s|s| |s m e Hb]; try discriminate.
  - exists 0%Z. split; [reflexivity|clear; lia].
  - cbn [B2R] in H0, H1. unfold F2R in H0, H1. cbn [Fnum Fexp] in H0, H1.
    destruct s.
    + (* negative mantissa contradicts 0 <= value *)
      exfalso. cbn [cond_Zopp Z.opp] in H0. assert (Hb0 : 0 < bpow radix2 e) by apply bpow_gt_0.
      assert (Hneg : IZR (Z.neg m) < 0) by (apply IZR_lt; reflexivity).
      assert (IZR (Z.neg m) * bpow radix2 e < 0).
      { rewrite <- (Rmult_0_l (bpow radix2 e)). apply Rmult_lt_compat_r; assumption. }
      lra.
    + cbn [cond_Zopp] in H1. unfold fmt6.
      assert (Hm : (1 <= Z.pos m)%Z) by lia.
      destruct (Z.leb_spec 0 e) as [He|He].
      * (* e >= 0: m * 2^e <= 1 forces m = 1, e = 0 *)
        assert (Hle : (Z.pos m * 2 ^ e <= 1)%Z).
        { rewrite <- (IZR_Zpower radix2 e He) in H1. rewrite <- mult_IZR in H1. apply le_IZR in H1. exact H1. }
        assert (Hp : (1 <= 2 ^ e)%Z) by (apply Z.pow_le_mono_r with (b := 0%Z) (c := e) (a := 2%Z) in He; lia).
        exists (Z.pos m * 1000000 * 2 ^ e)%Z. split; [reflexivity|nia].
      * (* e < 0: m <= 2^(-e) *)
        assert (Hd : (0 < 2 ^ (- e))%Z) by (apply Z.pow_pos_nonneg; lia).
        assert (Hle : (Z.pos m <= 2 ^ (- e))%Z).
        { apply le_IZR. change (2 ^ (- e))%Z with (radix2 ^ (- e))%Z. rewrite (IZR_Zpower radix2 (- e) ltac:(lia)).
          apply (Rmult_le_reg_r (bpow radix2 e)); [apply bpow_gt_0|].
          rewrite <- bpow_plus. replace (- e + e)%Z with 0%Z by lia. cbn [bpow]. exact H1. }
        set (d := (2 ^ (- e))%Z) in *. set (n := (Z.pos m * 1000000)%Z).
        assert (Hn : (0 <= n <= 1000000 * d)%Z) by (unfold n; nia).
        pose proof (Z.div_mod n d ltac:(lia)) as Hdm. pose proof (Z.mod_pos_bound n d Hd) as Hmod.
        assert (Hq : (0 <= n / d <= 1000000)%Z).
        { split; [apply Z.div_pos; lia|]. apply Z.div_le_upper_bound; lia. }
        destruct (Z.ltb_spec d (2 * (n mod d))) as [Hlt|Hge].
        -- exists (n / d + 1)%Z. split; [reflexivity|]. assert ((n / d < 1000000)%Z) by nia. lia.
        -- destruct (Z.eqb_spec d (2 * (n mod d))) as [Heq|Hne].
           ++ destruct (Z.even (n / d)).
              ** exists (n / d)%Z. split; [reflexivity|lia].
              ** exists (n / d + 1)%Z. split; [reflexivity|]. assert ((n / d < 1000000)%Z) by nia. lia.
           ++ exists (n / d)%Z. split; [reflexivity|lia].
Qed.

(* the printed frequency has exactly 8 characters *)
Theorem norm6_width (c t : Z) : (0 <= c <= t)%Z -> (1 <= t < 2 ^ 53)%Z ->
  exists n, norm6 c t = Some n /\ (0 <= n <= 1000000)%Z.
Proof.
  intros Hc Ht. unfold norm6. destruct (fdiv_unit c t Hc Ht) as [Hf Hv]. exact (fmt6_unit _ Hf Hv).
Qed.
