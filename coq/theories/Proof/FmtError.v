(* C04 / C08: "correct to 6 decimals".  The printed frequency of count c out of total t (0 <= c <= t < 2^53) is
   n / 10^6 where n = fmt6 (fdiv c t); it differs from the exact quotient c / t by at most half a unit of the
   sixth decimal plus the rounding error of the one binary64 division (at most 2^-53).
   (Flocq's Bdiv_correct / error_le_half_ulp: depends on the four real-number axioms.) *)
From Coq Require Import ZArith NArith Reals Lra Lia List.
From Flocq Require Import Core IEEE754.BinarySingleNaN IEEE754.Binary IEEE754.Bits.
From KT Require Import Model.Flt Model.Show Proof.InSquare Proof.CgrFloat Proof.FmtProof.
Open Scope R_scope.

Lemma some_inj {A} (a b : A) : Some a = Some b -> a = b.
Proof. congruence. Qed.

(* fmt6 rounds value * 10^6 to a nearest integer *)
Lemma fmt6_error (x : binary64) n : fmt6 x = Some n -> Rabs (IZR n - B2R 53 1024 x * 1000000) <= / 2.
Proof.
  destruct x as [s|s| |s m e Hb]; cbv beta iota zeta delta [fmt6]; try discriminate.
  - intros H. apply some_inj in H; subst n. cbn [B2R]. rewrite Rmult_0_l, Rminus_0_r, Rabs_R0. lra.
  - destruct s; [discriminate|]. cbn [B2R]. unfold F2R. cbn [Fnum Fexp cond_Zopp].
    destruct (Z.leb_spec 0 e) as [He|He].
    + intros H. apply some_inj in H; subst n. rewrite !mult_IZR. change (2 ^ e)%Z with (radix2 ^ e)%Z. rewrite (IZR_Zpower radix2 e He).
      replace (IZR (Z.pos m) * 1000000 * bpow radix2 e - IZR (Z.pos m) * bpow radix2 e * 1000000) with 0 by ring.
      rewrite Rabs_R0. lra.
    + set (d := (2 ^ (- e))%Z). set (N := (Z.pos m * 1000000)%Z).
      assert (Hd : (0 < d)%Z) by (apply Z.pow_pos_nonneg; lia).
      assert (Hbp : bpow radix2 e = / IZR d).
      { unfold d. change (2 ^ (- e))%Z with (radix2 ^ (- e))%Z. rewrite (IZR_Zpower radix2 (- e) ltac:(lia)).
        rewrite bpow_opp, Rinv_inv. reflexivity. }
      assert (HdR : 0 < IZR d) by (apply IZR_lt; exact Hd).
      pose proof (Z.div_mod N d ltac:(lia)) as Hdm. pose proof (Z.mod_pos_bound N d Hd) as Hmod.
      set (q := (N / d)%Z) in *. set (r := (N mod d)%Z) in *.
      assert (Hv : IZR (Z.pos m) * bpow radix2 e * 1000000 = IZR q + IZR r / IZR d).
      { rewrite Hbp. replace (IZR (Z.pos m) * / IZR d * 1000000) with (IZR N / IZR d) by (unfold N; rewrite mult_IZR; field; lra).
        rewrite Hdm, plus_IZR, mult_IZR. field. lra. }
      rewrite Hv.
      assert (Hr : 0 <= IZR r / IZR d < 1).
      { split.
        - apply Rmult_le_pos; [apply IZR_le; lia|left; now apply Rinv_0_lt_compat].
        - apply (Rmult_lt_reg_r (IZR d)); [assumption|]. unfold Rdiv. rewrite Rmult_assoc, Rinv_l by lra.
          rewrite Rmult_1_r, Rmult_1_l. apply IZR_lt. lia. }
      assert (Hhalf : forall b : bool, (if b then d < 2 * r else 2 * r <= d)%Z ->
                      if b then / 2 < IZR r / IZR d else IZR r / IZR d <= / 2).
      { intros [|] Hc.
        - apply (Rmult_lt_reg_r (IZR d)); [assumption|]. unfold Rdiv. rewrite Rmult_assoc, Rinv_l by lra.
          apply IZR_lt in Hc. rewrite mult_IZR in Hc. lra.
        - apply (Rmult_le_reg_r (IZR d)); [assumption|]. unfold Rdiv. rewrite Rmult_assoc, Rinv_l by lra.
          apply IZR_le in Hc. rewrite mult_IZR in Hc. lra. }
      destruct (Z.ltb_spec d (2 * r)) as [Hlt|Hge].
      * intros H. apply some_inj in H; subst n. rewrite plus_IZR. pose proof (Hhalf true Hlt) as Hh. cbn in Hh.
        apply Rabs_le. lra.
      * pose proof (Hhalf false Hge) as Hh. cbn in Hh.
        destruct (Z.eqb_spec d (2 * r)) as [Heq|Hne].
        -- destruct (Z.even q); intros H; apply some_inj in H; subst n.
           ++ apply Rabs_le. lra.
           ++ assert (IZR r / IZR d = / 2).
              { apply (Rmult_eq_reg_r (IZR d)); [|lra]. unfold Rdiv. rewrite Rmult_assoc, Rinv_l by lra.
                apply (f_equal IZR) in Heq. rewrite mult_IZR in Heq. lra. }
              rewrite plus_IZR. apply Rabs_le. lra.
        -- intros H. apply some_inj in H; subst n. apply Rabs_le. lra.
Qed.

Lemma ulp_unit x : 0 <= x <= 1 -> ulp radix2 fexp x <= bpow radix2 (-52).
Proof.
  intros Hx.
  assert (Hu1 : ulp radix2 fexp 1 = bpow radix2 (-52)).
  { rewrite ulp_neq_0 by lra. unfold cexp. replace (mag radix2 1 : Z) with 1%Z; [reflexivity|].
    symmetry. apply mag_unique. cbn. rewrite Rabs_pos_eq by lra. lra. }
  rewrite <- Hu1. apply ulp_le; try typeclasses eauto.
  rewrite !Rabs_pos_eq by lra. lra.
Qed.

(* one division: the binary64 quotient is within 2^-53 of the exact quotient *)
Lemma fdiv_error (c t : Z) : (0 <= c <= t)%Z -> (1 <= t < 2 ^ 53)%Z ->
  Rabs (B2R 53 1024 (fdiv c t) - IZR c / IZR t) <= bpow radix2 (-53).
Proof.
  intros Hc Ht. unfold fdiv, b64_div. fold Hp53 Hpe.
  destruct (b64_of_Z_val c ltac:(lia)) as [Vc Fc]. destruct (b64_of_Z_val t ltac:(lia)) as [Vt Ft].
  pose proof (Bdiv_correct 53 1024 Hp53 Hpe binop_nan_pl64 mode_NE (b64_of_Z c) (b64_of_Z t)) as Hd.
  rewrite Vt in Hd. assert (Ht0 : IZR t <> 0) by (apply not_0_IZR; lia). specialize (Hd Ht0).
  cbn [round_mode] in Hd. rewrite Vc in Hd.
  assert (Hq : 0 <= IZR c / IZR t <= 1).
  { assert (0 < IZR t) by (apply IZR_lt; lia). assert (0 <= IZR c) by (apply IZR_le; lia).
    assert (IZR c <= IZR t) by (apply IZR_le; lia). split.
    - apply Rmult_le_pos; [assumption|]. left. now apply Rinv_0_lt_compat.
    - apply (Rmult_le_reg_r (IZR t)); [assumption|]. unfold Rdiv. rewrite Rmult_assoc, Rinv_l by assumption. lra. }
  assert (Hr : 0 <= rnd (IZR c / IZR t) <= 1).
  { split; [rewrite <- rnd_0; apply rnd_le; lra|rewrite <- rnd_1; apply rnd_le; lra]. }
  rewrite Rlt_bool_true in Hd.
  - destruct Hd as (Hv & _). rewrite Hv.
    eapply Rle_trans; [apply error_le_half_ulp; typeclasses eauto|].
    pose proof (ulp_unit _ Hq) as Hu.
    replace (bpow radix2 (-53)) with (/ 2 * bpow radix2 (-52)).
    + apply Rmult_le_compat_l; [lra|exact Hu].
    + change (-52)%Z with (1 + -53)%Z. rewrite bpow_plus. cbn [bpow Z.pow_pos Pos.iter]. simpl. lra.
  - rewrite Rabs_pos_eq by lra. apply Rle_lt_trans with 1; [lra|].
    change (bpow radix2 1024) with (IZR (2 ^ 1024)). apply IZR_lt. reflexivity.
Qed.

(* the printed value n / 10^6 against the exact quotient *)
Theorem norm6_error (c t : Z) : (0 <= c <= t)%Z -> (1 <= t < 2 ^ 53)%Z ->
  exists n, norm6 c t = Some n /\ (0 <= n <= 1000000)%Z /\
    Rabs (IZR n / 1000000 - IZR c / IZR t) <= / 2000000 + bpow radix2 (-53).
Proof.
  intros Hc Ht. destruct (norm6_width c t Hc Ht) as (n & Hn & Hb). exists n. split; [exact Hn|split; [exact Hb|]].
  unfold norm6 in Hn. pose proof (fmt6_error _ _ Hn) as H1. pose proof (fdiv_error c t Hc Ht) as H2.
  set (x := B2R 53 1024 (fdiv c t)) in *. set (y := IZR c / IZR t) in *.
  replace (IZR n / 1000000 - y) with ((IZR n - x * 1000000) / 1000000 + (x - y)) by (field).
  eapply Rle_trans; [apply Rabs_triang|]. apply Rplus_le_compat; [|exact H2].
  unfold Rdiv. rewrite Rabs_mult, (Rabs_pos_eq (/ 1000000)) by lra.
  replace (/ 2000000) with (/ 2 * / 1000000) by lra. apply Rmult_le_compat_r; [lra|exact H1].
Qed.

(* the same for the text of a normalised vector entry: it is the 6-decimal rendering of an n within the bound of
   the exact fraction count / max(1, total) *)
From KT Require Import Model.Rows.
Theorem entry_text_correct t c : (c <= Nat.max 1 t)%nat -> (Z.of_nat (Nat.max 1 t) < 2 ^ 53)%Z ->
  exists n, entry_text true t c = fix6 n /\ (n <= 1000000)%N /\
    (Rabs (IZR (Z.of_N n) / 1000000 - IZR (Z.of_nat c) / IZR (Z.of_nat (Nat.max 1 t))) <= / 2000000 + bpow radix2 (-53))%R.
Proof.
  intros Hc Ht. unfold entry_text, denom.
  assert (Hd : Z.max 1 (Z.of_nat t) = Z.of_nat (Nat.max 1 t)) by lia.
  rewrite Hd.
  destruct (norm6_error (Z.of_nat c) (Z.of_nat (Nat.max 1 t)) ltac:(lia) ltac:(lia)) as (n & -> & Hn & He).
  exists (Z.to_N n). split; [reflexivity|split; [lia|]]. rewrite Z2N.id by lia. exact He.
Qed.

(* 1/2000000 + 2^-53 < 0.00000051: the printed value is the exact fraction to 6 decimals *)
Lemma bound_small : (/ 2000000 + bpow radix2 (-53) < 51 / 100000000)%R.
Proof. cbn [bpow Z.pow_pos Pos.iter]. simpl. lra. Qed.
