(* C07: the counting loop terminates.  With one worker (the schedule 0,0,0,...) every run reaches the final state
   within a number of steps that is linear in the input; together with count_exact this makes the hypothesis
   `fin = true` of the exactness theorem satisfiable for EVERY input, and it covers the executable instance used
   by the file-level cases (Model/CtrFs.v, passes). *)
From Coq Require Import NArith List Lia Bool Arith.
From Coq Require Import ZifyN ZifyNat ZifyBool.
From KT Require Import Proof.Sched Proof.CountSched.
Import ListNotations.

Section Live.
Variable recs : list (list N * N).
Variable limit : N.
Notation step1 := (step recs 1 limit).

Definition cost (j : nat) : nat := fold_right (fun r a => length (fst r) + 6 + a) 0 (skipn j recs).
Lemma cost_some j ks len : nth_error recs j = Some (ks, len) -> cost j = length ks + 6 + cost (S j).
Proof.
  unfold cost. revert j. induction recs as [|r l IH]; intros [|j] H; cbn in H; try discriminate.
  - inversion H; subst. reflexivity.
  - cbn [skipn]. apply IH. exact H.
Qed.

Definition phi (s : st) : nat :=
  cost (next s) +
  match pcs s with
  | [Idle] => if Nat.eqb (taken s) 0 then 2 else 4
  | [Checked] => if Nat.eqb (taken s) 0 then 1 else 3
  | [Holding _ t] => 5 + length t
  | _ => 0
  end.

Definition J (s : st) : Prop :=
  (exists p, pcs s = [p] /\ p <> Exited /\ (forall len t, p = Holding len t -> taken s > 0)) /\
  (taken s = 0 -> total s = 0%N).

Lemma J_init : J (init 1).
Proof. split; [exists Idle; repeat split; [discriminate|discriminate]|reflexivity]. Qed.

Lemma step_progress s : J s -> fin s = false ->
  fin (step1 s 0) = true \/ (J (step1 s 0) /\ fin (step1 s 0) = false /\ phi (step1 s 0) < phi s).
Proof.
  intros [(p & Hp & Hne & Hh) Ht] Hf. unfold step. rewrite Hf. cbn [orb Nat.ltb Nat.leb negb].
  unfold wstep. rewrite Hp. cbn [nth].
  destruct p as [| |len t|]; [| | |congruence].
  - (* Idle: the check *)
    destruct (N.ltb_spec limit (total s)) as [Hl|Hl].
    + (* over the limit: exit, end of the pass; a record was taken (total > 0), so a new pass starts *)
      assert (Htk : taken s <> 0) by (intro E; rewrite (Ht E) in Hl; lia).
      unfold set, boundary. rewrite Hp. cbn [upd pcs all_exited forallb andb taken next bag total done fin].
      destruct (Nat.eqb_spec (taken s) 0) as [E|_]; [contradiction|]. right. split; [|split].
      * split; [exists Idle; cbn [pcs repeat]; repeat split; discriminate|reflexivity].
      * reflexivity.
      * unfold phi. cbn [pcs next taken repeat]. rewrite Hp. destruct (Nat.eqb_spec (taken s) 0); [contradiction|]. cbn. lia.
    + unfold set, boundary. rewrite Hp. cbn [upd pcs all_exited forallb andb]. right. split; [|split].
      * split; [exists Checked; cbn [pcs]; repeat split; discriminate|exact Ht].
      * exact Hf.
      * unfold phi. cbn [pcs next taken]. rewrite Hp. destruct (Nat.eqb (taken s) 0); lia.
  - (* Checked: take a record or find none *)
    destruct (nth_error recs (next s)) as [[ks len]|] eqn:Hn.
    + unfold boundary. try rewrite Hp. cbn [upd pcs all_exited forallb andb]. right. split; [|split].
      * split; [exists (Holding len ks); cbn [pcs taken]; repeat split; [discriminate|intros; lia]|cbn [taken]; lia].
      * exact Hf.
      * unfold phi. cbn [pcs next taken]. rewrite Hp, (cost_some _ _ _ Hn). destruct (Nat.eqb (taken s) 0); lia.
    + unfold set, boundary. rewrite Hp. cbn [upd pcs all_exited forallb andb taken next bag total done fin].
      destruct (Nat.eqb_spec (taken s) 0) as [E|E]; [left; reflexivity|]. right. split; [|split].
      * split; [exists Idle; cbn [pcs repeat]; repeat split; discriminate|reflexivity].
      * reflexivity.
      * unfold phi. cbn [pcs next taken repeat]. rewrite Hp. destruct (Nat.eqb_spec (taken s) 0); [contradiction|]. cbn. lia.
  - (* Holding: count one k-mer, or add the record's length *)
    pose proof (Hh len t eq_refl) as Htk.
    destruct t as [|x t].
    + unfold boundary. try rewrite Hp. cbn [upd pcs all_exited forallb andb]. right. split; [|split].
      * split; [exists Idle; cbn [pcs]; repeat split; discriminate|cbn [taken]; lia].
      * exact Hf.
      * unfold phi. cbn [pcs next taken length]. rewrite Hp. destruct (Nat.eqb_spec (taken s) 0); lia.
    + unfold boundary. try rewrite Hp. cbn [upd pcs all_exited forallb andb]. right. split; [|split].
      * split; [exists (Holding len t); cbn [pcs taken]; repeat split; [discriminate|intros; exact Htk]|cbn [taken total]; exact Ht].
      * exact Hf.
      * unfold phi. cbn [pcs next taken length]. rewrite Hp. cbn [length]. lia.
Qed.

Lemma step_fin s i : fin s = true -> step recs 1 limit s i = s.
Proof. intros H. unfold step. now rewrite H. Qed.
Lemma run_fin n : forall s, fin s = true -> fin (fold_left step1 (repeat 0 n) s) = true.
Proof. induction n as [|n IH]; intros s H; cbn [repeat fold_left]; [exact H|]. apply IH. now rewrite step_fin. Qed.

Lemma phi_pos s : J s -> 1 <= phi s.
Proof.
  intros [(p & Hp & Hne & _) _]. unfold phi. rewrite Hp. destruct p as [| |len t|]; [| | |congruence];
  try destruct (Nat.eqb (taken s) 0); lia.
Qed.

Lemma run_reaches n : forall s, J s -> fin s = false -> phi s <= n -> fin (fold_left step1 (repeat 0 n) s) = true.
Proof.
  induction n as [|n IH]; intros s HJ Hf Hphi.
  - exfalso. pose proof (phi_pos s HJ). lia.
  - cbn [repeat fold_left]. destruct (step_progress s HJ Hf) as [H|(HJ' & Hf' & Hlt)].
    + now apply run_fin.
    + apply IH; [exact HJ'|exact Hf'|lia].
Qed.

(* one worker finishes every input within cost 0 + 2 steps, and stays finished *)
Theorem single_worker_terminates n : cost 0 + 2 <= n -> fin (exec recs 1 limit (repeat 0 n)) = true.
Proof. intros H. unfold exec. apply run_reaches; [apply J_init|reflexivity|exact H]. Qed.
End Live.
