From Coq Require Import ZArith NArith List Lia Bool Arith.
From Coq Require Import ZifyN ZifyNat ZifyBool.
Import ListNotations.
Open Scope N_scope.
Arguments N.min : simpl never. Arguments N.ltb : simpl never. Arguments N.eqb : simpl never.
Arguments N.leb : simpl never.

Definition MAXV : N := 18446744073709551615.

Inductive ev := Amb | Short | Val (v : N).

(* ---------------- abstract machine: mirrors the Rust control flow ---------------- *)
Record ast := mka { buff : list N; bpos : nat; active : N; wstart : nat }.

Fixpoint scan (l : list N) (j : nat) (best : N) (bj : nat) : N * nat :=
  match l with
  | [] => (best, bj)
  | x :: t => if x <? best then scan t (S j) x j else scan t (S j) best bj
  end.

Definition first_time (L : nat) (st : ast) : ast :=
  if (N.eqb (active st) MAXV && Nat.eqb (length (buff st)) L)%bool
  then let '(nm, j) := scan (buff st) 0 (active st) (bpos st) in mka (buff st) j nm (wstart st)
  else st.

Definition out := (N * nat * nat)%type.

Definition astep (w L pos : nat) (st : ast) (e : ev) : ast * option out :=
  match e with
  | Amb => (mka [] 0 MAXV (S pos),
            if Nat.eqb (length (buff st)) L then Some (active st, wstart st, pos) else None)
  | Short => (st, None)
  | Val v =>
    if Nat.eqb (length (buff st)) L then
      let b' := tl (buff st) ++ [v] in
      if Nat.eqb (bpos st) 0 then
        let '(nm, j) := scan b' 0 MAXV (bpos st) in
        if N.eqb nm (active st)
        then (first_time L (mka b' j (active st) (wstart st)), None)
        else (mka b' j nm (pos + 1 - w), Some (active st, wstart st, pos))
      else if v <? active st
      then (mka b' (length b' - 1) v (pos + 1 - w), Some (active st, wstart st, pos))
      else (first_time L (mka b' (bpos st - 1) (active st) (wstart st)), None)
    else (first_time L (mka (buff st ++ [v]) (bpos st) (active st) (wstart st)), None)
  end.

Definition afinish (len : nat) (st : ast) : option out :=
  if N.eqb (active st) MAXV then None else Some (active st, wstart st, len).

(* ---------------- reference: recompute the window minimum from scratch ---------------- *)
Definition lmin (l : list N) : N := fold_right N.min MAXV l.

Record rst := mkr { rb : list N; cur : option (N * nat); seg : nat }.

Definition keep (L : nat) (l : list N) : list N := skipn (length l - L) l.

Definition rstep (w L pos : nat) (st : rst) (e : ev) : rst * option out :=
  match e with
  | Amb => (mkr [] None (S pos),
            match cur st with Some (v, s) => Some (v, s, pos) | None => None end)
  | Short => (st, None)
  | Val v =>
    let b' := keep L (rb st ++ [v]) in
    if Nat.eqb (length b') L then
      let mv := lmin b' in
      match cur st with
      | Some (v0, s0) =>
          if N.eqb mv v0 then (mkr b' (cur st) (seg st), None)
          else (mkr b' (Some (mv, (pos + 1 - w)%nat)) (seg st), Some (v0, s0, pos))
      | None => (mkr b' (Some (mv, seg st)) (seg st), None)
      end
    else (mkr b' (cur st) (seg st), None)
  end.

Definition rfinish (len : nat) (st : rst) : option out :=
  match cur st with Some (v, s) => Some (v, s, len) | None => None end.

(* ---------------- leftmost argmin ---------------- *)
Fixpoint amin (l : list N) : nat :=
  match l with
  | [] => 0%nat
  | x :: t => if x <=? lmin t then 0%nat else S (amin t)
  end.

Definition small (l : list N) := Forall (fun x => x < MAXV) l.

Lemma lmin_le_max l : lmin l <= MAXV.
Proof. induction l as [|x l IH]; cbn [lmin fold_right]; [lia|]. fold (lmin l). lia. Qed.

Lemma lmin_small l : small l -> l <> [] -> lmin l < MAXV.
Proof.
  intros Hs Hn. destruct l as [|x l]; [congruence|]. inversion Hs; subst.
  cbn [lmin fold_right]. fold (lmin l). lia.
Qed.

Lemma lmin_app l v : lmin (l ++ [v]) = N.min (lmin l) (N.min v MAXV).
Proof.
  induction l as [|x l IH]; cbn [app lmin fold_right].
  - lia.
  - fold (lmin (l ++ [v])). fold (lmin l). rewrite IH. lia.
Qed.

Lemma scan_spec l : forall j best bj,
  scan l j best bj =
  (N.min best (lmin l) , if lmin l <? best then (j + amin l)%nat else bj) \/ False ->
  True.
Proof. trivial. Qed.

Lemma scan_eq l : forall j best bj, best <= MAXV ->
  scan l j best bj = (if lmin l <? best then (lmin l, (j + amin l)%nat) else (best, bj)).
Proof.
  induction l as [|x l IH]; intros j best bj Hb.
  - cbn [scan lmin fold_right]. destruct (MAXV <? best) eqn:E; [lia|reflexivity].
  - cbn [scan lmin fold_right amin]. fold (lmin l).
    pose proof (lmin_le_max l) as Hm.
    destruct (x <? best) eqn:E1.
    + rewrite IH by lia. destruct (lmin l <? x) eqn:E2.
      * destruct (N.min x (lmin l) <? best) eqn:E3; [|lia].
        destruct (x <=? lmin l) eqn:E4; [lia|].
        f_equal; [lia|lia].
      * destruct (N.min x (lmin l) <? best) eqn:E3; [|lia].
        destruct (x <=? lmin l) eqn:E4; [|lia].
        f_equal; lia.
    + rewrite IH by lia. destruct (lmin l <? best) eqn:E2.
      * destruct (N.min x (lmin l) <? best) eqn:E3; [|lia].
        destruct (x <=? lmin l) eqn:E4; [lia|]. f_equal; lia.
      * destruct (N.min x (lmin l) <? best) eqn:E3; [lia|]. reflexivity.
Qed.

Lemma scan_full l bj : small l -> l <> [] -> scan l 0 MAXV bj = (lmin l, amin l).
Proof.
  intros Hs Hn. rewrite scan_eq by lia. pose proof (lmin_small l Hs Hn).
  destruct (lmin l <? MAXV) eqn:E; [reflexivity|lia].
Qed.

(* ---------------- sliding-window lemmas ---------------- *)
Lemma amin_app_lt l v : v < lmin l -> amin (l ++ [v]) = length l.
Proof.
  induction l as [|y t IH]; intros Hv.
  - cbn [app amin length]. unfold lmin in *; cbn [fold_right] in *. destruct (_ <=? _) eqn:E; [reflexivity|lia].
  - cbn [app amin length]. rewrite lmin_app. cbn [lmin fold_right] in Hv. fold (lmin t) in Hv.
    destruct (y <=? N.min (lmin t) (N.min v MAXV)) eqn:E; [lia|]. rewrite IH by lia. reflexivity.
Qed.

Lemma amin_app_ge l v : lmin l <= v -> v <= MAXV -> amin (l ++ [v]) = amin l.
Proof.
  induction l as [|y t IH]; intros Hv Hm.
  - cbn [app amin]. unfold lmin; cbn [fold_right]. destruct (_ <=? _) eqn:E; [reflexivity|lia].
  - cbn [app amin]. rewrite lmin_app. cbn [lmin fold_right] in Hv. fold (lmin t) in Hv.
    destruct (y <=? lmin t) eqn:E1.
    + destruct (y <=? N.min (lmin t) (N.min v MAXV)) eqn:E2; [reflexivity|lia].
    + destruct (y <=? N.min (lmin t) (N.min v MAXV)) eqn:E2; [lia|]. rewrite IH by lia. reflexivity.
Qed.

Lemma keep_short L l v : (length l < L)%nat -> keep L (l ++ [v]) = l ++ [v].
Proof. intros H. unfold keep. rewrite app_length. cbn [length]. replace (length l + 1 - L)%nat with 0%nat by lia. reflexivity. Qed.

Lemma keep_full L l v : (length l = L)%nat -> (1 <= L)%nat -> keep L (l ++ [v]) = tl l ++ [v].
Proof.
  intros H HL. unfold keep. rewrite app_length. cbn [length]. replace (length l + 1 - L)%nat with 1%nat by lia.
  destruct l as [|x l]; [cbn in H; lia|]. reflexivity.
Qed.

Lemma small_app l v : small l -> v < MAXV -> small (l ++ [v]).
Proof. intros. apply Forall_app. split; [assumption|]. constructor; [assumption|constructor]. Qed.

Lemma small_tl l : small l -> small (tl l).
Proof. intros H. destruct l; [exact H|]. now inversion H. Qed.

(* ---------------- simulation ---------------- *)
Definition Rel (L : nat) (st : ast) (rs : rst) : Prop :=
  buff st = rb rs /\ (length (rb rs) <= L)%nat /\ small (rb rs) /\
  match cur rs with
  | Some (v, s) => length (rb rs) = L /\ active st = v /\ wstart st = s /\
                   v = lmin (rb rs) /\ bpos st = amin (rb rs)
  | None => (length (rb rs) < L)%nat /\ active st = MAXV /\ wstart st = seg rs
  end.

Lemma first_time_id L st : active st <> MAXV -> first_time L st = st.
Proof. intros H. unfold first_time. destruct (N.eqb_spec (active st) MAXV); [contradiction|]. reflexivity. Qed.

Lemma sim_step w L pos st rs e :
  (1 <= L)%nat -> Rel L st rs ->
  (forall v, e = Val v -> v < MAXV) ->
  let '(st', o) := astep w L pos st e in
  let '(rs', o') := rstep w L pos rs e in
  Rel L st' rs' /\ o = o'.
Proof.
  intros HL (Hb & Hlen & Hs & Hc) Hv.
  destruct e as [| |v].
  - (* Amb *)
    cbn [astep rstep]. split.
    + unfold Rel. cbn. repeat split; try lia. constructor.
    + rewrite Hb. destruct (cur rs) as [[v0 s0]|].
      * destruct Hc as (Hl & Ha & Hw & _). rewrite Hl, Nat.eqb_refl, Ha, Hw. reflexivity.
      * destruct Hc as (Hl & _). destruct (Nat.eqb_spec (length (rb rs)) L); [lia|reflexivity].
  - (* Short *)
    cbn [astep rstep]. split; [|reflexivity]. unfold Rel. auto.
  - (* Val *)
    specialize (Hv v eq_refl).
    cbn [astep rstep]. rewrite Hb.
    destruct (cur rs) as [[v0 s0]|] eqn:Ecur.
    + destruct Hc as (Hl & Ha & Hw & Hmin & Hp).
      rewrite Hl, Nat.eqb_refl. rewrite (keep_full L _ v Hl HL).
      set (b' := tl (rb rs) ++ [v]).
      assert (Hb'len : length b' = L).
      { unfold b'. rewrite app_length. destruct (rb rs) as [|x l'] eqn:El; cbn in *; lia. }
      assert (Hb's : small b') by (apply small_app; [apply small_tl; exact Hs|exact Hv]).
      assert (Hb'n : b' <> []) by (intro E; rewrite E in Hb'len; cbn in Hb'len; lia).
      rewrite Hb'len, Nat.eqb_refl.
      assert (Hv0 : v0 < MAXV).
      { rewrite Hmin. apply lmin_small; [exact Hs|]. intro E. rewrite E in Hl. cbn in Hl. lia. }
      destruct (Nat.eqb_spec (bpos st) 0) as [Hz|Hz].
      * (* minimum left the buffer: rescan *)
        rewrite (scan_full b' _ Hb's Hb'n). rewrite Ha.
        destruct (N.eqb_spec (lmin b') v0) as [Heq|Hne].
        -- rewrite first_time_id by (cbn; lia). split; [|reflexivity].
           unfold Rel. cbn. try rewrite Ecur. repeat split; auto; lia.
        -- split; [|rewrite Hw; reflexivity].
           unfold Rel. cbn. repeat split; auto; lia.
      * (* minimum still inside *)
        destruct (rb rs) as [|x l'] eqn:El; [cbn in Hl; lia|].
        cbn [amin] in Hp. destruct (x <=? lmin l') eqn:Ex; [lia|].
        cbn [lmin fold_right] in Hmin. fold (lmin l') in Hmin.
        assert (Hv0' : v0 = lmin l') by lia.
        unfold b' in *. cbn [tl] in *.
        rewrite Ha. destruct (v <? v0) eqn:Evv.
        -- assert (Hlm : lmin (l' ++ [v]) = v) by (rewrite lmin_app; lia).
           rewrite Hlm. destruct (N.eqb_spec v v0); [lia|].
           split; [|rewrite Hw; reflexivity].
           unfold Rel. cbn. repeat split; auto; try lia.
           all: rewrite ?amin_app_lt by lia; rewrite ?app_length in *; cbn [length] in *; try lia.
        -- assert (Hlm : lmin (l' ++ [v]) = v0) by (rewrite lmin_app; lia).
           rewrite Hlm, N.eqb_refl. rewrite first_time_id by (cbn; lia).
           split; [|reflexivity].
           unfold Rel. cbn. try rewrite Ecur. repeat split; auto; try lia.
           rewrite amin_app_ge by lia. lia.
    + destruct Hc as (Hl & Ha & Hw).
      destruct (Nat.eqb_spec (length (rb rs)) L); [lia|].
      rewrite (keep_short L _ v Hl).
      assert (Hs' : small (rb rs ++ [v])) by (apply small_app; assumption).
      unfold first_time. cbn [active buff bpos wstart]. rewrite Ha, N.eqb_refl. cbn [andb].
      destruct (Nat.eqb_spec (length (rb rs ++ [v])) L) as [Hf|Hf].
      * rewrite scan_full; [|exact Hs'|destruct (rb rs); discriminate].
        split; [|reflexivity]. unfold Rel. cbn. repeat split; auto; lia.
      * split; [|reflexivity]. unfold Rel. cbn. try rewrite Ecur.
        rewrite app_length in *. cbn [length] in *. repeat split; auto; lia.
Qed.
Print Assumptions sim_step.
