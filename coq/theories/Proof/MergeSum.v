(* C07: the counts of the merged table add up to the number of k-mers counted (= the number of valid windows of
   the input), for every partition count >= 1 and every split into chunk passes. *)
From Coq Require Import NArith List Lia Arith.
From KT Require Import Proof.Merge.
Import ListNotations.

Lemma occ_remove_same a l : occ a (remove N.eq_dec a l) = 0.
Proof.
  unfold occ. apply count_occ_not_In. apply remove_In.
Qed.

Lemma occ_remove_other a x l : x <> a -> occ x (remove N.eq_dec a l) = occ x l.
Proof.
  intros Hne. unfold occ. induction l as [|b l IH]; [reflexivity|]. cbn [remove].
  destruct (N.eq_dec a b) as [<-|Hab].
  - rewrite IH. rewrite count_occ_cons_neq; [reflexivity|]. intro E. apply Hne. symmetry. exact E.
  - cbn [count_occ]. destruct (N.eq_dec b x); rewrite IH; reflexivity.
Qed.

Lemma length_remove_occ a l : length l = occ a l + length (remove N.eq_dec a l).
Proof.
  unfold occ. induction l as [|b l IH]; [reflexivity|]. cbn [remove count_occ length].
  destruct (N.eq_dec a b) as [<-|Hab].
  - destruct (N.eq_dec a a) as [_|Hn]; [|contradiction]. lia.
  - destruct (N.eq_dec b a) as [E|_]; [exfalso; apply Hab; symmetry; exact E|]. cbn [length]. lia.
Qed.

(* a duplicate-free key list that covers l: the occurrence counts of the keys add up to the length of l *)
Lemma sum_occ_keys keys : NoDup keys -> forall l, (forall x, In x l -> In x keys) ->
  lsum (map (fun x => occ x l) keys) = length l.
Proof.
  induction 1 as [|a keys Ha Hnd IH]; intros l Hcov.
  - destruct l as [|b l]; [reflexivity|]. exfalso. apply (Hcov b). now left.
  - cbn [map lsum]. rewrite (length_remove_occ a l). f_equal.
    rewrite <- (IH (remove N.eq_dec a l)).
    + f_equal. apply map_ext_in. intros x Hx. symmetry. apply occ_remove_other. intros ->. contradiction.
    + intros x Hx. apply in_remove in Hx as [Hx Hne]. destruct (Hcov x Hx) as [E|Hin]; [congruence|exact Hin].
Qed.

Theorem merged_counts_sum n_parts bags : (1 <= n_parts)%N ->
  lsum (map snd (merged n_parts bags)) = length (everything bags).
Proof.
  intros Hn.
  assert (E : map snd (merged n_parts bags) = map (fun x => occ x (everything bags)) (map fst (merged n_parts bags))).
  { rewrite map_map. apply map_ext_in. intros [x c] Hin. cbn [fst snd].
    exact (proj1 (merged_counts n_parts bags x c Hin)). }
  rewrite E. apply sum_occ_keys; [apply merged_keys_nodup; exact Hn|].
  intros x Hx. apply in_map_iff. exists (x, occ x (everything bags)). split; [reflexivity|].
  apply merged_complete; assumption.
Qed.

Lemma length_concat_map_map {A B C} (f : B -> C) (g : A -> list B) (l : list A) :
  length (concat (map (fun a => map f (g a)) l)) = length (concat (map g l)).
Proof.
  induction l as [|a l IH]; [reflexivity|]. cbn [map concat]. rewrite !app_length, map_length, IH. reflexivity.
Qed.
