(* executable trace semantics of the mmap-writer schedule model, for replay against the implementation *)
From Coq Require Import List Arith Bool.
Open Scope bool_scope.
From KT Require Import Proof.Sched.
Import ListNotations.

Inductive tev := TTake (n : nat) | TWrite (n : nat) | TExit.

Definition event (R W : nat) (s : st unit) (i : nat) : option tev :=
  if negb (i <? W) || nth i (exited unit s) true then None else
  match nth i (held unit s) None with
  | Some n => Some (TWrite n)
  | None => if next unit s <? R then Some (TTake (next unit s)) else Some TExit
  end.

Fixpoint trace_go (rows : list unit) (W : nat) (s : st unit) (sched : list nat) : list (nat * tev) :=
  match sched with
  | [] => []
  | i :: t => match event (length rows) W s i with
              | Some e => (i, e) :: trace_go rows W (step unit rows W s i) t
              | None => trace_go rows W (step unit rows W s i) t
              end
  end.

Definition mmap_trace (R W : nat) (sched : list nat) : list (nat * tev) :=
  trace_go (repeat tt R) W (init unit (repeat tt R) W) sched.

