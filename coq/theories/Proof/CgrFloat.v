(* C11: the binary64 chaos-game walk stays finite and inside [0, S]^2 for every sequence length (lifting the
   one-step lemma of InSquare.v along the walk).  Uses Flocq's Bplus_correct / Bdiv_correct, hence depends on
   the four standard-library axioms of the real numbers. *)
From Coq Require Import ZArith NArith Reals Lra Lia List.
From Flocq Require Import Core IEEE754.BinarySingleNaN IEEE754.Binary IEEE754.Bits.
From KT Require Import Model.Flt Model.Rows Proof.InSquare Proof.CgrProof.
Import ListNotations.
Open Scope R_scope.

Lemma two64_is_two : two64 = InSquare.two.
Proof. apply B2FF_inj. vm_compute. reflexivity. Qed.

Lemma half_sum_is_step a b : b64_half_sum a b = InSquare.step a b.
Proof. unfold b64_half_sum, InSquare.step. rewrite two64_is_two. reflexivity. Qed.

Lemma fzero_val : B2R 53 1024 fzero = 0 /\ is_finite 53 1024 fzero = true.
Proof. split; vm_compute; try reflexivity. Qed.

Section Walk.
Variable s : binary64.
Hypothesis Hs_fin : is_finite 53 1024 s = true.
Let S := B2R 53 1024 s.
Hypothesis HS0 : 0 <= S.
Hypothesis HSmax : 2 * S < bpow radix2 1024.
Hypothesis H2S : generic_format radix2 fexp (2 * S).

Definition fin_in (x : binary64) : Prop := is_finite 53 1024 x = true /\ 0 <= B2R 53 1024 x <= S.
Definition fpt_in (p : fpt) : Prop := fin_in (fst p) /\ fin_in (snd p).

Lemma corner_in c : fpt_in (fcorner s c).
Proof.
  destruct fzero_val as [Hz Hf].
  unfold fpt_in, fcorner, fin_in. destruct c as [[|] [|]]; cbn [fst snd]; fold S;
    repeat split; try exact Hs_fin; try exact Hf; try rewrite Hz; try lra.
Qed.

Lemma fmid_in c p : fpt_in p -> fpt_in (fmid (fcorner s c) p).
Proof.
  intros [[Fx Hx] [Fy Hy]]. destruct (corner_in c) as [[Fcx Hcx] [Fcy Hcy]].
  unfold fmid, fpt_in, fin_in. cbn [fst snd]. rewrite !half_sum_is_step. split.
  - apply (step_in_square s HS0 HSmax H2S); assumption.
  - apply (step_in_square s HS0 HSmax H2S); assumption.
Qed.

(* the centre (S / 2, S / 2) = one step from the corner (0, 0) towards ... computed as S / 2 directly *)
Lemma centre_in : fpt_in (fcentre s).
Proof.
  assert (H : fin_in (b64_div mode_NE s two64)).
  { rewrite two64_is_two. unfold fin_in, b64_div. fold Hp53 Hpe.
    pose proof (Bdiv_correct 53 1024 Hp53 Hpe binop_nan_pl64 mode_NE s InSquare.two) as Hd.
    rewrite two_val in Hd. specialize (Hd ltac:(lra)). cbn [round_mode] in Hd. fold S in Hd.
    assert (Hq : 0 <= rnd (S / 2) <= S).
    { split; [rewrite <- rnd_0; apply rnd_le; lra|].
      assert (HS' : rnd S = S) by (unfold S; apply rnd_id). rewrite <- HS' at 2. apply rnd_le. lra. }
    rewrite Rlt_bool_true in Hd by (rewrite Rabs_pos_eq; [|lra]; lra).
    destruct Hd as (Hdv & Hdf & _). split; [rewrite Hdf; exact Hs_fin|]. rewrite Hdv. exact Hq. }
  split; exact H.
Qed.

Theorem cgr_b64_go_in_square corner seq l :
  cgr_b64_go corner s (fcentre s) seq = Some l -> Forall fpt_in l.
Proof.
  unfold cgr_b64_go. intros H.
  eapply (walk_Forall _ _ corner (fun c p => fmid (fcorner s c) p) fpt_in); [intros c p; apply fmid_in|apply centre_in|exact H].
Qed.
End Walk.

(* ---------- integer square sizes: vecsize as f64 is exact below 2^52 and so is its double ---------- *)
Lemma int_format (z : Z) : (Z.abs z < 2 ^ 53)%Z -> generic_format radix2 fexp (IZR z).
Proof.
  intros Hz. replace (IZR z) with (F2R (Float radix2 z 0)) by (unfold F2R; cbn; lra).
  apply generic_format_F2R. intros Hnz. unfold cexp, SpecFloat.fexp.
  assert (Hmag : (mag radix2 (F2R (Float radix2 z 0)) <= 53)%Z).
  { apply mag_le_bpow.
    - unfold F2R; cbn. rewrite Rmult_1_r. now apply IZR_neq.
    - unfold F2R; cbn. rewrite Rmult_1_r. rewrite <- abs_IZR. change (bpow radix2 53) with (IZR (2 ^ 53)). now apply IZR_lt. }
  unfold SpecFloat.emin. lia.
Qed.

Lemma b64_of_Z_val (z : Z) : (0 <= z < 2 ^ 53)%Z ->
  B2R 53 1024 (b64_of_Z z) = IZR z /\ is_finite 53 1024 (b64_of_Z z) = true.
Proof.
  intros Hz. unfold b64_of_Z.
  pose proof (binary_normalize_correct 53 1024 Hp53 Hpe mode_NE z 0 false) as H.
  cbn [round_mode] in H.
  assert (Hx : F2R (Float radix2 z 0) = IZR z) by (unfold F2R; cbn; lra).
  rewrite Hx in H.
  assert (Hr : rnd (IZR z) = IZR z) by (apply round_generic; [apply valid_rnd_N|apply int_format; lia]).
  rewrite Hr in H. rewrite Rlt_bool_true in H.
  - destruct H as (Hv & Hf & _). split; assumption.
  - rewrite Rabs_pos_eq by (apply IZR_le; lia).
    apply Rlt_trans with (IZR (2 ^ 53)); [apply IZR_lt; lia|].
    change (bpow radix2 1024) with (IZR (2 ^ 1024)). apply IZR_lt. reflexivity.
Qed.

(* C11 on the binary64 model, for every square size the CLI can be given below 2^52 and every sequence length:
   all coordinates stay finite and inside the closed square *)
Theorem cgr_b64_in_square corner (Sz : Z) seq l : (0 <= Sz < 2 ^ 52)%Z ->
  cgr_b64 corner Sz seq = Some l ->
  Forall (fun p : fpt => (is_finite 53 1024 (fst p) = true /\ 0 <= B2R 53 1024 (fst p) <= IZR Sz) /\
                         (is_finite 53 1024 (snd p) = true /\ 0 <= B2R 53 1024 (snd p) <= IZR Sz)) l.
Proof.
  intros HS H. unfold cgr_b64 in H.
  destruct (b64_of_Z_val Sz ltac:(lia)) as [Hv Hf].
  assert (H0 : 0 <= B2R 53 1024 (b64_of_Z Sz)) by (rewrite Hv; apply IZR_le; lia).
  assert (Hmax : 2 * B2R 53 1024 (b64_of_Z Sz) < bpow radix2 1024).
  { rewrite Hv. rewrite <- mult_IZR. change (bpow radix2 1024) with (IZR (2 ^ 1024)). apply IZR_lt.
    apply Z.lt_trans with (2 ^ 53)%Z; [lia|reflexivity]. }
  assert (H2 : generic_format radix2 fexp (2 * B2R 53 1024 (b64_of_Z Sz))).
  { rewrite Hv, <- mult_IZR. apply int_format. lia. }
  pose proof (cgr_b64_go_in_square (b64_of_Z Sz) Hf H0 Hmax H2 corner seq l H) as HF.
  revert HF. apply Forall_impl. intros p. unfold fpt_in, fin_in. rewrite Hv. tauto.
Qed.
