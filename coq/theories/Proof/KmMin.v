(* C18 prototype: the minimiser+k-mers iterator agrees with the plain one and conserves all w-mers *)
From Coq Require Import ZArith NArith List Lia Bool Arith.
From Coq Require Import ZifyN ZifyNat ZifyBool.
From KT Require Import Base.Bits Model.Kmer Proof.KmerProof Proof.Regs Proof.MinAbs Proof.MinSpec Proof.MinConc.
Import ListNotations.
Open Scope N_scope.
Arguments N.min : simpl never. Arguments N.ltb : simpl never. Arguments N.eqb : simpl never.
Arguments N.pow : simpl never.

Section KmMin.
Variable nt4 : N -> N.
Variables w m : nat.
Hypothesis Hm : (1 <= m <= w)%nat.
Hypothesis Hw31 : (w <= 31)%nat.
Let L := (w - m + 1)%nat.
Notation clean := (clean nt4).
Notation tcl := (tcl nt4).
Notation ev_of := (ev_of nt4 m).

Record kst := mkk { mreg : mst; kf : N; kr : N; kl : nat; kb : list N }.
Definition kout := (out * list N)%type.

(* mirrors KmerMinimiserGenerator::next, one byte at a time *)
Definition kmg_step (pos : nat) (st : kst) (b : N) : kst * option kout :=
  let c := nt4 b in
  let ms := mreg st in
  let '((f, r, l), e) := reg_step nt4 m (vf ms) (vr ms) (vl ms) b in
  match e with
  | Amb =>
      let '(a', o) := astep w L pos (ctl ms) Amb in
      (mkk (mkm f r l a') 0 0 0 [], match o with Some run => Some (run, kb st) | None => None end)
  | Short =>
      (mkk (mkm f r l (ctl ms)) (fpush w (kf st) c) (rpush w (kr st) c) (S (kl st)) (kb st), None)
  | Val v =>
      let kf' := fpush w (kf st) c in
      let kr' := rpush w (kr st) c in
      let kl' := S (kl st) in
      let '(kb', kl'') := if Nat.eqb kl' w then (kb st ++ [N.min kf' kr'], (kl' - 1)%nat) else (kb st, kl') in
      let '(a', o) := astep w L pos (ctl ms) (Val v) in
      match o with
      | Some run => (mkk (mkm f r l a') kf' kr' kl'' [], Some (run, kb'))
      | None => (mkk (mkm f r l a') kf' kr' kl'' kb', None)
      end
  end.

Fixpoint kmg_go (st : kst) (pos : nat) (rest : list N) : list kout :=
  match rest with
  | [] => match afinish pos (ctl (mreg st)) with Some run => [(run, kb st)] | None => [] end
  | b :: t => let '(st', o) := kmg_step pos st b in ol o ++ kmg_go st' (S pos) t
  end.

Definition kmg_init : kst := mkk (mg_init) 0 0 0 [].
Definition kmg_run (s : list N) : list kout := kmg_go kmg_init 0 s.

(* ---------- 1. same runs as the plain iterator ---------- *)
Lemma kmg_runs rest : forall st pos, map fst (kmg_go st pos rest) = mg_go nt4 w m (mreg st) pos rest.
Proof.
  induction rest as [|b t IH]; intros st pos.
  - cbn [kmg_go mg_go]. destruct (afinish pos (ctl (mreg st))); reflexivity.
  - cbn [kmg_go mg_go]. unfold kmg_step, mg_step. fold L.
    destruct (reg_step nt4 m (vf (mreg st)) (vr (mreg st)) (vl (mreg st)) b) as [[[f r] l] e].
    destruct e as [| |v].
    + destruct (astep w L pos (ctl (mreg st)) Amb) as [a' o]. rewrite map_app, IH. cbn [mreg].
      destruct o; reflexivity.
    + cbn [astep]. rewrite map_app, IH. cbn [mreg ol map app]. destruct (mreg st); reflexivity.
    + destruct (Nat.eqb (S (kl st)) w); destruct (astep w L pos (ctl (mreg st)) (Val v)) as [a' o];
        destruct o; rewrite map_app, IH; reflexivity.
Qed.

Theorem kmg_run_runs s : map fst (kmg_run s) = mg_run nt4 w m s.
Proof. apply kmg_runs. Qed.

(* ---------- 2. conservation of w-mers ---------- *)
Definition cmin (p : N * N) : N := N.min (fst p) (snd p).

Lemma tcl_same r : KmerProof.tcl nt4 r = tcl r.
Proof. induction r as [|b r IH]; [reflexivity|]. cbn. rewrite IH. reflexivity. Qed.

Lemma tcl_le2 r : (tcl r <= length r)%nat.
Proof. induction r as [|b r IH]; cbn [MinSpec.tcl length]; [lia|]. destruct (clean b); lia. Qed.

(* what the k-mer iterator of width w emits at the position whose reversed history is r *)
Definition emit_here (r : list N) : list (N * N) :=
  if (w <=? length r)%nat then emit nt4 (rev (firstn w r)) else [].

Lemma emit_here_full r : (w <= tcl r)%nat -> map cmin (emit_here r) = [MinSpec.canon nt4 w r].
Proof.
  intros Ht. unfold emit_here. pose proof (tcl_le2 r).
  destruct (Nat.leb_spec w (length r)); [|lia]. unfold emit.
  rewrite forallb_rev, (KmerProof.forallb_firstn_tcl nt4 w ltac:(lia)) by (rewrite tcl_same; exact Ht).
  reflexivity.
Qed.

Lemma emit_here_none r : (tcl r < w)%nat -> emit_here r = [].
Proof.
  intros Ht. unfold emit_here. destruct (Nat.leb_spec w (length r)); [|reflexivity]. unfold emit.
  rewrite forallb_rev, (forallb_firstn_tcl_false nt4 w ltac:(lia)) by (rewrite tcl_same; lia). reflexivity.
Qed.

Definition Inv3 (rs : rst) (r : list N) : Prop :=
  length (rb rs) = Nat.min L (tcl r + 1 - m) /\ (cur rs = None <-> (tcl r < w)%nat).

Lemma keep_len' l : length (keep L l) = Nat.min L (length l).
Proof. unfold keep. rewrite skipn_length. lia. Qed.

Lemma inv3_step rs r b : Inv3 rs r ->
  Inv3 (fst (rstep w L (length r) rs (ev_of (b :: r)))) (b :: r).
Proof.
  intros [Hlen Hcur]. unfold MinSpec.ev_of, Inv3. cbn [MinSpec.tcl].
  destruct (clean b) eqn:Hcl.
  - destruct (Nat.ltb_spec (S (tcl r)) m) as [Hlt|Hge].
    + cbn [rstep fst]. split; [rewrite Hlen; lia|]. split; [intros _; lia|]. intros _. apply Hcur. lia.
    + cbn [rstep]. set (b' := keep L (rb rs ++ [_])).
      assert (Hb' : length b' = Nat.min L (S (tcl r) + 1 - m)).
      { unfold b'. rewrite keep_len', app_length, Hlen. cbn [length]. lia. }
      destruct (Nat.eqb_spec (length b') L) as [Hf|Hf].
      * assert (Hw : (w <= S (tcl r))%nat) by (unfold L in *; lia).
        destruct (cur rs) as [[v0 s0]|]; [destruct (N.eqb _ v0)|]; cbn [fst rb cur];
          (split; [exact Hb'|split; [discriminate|lia]]).
      * assert (Hw : (S (tcl r) < w)%nat) by (unfold L in *; lia).
        cbn [fst rb cur]. split; [exact Hb'|]. split; [intros _; exact Hw|]. intros _. apply Hcur. lia.
  - cbn [rstep fst rb cur]. split; [cbn [length]; lia|]. split; [intros _; lia|reflexivity].
Qed.

Definition KI (st : kst) (rs : rst) (r : list N) : Prop :=
  let ms := mreg st in
  RInv nt4 m r (vf ms) (vr ms) (vl ms) /\
  kl st = Nat.min (tcl r) (w - 1) /\ RegInv w (cs_of nt4 r) (kf st) (kr st) /\
  Rel L (ctl ms) rs /\ Inv3 rs r /\ (kb st <> [] -> (w <= tcl r)%nat).

Lemma kreg_push r f rr b : clean b = true -> RegInv w (cs_of nt4 r) f rr ->
  RegInv w (cs_of nt4 (b :: r)) (fpush w f (nt4 b)) (rpush w rr (nt4 b)).
Proof.
  intros Hcl HR. unfold cs_of. cbn [MinSpec.tcl]. rewrite Hcl. cbn [firstn map].
  apply reg_push; [lia|exact HR|]. unfold Kmer.clean in Hcl. lia.
Qed.

Lemma kmg_conserve rest : forall st rs r, KI st rs r ->
  concat (map snd (kmg_go st (length r) rest)) = kb st ++ map cmin (spec_go nt4 w r rest).
Proof.
  induction rest as [|b t IH]; intros st rs r (HR & Hkl & HK & HRel & [Hlen Hcur] & Hkb).
  - cbn [kmg_go spec_go map]. rewrite app_nil_r. unfold afinish.
    destruct HRel as (Hb & _ & Hs & Hc).
    destruct (cur rs) as [[v s]|] eqn:Ec.
    + destruct Hc as (Hl & Ha & _ & Hmin & _).
      assert (v < MAXV).
      { rewrite Hmin. apply lmin_small; [exact Hs|]. intro E. rewrite E in Hl. cbn in Hl. unfold L in Hl. lia. }
      destruct (N.eqb_spec (active (ctl (mreg st))) MAXV); [lia|]. cbn. now rewrite app_nil_r.
    + destruct Hc as (_ & Ha & _). rewrite Ha. cbn.
      destruct (kb st) as [|x l] eqn:Ek; [reflexivity|]. exfalso.
      assert (w <= tcl r)%nat by (apply Hkb; discriminate). pose proof (proj1 Hcur eq_refl). lia.
  - cbn [kmg_go spec_go]. fold (emit_here (b :: r)).
    unfold kmg_step. fold L.
    pose proof (reg_step_spec nt4 w m Hm ltac:(lia) r _ _ _ b HR) as Hreg.
    destruct (reg_step nt4 m (vf (mreg st)) (vr (mreg st)) (vl (mreg st)) b) as [[[f' rr'] l'] e].
    destruct Hreg as [He HR'].
    pose proof (sim_step w L (length r) (ctl (mreg st)) rs (ev_of (b :: r)) ltac:(unfold L; lia) HRel
                  (fun v E => ev_val_small nt4 w m Hm ltac:(lia) _ v E)) as Hsim.
    pose proof (inv3_step rs r b (conj Hlen Hcur)) as H3.
    subst e.
    unfold MinSpec.ev_of in *. cbn [MinSpec.tcl] in *.
    destruct (clean b) eqn:Hcl.
    + destruct (Nat.ltb_spec (S (tcl r)) m) as [Hlt|Hge].
      * (* Short *)
        cbn [astep] in *. cbn [ol app].
        rewrite (emit_here_none (b :: r)) by (cbn [MinSpec.tcl]; rewrite Hcl; lia). cbn [map app concat].
        destruct (rstep w L (length r) rs Short) as [rs' o'] eqn:Er. cbn [rstep] in Er. inversion Er; subst rs' o'.
        change (S (length r)) with (length (b :: r)).
        rewrite (IH _ rs (b :: r)); [reflexivity|].
        unfold KI. cbn [mreg vf vr vl ctl kl kf kr kb].
        split; [exact HR'|]. split; [cbn [MinSpec.tcl]; rewrite Hcl; lia|].
        split; [apply kreg_push; assumption|]. split; [exact HRel|]. split; [exact H3|].
        intros Hne. specialize (Hkb Hne). lia.
      * (* Val *)
        set (v := MinSpec.canon nt4 m (b :: r)) in *.
        set (kf' := fpush w (kf st) (nt4 b)). set (kr' := rpush w (kr st) (nt4 b)).
        assert (HK' : RegInv w (cs_of nt4 (b :: r)) kf' kr') by (apply kreg_push; assumption).
        assert (Htc : tcl (b :: r) = S (tcl r)) by (cbn [MinSpec.tcl]; rewrite Hcl; reflexivity).
        (* the k-mer branch *)
        assert (Hpush : exists kb' kl'',
                  (if Nat.eqb (S (kl st)) w then (kb st ++ [N.min kf' kr'], (S (kl st) - 1)%nat) else (kb st, S (kl st))) = (kb', kl'') /\
                  kb' = kb st ++ map cmin (emit_here (b :: r)) /\
                  kl'' = Nat.min (tcl (b :: r)) (w - 1) /\ (kb' <> [] -> (w <= tcl (b :: r))%nat)).
        { rewrite Hkl. destruct (Nat.eqb_spec (S (Nat.min (tcl r) (w - 1))) w) as [Hf|Hf].
          - assert (Hwt : (w <= tcl (b :: r))%nat) by lia.
            exists (kb st ++ [N.min kf' kr']), (S (Nat.min (tcl r) (w - 1)) - 1)%nat.
            split; [reflexivity|]. split; [|split; [lia|intros _; exact Hwt]].
            rewrite (emit_here_full _ Hwt). f_equal. f_equal.
            apply (canon_regs nt4 w w ltac:(lia) Hw31 (b :: r) kf' kr' Hwt HK').
          - assert (Hwt : (tcl (b :: r) < w)%nat) by lia.
            exists (kb st), (S (Nat.min (tcl r) (w - 1))).
            split; [reflexivity|]. split; [|split; [lia|]].
            + rewrite (emit_here_none _ Hwt). cbn [map]. now rewrite app_nil_r.
            + intros Hne. specialize (Hkb Hne). lia. }
        destruct Hpush as (kb' & kl'' & -> & Hkb' & Hkl'' & Hkbne).
        destruct (astep w L (length r) (ctl (mreg st)) (Val v)) as [a' o].
        destruct (rstep w L (length r) rs (Val v)) as [rs' o'] eqn:Er. destruct Hsim as [HRel' ->].
        cbn [fst] in H3.
        change (S (length r)) with (length (b :: r)).
        destruct o' as [run|].
        -- cbn [ol app map concat snd]. rewrite map_app.
           rewrite (IH _ rs' (b :: r)).
           ++ cbn [kb app]. rewrite Hkb', <- app_assoc. reflexivity.
           ++ unfold KI. cbn [mreg vf vr vl ctl kl kf kr kb].
              split; [exact HR'|]. split; [exact Hkl''|]. split; [exact HK'|]. split; [exact HRel'|].
              split; [exact H3|]. intros Hne. congruence.
        -- cbn [ol app]. rewrite map_app.
           rewrite (IH _ rs' (b :: r)).
           ++ cbn [kb]. rewrite Hkb', <- app_assoc. reflexivity.
           ++ unfold KI. cbn [mreg vf vr vl ctl kl kf kr kb].
              split; [exact HR'|]. split; [exact Hkl''|]. split; [exact HK'|]. split; [exact HRel'|].
              split; [exact H3|]. exact Hkbne.
    + (* Amb *)
      destruct (astep w L (length r) (ctl (mreg st)) Amb) as [a' o] eqn:Ea.
      destruct (rstep w L (length r) rs Amb) as [rs' o'] eqn:Er. destruct Hsim as [HRel' ->].
      cbn [fst] in H3.
      rewrite (emit_here_none (b :: r)) by (cbn [MinSpec.tcl]; rewrite Hcl; lia). cbn [app].
      change (S (length r)) with (length (b :: r)).
      assert (HKI' : KI (mkk (mkm f' rr' l' a') 0 0 0 []) rs' (b :: r)).
      { unfold KI. cbn [mreg vf vr vl ctl kl kf kr kb].
        split; [exact HR'|]. split; [cbn [MinSpec.tcl]; rewrite Hcl; lia|].
        split; [unfold cs_of; cbn [MinSpec.tcl]; rewrite Hcl; cbn [firstn map]; apply reg_init; lia|].
        split; [exact HRel'|]. split; [exact H3|]. intros Hne. congruence. }
      cbn [rstep] in Er. inversion Er; subst rs' o'.
      destruct (cur rs) as [[v0 s0]|] eqn:Ec.
      * cbn [ol app map concat snd]. rewrite (IH _ _ (b :: r) HKI'). cbn [kb app]. reflexivity.
      * cbn [ol app]. rewrite (IH _ _ (b :: r) HKI'). cbn [kb app].
        destruct (kb st) as [|x l] eqn:Ek; [reflexivity|]. exfalso.
        assert (w <= tcl r)%nat by (apply Hkb; discriminate). pose proof (proj1 Hcur eq_refl). lia.
Qed.

Theorem kmg_run_conserves s :
  concat (map snd (kmg_run s)) = map cmin (kg_run nt4 w s).
Proof.
  unfold kmg_run, kg_run. rewrite (kg_go_spec nt4 w ltac:(lia) s [] _ (inv_init nt4 w ltac:(lia))).
  change 0%nat with (length (@nil N)).
  rewrite (kmg_conserve s kmg_init (mkr [] None 0) []); [reflexivity|].
  unfold KI, kmg_init, mg_init. cbn [mreg vf vr vl ctl kl kf kr kb].
  split; [unfold RInv, cs_of; cbn; split; [lia|apply reg_init; lia]|].
  split; [cbn; lia|]. split; [unfold cs_of; cbn; apply reg_init; lia|].
  split; [unfold Rel; cbn; repeat split; auto; try (unfold L; lia); constructor|].
  split; [unfold Inv3; cbn [rb cur MinSpec.tcl length]; split; [lia|split; [intros _; lia|reflexivity]]|].
  intros Hne. congruence.
Qed.
End KmMin.
Check kmg_run_conserves.
Print Assumptions kmg_run_conserves.
