(* C15: the thread option is never looked at: removing every "t=..." setting changes nothing, for every
   subcommand, every other setting and every input; and the same for any other key the subcommands do not read *)
From Coq Require Import NArith ZArith List Bool String.
From KT Require Import Gen.Generated Model.Show Model.Ops Model.Rows Model.Pipeline Model.Cli.
Import ListNotations.
Open Scope N_scope.

Definition drop_key (k : list N) (st : list (list N * list N)) : list (list N * list N) :=
  filter (fun kv => negb (list_eqb (fst kv) k)) st.

Lemma list_eqb_true a : forall b, list_eqb a b = true -> a = b.
Proof.
  induction a as [|x a IH]; intros [|y b] H; cbn in H; try discriminate; [reflexivity|].
  apply andb_prop in H as [H1 H2]. apply N.eqb_eq in H1. subst. f_equal. now apply IH.
Qed.

Lemma get_drop key k st : list_eqb k key = false -> get key (drop_key k st) = get key st.
Proof.
  intros Hne. induction st as [|[a v] t IH]; [reflexivity|]. cbn [drop_key filter fst].
  destruct (list_eqb a k) eqn:E; cbn [negb].
  - apply list_eqb_true in E. subst a. fold (drop_key k t). cbn [get]. rewrite Hne. exact IH.
  - cbn [get]. fold (drop_key k t). destruct (list_eqb a key); [reflexivity|exact IH].
Qed.

Section ThreadOption.
Variable ranges : list (list N * (N * option N * option N * bool)).
Variable presets_oligo presets_cov : list (list N * list N).
Variable refuse_w_le_m : bool.
Variable refuse_m_ge : option N.
Variable refuse_whole_counts : bool.
Variable f_ofile : nat -> bool -> bool -> list N -> list (list N) -> list N.
Variable f_cgrfile : Z -> list (list N) -> list N.
Variable f_ocgrfile : nat -> Z -> bool -> list (list N) -> list N.
Variable f_cov : nat -> nat -> nat -> bool -> list N -> list (list N) -> list (list N) -> list N.
Variable f_s2m f_m2s : nat -> nat -> list (list N) -> list N.
Variable f_ctr : nat -> bool -> list (list N) -> list N.

Let T := str "t".
Ltac key_ne := vm_compute; reflexivity.

Lemma numeric_drop field key st : list_eqb T (str key) = false ->
  numeric ranges field key (drop_key T st) = numeric ranges field key st.
Proof. intros H. unfold numeric, getn. now rewrite (get_drop (str key) T st H). Qed.

Lemma has_drop key st : list_eqb T (str key) = false -> has key (drop_key T st) = has key st.
Proof. intros H. unfold has. now rewrite (get_drop (str key) T st H). Qed.

Lemma getn_drop key st : list_eqb T (str key) = false -> getn key (drop_key T st) = getn key st.
Proof. intros H. unfold getn. now rewrite (get_drop (str key) T st H). Qed.

Lemma preset_drop tbl st : preset tbl (drop_key T st) = preset tbl st.
Proof. unfold preset. rewrite (get_drop (str "p") T st) by key_ne. reflexivity. Qed.

Theorem cli_ignores_threads sub st recs alt :
  cli ranges presets_oligo presets_cov refuse_w_le_m refuse_m_ge refuse_whole_counts
      f_ofile f_cgrfile f_ocgrfile f_cov f_s2m f_m2s f_ctr sub (drop_key T st) recs alt =
  cli ranges presets_oligo presets_cov refuse_w_le_m refuse_m_ge refuse_whole_counts
      f_ofile f_cgrfile f_ocgrfile f_cov f_s2m f_m2s f_ctr sub st recs alt.
Proof.
  unfold cli.
  rewrite !numeric_drop by key_ne. rewrite !preset_drop. rewrite !has_drop by key_ne.
  rewrite !getn_drop by key_ne. rewrite (get_drop (str "p") T st) by key_ne. reflexivity.
Qed.
End ThreadOption.
