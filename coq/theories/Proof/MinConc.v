(* C09 layers 1 and 3 glued: concrete (fixed) minimiser model = grouping spec *)
From Coq Require Import ZArith NArith List Lia Bool Arith.
From Coq Require Import ZifyN ZifyNat ZifyBool.
From KT Require Import Base.Bits Model.Kmer Proof.KmerProof Proof.Regs Proof.MinAbs Proof.MinSpec.
Import ListNotations.
Open Scope N_scope.
Arguments N.min : simpl never. Arguments N.ltb : simpl never. Arguments N.eqb : simpl never.
Arguments N.pow : simpl never.

Section MinConc.
Variable nt4 : N -> N.
Variables w m : nat.
Hypothesis Hm : (1 <= m <= w)%nat.
Hypothesis Hm31 : (m <= 31)%nat.
Let L := (w - m + 1)%nat.
Notation clean := (clean nt4).
Notation tcl := (tcl nt4).
Notation ev_of := (ev_of nt4 m).
Notation canon := (canon nt4 m).

(* ---------- concrete model: registers + abstract control ---------- *)
Record mst := mkm { vf : N; vr : N; vl : nat; ctl : ast }.

Definition reg_step (f r : N) (l : nat) (b : N) : (N * N * nat) * ev :=
  let c := nt4 b in
  if c <? 4 then
    let f' := fpush m f c in
    let r' := rpush m r c in
    let l' := S l in
    if (l' <? m)%nat then ((f', r', l'), Short)
    else ((f', r', (l' - 1)%nat), Val (N.min f' r'))
  else ((0, 0, 0%nat), Amb).

Definition mg_step (pos : nat) (st : mst) (b : N) : mst * option out :=
  let '((f, r, l), e) := reg_step (vf st) (vr st) (vl st) b in
  let '(a', o) := astep w L pos (ctl st) e in
  (mkm f r l a', o).

Fixpoint mg_go (st : mst) (pos : nat) (rest : list N) : list out :=
  match rest with
  | [] => ol (afinish pos (ctl st))
  | b :: t => let '(st', o) := mg_step pos st b in ol o ++ mg_go st' (S pos) t
  end.

Definition mg_init : mst := mkm 0 0 0 (mka [] 0 MAXV 0).
Definition mg_run (s : list N) : list out := mg_go mg_init 0 s.

(* ---------- layer 1: registers compute the events ---------- *)
Definition cs_of (r : list N) : list N := map nt4 (firstn (tcl r) r).

Lemma forallb_firstn_tcl r n : (n <= tcl r)%nat -> forallb clean (firstn n r) = true.
Proof.
  revert n. induction r as [|b r IH]; intros n Hn.
  - now rewrite firstn_nil.
  - destruct n as [|n]; [reflexivity|]. cbn [MinSpec.tcl] in Hn. cbn [firstn forallb].
    destruct (clean b); [|lia]. rewrite IH by lia. reflexivity.
Qed.

Lemma tcl_le' r : (tcl r <= length r)%nat.
Proof. induction r as [|b r IH]; cbn [MinSpec.tcl length]; [lia|]. destruct (clean b); lia. Qed.

Lemma cs_dig r : dig (cs_of r).
Proof.
  unfold cs_of, dig. apply Forall_forall. intros x Hx. apply in_map_iff in Hx as [b [<- Hb]].
  pose proof (forallb_firstn_tcl r (tcl r) (le_n _)) as Hall. rewrite forallb_forall in Hall.
  specialize (Hall b Hb). unfold Kmer.clean in Hall. lia.
Qed.

Definition RInv (r : list N) (f rr : N) (l : nat) : Prop :=
  l = Nat.min (tcl r) (m - 1) /\ RegInv m (cs_of r) f rr.

Lemma canon_regs r f rr : (m <= tcl r)%nat -> RegInv m (cs_of r) f rr -> N.min f rr = canon r.
Proof.
  intros Ht HR.
  assert (Hlen : (m <= length (cs_of r))%nat).
  { unfold cs_of. rewrite map_length, firstn_length. pose proof (tcl_le' r). lia. }
  destruct (reg_window m (cs_of r) f rr ltac:(lia) (cs_dig r) Hlen HR) as [Hf Hr].
  unfold MinSpec.canon, fwd_code, rev_code. rewrite rev_involutive.
  assert (Hfm : firstn m (cs_of r) = map nt4 (firstn m r)).
  { unfold cs_of. rewrite firstn_map. f_equal. rewrite firstn_firstn. f_equal. lia. }
  rewrite Hf, Hr, Hfm. rewrite map_rev, map_map. reflexivity.
Qed.

Lemma reg_step_spec r f rr l b :
  RInv r f rr l ->
  let '((f', rr', l'), e) := reg_step f rr l b in
  e = ev_of (b :: r) /\ RInv (b :: r) f' rr' l'.
Proof.
  intros [Hl HR]. unfold reg_step, MinSpec.ev_of. cbn [MinSpec.tcl].
  destruct (nt4 b <? 4) eqn:Hc.
  - assert (Hcl : clean b = true) by exact Hc. rewrite Hcl.
    assert (HR' : RegInv m (cs_of (b :: r)) (fpush m f (nt4 b)) (rpush m rr (nt4 b))).
    { unfold cs_of. cbn [MinSpec.tcl]. rewrite Hcl. cbn [firstn map].
      apply reg_push; [lia|exact HR|lia]. }
    rewrite Hl.
    destruct (Nat.ltb_spec (S (Nat.min (tcl r) (m - 1))) m) as [H1|H1].
    + destruct (Nat.ltb_spec (S (tcl r)) m) as [H2|H2]; [|lia].
      split; [reflexivity|]. split; [|exact HR']. cbn [MinSpec.tcl]. rewrite Hcl. lia.
    + destruct (Nat.ltb_spec (S (tcl r)) m) as [H2|H2]; [lia|].
      split.
      * f_equal. apply canon_regs; [cbn [MinSpec.tcl]; rewrite Hcl; lia|exact HR'].
      * split; [|exact HR']. cbn [MinSpec.tcl]. rewrite Hcl. lia.
  - assert (Hcl : clean b = false) by exact Hc. rewrite Hcl.
    split; [reflexivity|]. split.
    + cbn [MinSpec.tcl]. rewrite Hcl. lia.
    + unfold cs_of. cbn [MinSpec.tcl]. rewrite Hcl. cbn [firstn map]. apply reg_init. lia.
Qed.

(* ---------- values are below the sentinel ---------- *)
Lemma canon_small r : (m <= tcl r)%nat -> canon r < MAXV.
Proof.
  intros Ht. unfold MinSpec.canon.
  assert (Hd : dig (map nt4 (rev (firstn m r)))).
  { apply Forall_forall. intros x Hx. apply in_map_iff in Hx as [b [<- Hb]]. apply in_rev in Hb.
    pose proof (forallb_firstn_tcl r m Ht) as Hall. rewrite forallb_forall in Hall.
    specialize (Hall b Hb). unfold Kmer.clean in Hall. lia. }
  pose proof (code_lt _ Hd) as HH. rewrite map_length, rev_length, firstn_length in HH.
  assert (H62 : 4 ^ N.of_nat (Nat.min m (length r)) <= 4 ^ 31) by (apply N.pow_le_mono_r; lia).
  unfold fwd_code. unfold MAXV. change (4^31) with 4611686018427387904 in H62. lia.
Qed.

Lemma ev_val_small r v : ev_of r = Val v -> v < MAXV.
Proof.
  unfold MinSpec.ev_of. destruct r as [|b r]; [discriminate|].
  destruct (clean b); [|discriminate].
  destruct (Nat.ltb_spec (tcl (b :: r)) m); [discriminate|].
  intros E. inversion E. apply canon_small. lia.
Qed.

(* ---------- gluing ---------- *)
Lemma mg_ref rest : forall st rs r,
  RInv r (vf st) (vr st) (vl st) -> Rel L (ctl st) rs ->
  mg_go st (length r) rest = ref_go nt4 w m rs r rest.
Proof.
  induction rest as [|b t IH]; intros st rs r HR HRel.
  - cbn [mg_go ref_go]. unfold afinish, rfinish.
    destruct HRel as (Hb & Hlen & Hs & Hc).
    destruct (cur rs) as [[v s]|].
    + destruct Hc as (Hl & Ha & Hw & Hmin & _).
      assert (v < MAXV).
      { rewrite Hmin. apply lmin_small; [exact Hs|]. intro E. rewrite E in Hl. cbn in Hl. unfold L in Hl. lia. }
      destruct (N.eqb_spec (active (ctl st)) MAXV); [lia|]. rewrite Ha, Hw. reflexivity.
    + destruct Hc as (_ & Ha & _). rewrite Ha. reflexivity.
  - cbn [mg_go ref_go]. unfold mg_step.
    pose proof (reg_step_spec r _ _ _ b HR) as Hreg.
    destruct (reg_step (vf st) (vr st) (vl st) b) as [[[f' rr'] l'] e]. destruct Hreg as [-> HR'].
    pose proof (sim_step w L (length r) (ctl st) rs (ev_of (b :: r)) ltac:(unfold L; lia) HRel
                  (fun v E => ev_val_small _ v E)) as Hsim.
    fold L.
    destruct (astep w L (length r) (ctl st) (ev_of (b :: r))) as [a' o].
    destruct (rstep w L (length r) rs (ev_of (b :: r))) as [rs' o'].
    destruct Hsim as [HRel' ->]. f_equal.
    apply (IH (mkm f' rr' l' a') rs' (b :: r)); assumption.
Qed.

Theorem mg_run_grp s : mg_run s = grp_go nt4 w m None [] s.
Proof.
  unfold mg_run. change (mg_go mg_init 0 s) with (mg_go mg_init (length (@nil N)) s).
  rewrite (mg_ref s mg_init (mkr [] None 0) []).
  - apply ref_grp; [exact Hm|]. unfold Inv2, nm. cbn [MinSpec.tcl rb cur seg length].
    replace (0 + 1 - m)%nat with 0%nat by lia.
    split; [reflexivity|]. split; [reflexivity|]. split; [reflexivity|]. split; [|reflexivity].
    intros Hw. exfalso. lia.
  - unfold RInv, cs_of. cbn. split; [lia|]. apply reg_init. lia.
  - unfold Rel. cbn. repeat split; auto; try (unfold L; lia). constructor.
Qed.
End MinConc.
Check mg_run_grp.
Print Assumptions mg_run_grp.
