(* C02 prototype: rev_comp and numeric_to_kmer against base-4 digit lists *)
From Coq Require Import ZArith NArith List Lia Bool Arith.
From Coq Require Import ZifyN ZifyNat ZifyBool.
From KT Require Import Base.Bits Model.Kmer Proof.KmerProof Proof.Regs.
Import ListNotations.
Open Scope N_scope.
Arguments N.add : simpl never. Arguments N.mul : simpl never. Arguments N.sub : simpl never.
Arguments N.pow : simpl never. Arguments N.ltb : simpl never. Arguments N.div : simpl never.
Arguments N.modulo : simpl never.

(* the Rust loop: for _ in 0..k { rk <<= 2; rk |= (x & 3) ^ 3; x >>= 2 } *)
Fixpoint rc_loop (n : nat) (x r : N) : N :=
  match n with
  | O => r
  | S n' => rc_loop n' (N.shiftr x 2) (N.lor (shl64 r 2) (N.lxor (N.land x 3) 3))
  end.
Definition rev_comp (k : nat) (x : N) : N := rc_loop k x 0.

(* digits, most significant first *)
Fixpoint digits_lsb (k : nat) (x : N) : list N :=
  match k with O => [] | S k' => x mod 4 :: digits_lsb k' (x / 4) end.
Definition digits (k : nat) (x : N) : list N := rev (digits_lsb k x).
Definition rc (l : list N) : list N := map compl (rev l).

Lemma digits_len k x : length (digits k x) = k.
Proof. unfold digits. rewrite rev_length. revert x. induction k as [|k IH]; intros x; cbn; auto. Qed.

Lemma digits_dig k x : dig (digits k x).
Proof.
  unfold digits, dig. apply Forall_forall. intros d Hd. apply in_rev in Hd.
  revert x Hd. induction k as [|k IH]; intros x Hd; cbn in Hd; [tauto|].
  destruct Hd as [<-|Hd]; [apply N.mod_lt; lia|eauto].
Qed.

Lemma code_digits k x : x < 4 ^ N.of_nat k -> code (digits k x) = x.
Proof.
  revert x. induction k as [|k IH]; intros x Hx.
  - cbn in *. unfold code. cbn. lia.
  - unfold digits in *. cbn [digits_lsb rev]. rewrite code_snoc, IH.
    + pose proof (N.div_mod x 4). lia.
    + rewrite Nat2N.inj_succ, N.pow_succ_r' in Hx. apply N.div_lt_upper_bound; lia.
Qed.

Lemma digits_code l : dig l -> digits (length l) (code l) = l.
Proof.
  induction l as [|d l IH] using rev_ind; intros Hd; [reflexivity|].
  apply Forall_app in Hd as [Hd1 Hd2]. inversion Hd2; subst.
  rewrite app_length. cbn [length]. rewrite Nat.add_1_r. unfold digits. cbn [digits_lsb rev].
  rewrite code_snoc.
  replace ((4 * code l + d) mod 4) with d by (apply N.mod_unique with (q := code l); lia).
  replace ((4 * code l + d) / 4) with (code l) by (apply N.div_unique with (r := d); lia).
  fold (digits (length l) (code l)). rewrite IH by exact Hd1. reflexivity.
Qed.

Lemma rc_dig l : dig (rc l).
Proof. apply Forall_forall. intros x Hx. apply in_map_iff in Hx as [d [<- _]]. unfold compl. lia. Qed.

Lemma rc_involutive l : dig l -> rc (rc l) = l.
Proof.
  intros Hd. unfold rc. rewrite <- map_rev, rev_involutive, map_map.
  rewrite <- (map_id l) at 2. apply map_ext_in. intros d Hin.
  unfold dig in Hd. rewrite Forall_forall in Hd. specialize (Hd d Hin). unfold compl. lia.
Qed.

(* loop invariant: r holds j digits already produced, x holds n digits still to consume *)
Lemma rc_loop_spec n : forall dx dr,
  dig dx -> dig dr -> length dx = n -> (length dr + n <= 32)%nat ->
  rc_loop n (code dx) (code dr) = code (dr ++ rc dx).
Proof.
  induction n as [|n IH]; intros dx dr Hdx Hdr Hl Hb.
  - destruct dx; [|discriminate]. cbn. now rewrite app_nil_r.
  - destruct (exists_last (l := dx)) as [dx' [d ->]]; [intro E; subst; discriminate|].
    apply Forall_app in Hdx as [Hdx' Hd]. inversion Hd as [|? ? Hd4 _]; subst.
    rewrite app_length in Hl. cbn [length] in Hl.
    cbn [rc_loop]. rewrite code_snoc.
    assert (Hx3 : N.land (4 * code dx' + d) 3 = d).
    { change 3 with (N.ones 2). rewrite N.land_ones. change (2^2) with 4.
      symmetry. apply N.mod_unique with (q := code dx'); lia. }
    assert (Hsh : N.shiftr (4 * code dx' + d) 2 = code dx').
    { rewrite N.shiftr_div_pow2. change (2^2) with 4. symmetry. apply N.div_unique with (r := d); lia. }
    rewrite Hx3, Hsh, lxor3 by exact Hd4.
    assert (Hr : N.lor (shl64 (code dr) 2) (3 - d) = code (dr ++ [3 - d])).
    { unfold shl64. pose proof (code_lt _ Hdr) as Hlt.
      assert (4 ^ N.of_nat (length dr) <= 4 ^ 31) by (apply N.pow_le_mono_r; lia).
      rewrite N.mod_small.
      - rewrite N.lor_comm, (lor_add_disjoint (3 - d) (code dr) 2) by (cbn; lia).
        rewrite code_snoc. change (2^2) with 4. lia.
      - rewrite N.shiftl_mul_pow2. unfold W64. change (2^2) with 4. change (2^64) with (4 * 4^31). lia. }
    rewrite Hr. rewrite IH.
    + unfold rc. rewrite rev_app_distr. cbn [rev app map]. rewrite <- app_assoc. reflexivity.
    + exact Hdx'.
    + apply Forall_app. split; [exact Hdr|]. constructor; [lia|constructor].
    + lia.
    + rewrite app_length. cbn [length]. lia.
Qed.

Theorem rev_comp_digits k x : (k <= 32)%nat -> x < 4 ^ N.of_nat k ->
  rev_comp k x = code (rc (digits k x)).
Proof.
  intros Hk Hx. unfold rev_comp. rewrite <- (code_digits k x Hx) at 1.
  change 0 with (code []). rewrite rc_loop_spec.
  - reflexivity.
  - apply digits_dig.
  - constructor.
  - apply digits_len.
  - cbn [length]. lia.
Qed.

Theorem rev_comp_code k l : (k <= 32)%nat -> dig l -> length l = k -> rev_comp k (code l) = code (rc l).
Proof.
  intros Hk Hd Hl. rewrite rev_comp_digits; [|exact Hk|pose proof (code_lt l Hd) as H; rewrite Hl in H; exact H].
  rewrite <- Hl, digits_code by exact Hd. reflexivity.
Qed.

Theorem rev_comp_lt k x : (k <= 32)%nat -> x < 4 ^ N.of_nat k -> rev_comp k x < 4 ^ N.of_nat k.
Proof.
  intros Hk Hx. rewrite rev_comp_digits by assumption.
  pose proof (code_lt _ (rc_dig (digits k x))) as H. unfold rc in H at 2. rewrite map_length, rev_length, digits_len in H. exact H.
Qed.

Theorem rev_comp_involutive k x : (k <= 32)%nat -> x < 4 ^ N.of_nat k ->
  rev_comp k (rev_comp k x) = x.
Proof.
  intros Hk Hx. rewrite (rev_comp_digits k x Hk Hx).
  rewrite rev_comp_code; [| exact Hk | apply rc_dig | unfold rc; now rewrite map_length, rev_length, digits_len].
  rewrite rc_involutive by apply digits_dig. apply code_digits. exact Hx.
Qed.
Print Assumptions rev_comp_involutive.
