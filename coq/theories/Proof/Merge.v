(* C07 prototype: partition by (k-mer mod n_parts), per-chunk tables, merge = one line per distinct k-mer
   carrying its total number of occurrences *)
From Coq Require Import NArith List Lia Bool Arith Sorting.Permutation.
From Coq Require Import ZifyN ZifyNat ZifyBool.
Import ListNotations.

Lemma NoDup_app' {A} (l l' : list A) : NoDup l -> NoDup l' -> (forall x, In x l -> ~ In x l') -> NoDup (l ++ l').
Proof.
  induction 1 as [|a l Ha Hl IH]; intros Hl' Hd; [exact Hl'|]. cbn [app]. constructor.
  - intros Hin. apply in_app_or in Hin as [Hin|Hin]; [contradiction|]. apply (Hd a); [now left|exact Hin].
  - apply IH; [exact Hl'|]. intros x Hx. apply Hd. now right.
Qed.

Section Merge.
Variable n_parts : N.
Hypothesis Hn : (1 <= n_parts)%N.
Variable bags : list (list N).          (* the k-mers counted in each chunk pass, in any order *)

Definition occ (x : N) (l : list N) : nat := count_occ N.eq_dec l x.
Definition part_of (x : N) : N := (x mod n_parts)%N.

(* chunk file (part p, chunk c): one line per distinct key of that part with its count in that chunk *)
Definition chunk_file (p : N) (bag : list N) : list (N * nat) :=
  map (fun x => (x, occ x bag)) (nodup N.eq_dec (filter (fun x => N.eqb (part_of x) p) bag)).

(* merge of one partition: sum the counts of every key over all chunk files of that partition *)
Definition part_keys (p : N) : list N :=
  nodup N.eq_dec (concat (map (fun bag => map fst (chunk_file p bag)) bags)).
Definition lookup (x : N) (f : list (N * nat)) : nat :=
  match find (fun kv => N.eqb (fst kv) x) f with Some (_, c) => c | None => 0 end.
Fixpoint lsum (l : list nat) : nat := match l with [] => 0 | a :: t => a + lsum t end.
Definition merged_part (p : N) : list (N * nat) :=
  map (fun x => (x, lsum (map (fun bag => lookup x (chunk_file p bag)) bags))) (part_keys p).

Definition parts : list N := map N.of_nat (seq 0 (N.to_nat n_parts)).
Definition merged : list (N * nat) := concat (map merged_part parts).

Definition everything : list N := concat bags.

(* ---- facts ---- *)
Lemma lookup_chunk_file p bag x : part_of x = p -> lookup x (chunk_file p bag) = occ x bag.
Proof.
  intros Hp. unfold lookup, chunk_file.
  set (keys := nodup N.eq_dec (filter (fun x0 => N.eqb (part_of x0) p) bag)).
  destruct (in_dec N.eq_dec x keys) as [Hin|Hnin].
  - assert (G : forall l, In x l -> find (fun kv : N * nat => N.eqb (fst kv) x) (map (fun x0 => (x0, occ x0 bag)) l) = Some (x, occ x bag)).
    { induction l as [|a l IH]; intros H; [contradiction|]. cbn [map find fst].
      destruct (N.eqb_spec a x) as [->|Hne]; [reflexivity|]. apply IH. destruct H; [congruence|assumption]. }
    rewrite (G keys Hin). reflexivity.
  - assert (G : forall l, ~ In x l -> find (fun kv : N * nat => N.eqb (fst kv) x) (map (fun x0 => (x0, occ x0 bag)) l) = None).
    { induction l as [|a l IH]; intros H; [reflexivity|]. cbn [map find fst].
      destruct (N.eqb_spec a x) as [->|Hne]; [exfalso; apply H; now left|]. apply IH. intro; apply H; now right. }
    rewrite (G keys Hnin). symmetry. apply count_occ_not_In. intro Hb. apply Hnin.
    unfold keys. apply nodup_In, filter_In. split; [exact Hb|]. apply N.eqb_eq. exact Hp.
Qed.

Lemma occ_concat x (ls : list (list N)) : occ x (concat ls) = lsum (map (occ x) ls).
Proof. induction ls as [|l ls IH]; [reflexivity|]. cbn [concat map lsum]. unfold occ in *. rewrite count_occ_app, IH. reflexivity. Qed.

Lemma in_part_keys p x : In x (part_keys p) <-> In x everything /\ part_of x = p.
Proof.
  unfold part_keys, everything. rewrite nodup_In, in_concat. split.
  - intros [l [Hl Hx]]. apply in_map_iff in Hl as [bag [<- Hbag]].
    unfold chunk_file in Hx. rewrite map_map in Hx. cbn [fst] in Hx. rewrite map_id in Hx.
    apply nodup_In, filter_In in Hx as [Hx Hp]. split; [|apply N.eqb_eq; exact Hp].
    apply in_concat. exists bag. split; assumption.
  - intros [Hx Hp]. apply in_concat in Hx as [bag [Hbag Hx]].
    exists (map fst (chunk_file p bag)). split; [apply in_map_iff; exists bag; split; [reflexivity|exact Hbag]|].
    unfold chunk_file. rewrite map_map. cbn [fst]. rewrite map_id. apply nodup_In, filter_In. split; [exact Hx|apply N.eqb_eq; exact Hp].
Qed.

Lemma in_parts p : In p parts <-> (p < n_parts)%N.
Proof.
  unfold parts. rewrite in_map_iff. split.
  - intros [i [<- Hi]]. apply in_seq in Hi. lia.
  - intros H. exists (N.to_nat p). split; [lia|]. apply in_seq. lia.
Qed.

(* every line carries the total count of its key *)
Theorem merged_counts x c : In (x, c) merged -> c = occ x everything /\ In x everything.
Proof.
  unfold merged. rewrite in_concat. intros [l [Hl Hx]]. apply in_map_iff in Hl as [p [<- Hp]].
  unfold merged_part in Hx. apply in_map_iff in Hx as [y [E Hy]]. inversion E; subst y c. clear E.
  apply in_part_keys in Hy as [Hin Hpx]. split; [|exact Hin].
  unfold everything. rewrite occ_concat. f_equal. apply map_ext. intros bag. apply lookup_chunk_file. exact Hpx.
Qed.

(* exactly one line per distinct k-mer *)
Lemma fst_merged_part p : map fst (merged_part p) = part_keys p.
Proof. unfold merged_part. rewrite map_map. cbn [fst]. apply map_id. Qed.

Theorem merged_keys_nodup : NoDup (map fst merged).
Proof.
  unfold merged. rewrite concat_map, map_map.
  assert (Hparts : NoDup parts).
  { unfold parts. apply FinFun.Injective_map_NoDup; [intros a b E; lia|apply seq_NoDup]. }
  induction parts as [|p ps IH]; [constructor|]. cbn [map concat].
  inversion Hparts as [|? ? Hnp Hps]; subst. rewrite fst_merged_part.
  apply NoDup_app'; [apply NoDup_nodup|apply IH; exact Hps|].
  intros x Hx Hin. apply in_part_keys in Hx as [_ Hpx].
  apply in_concat in Hin as [l [Hl Hxl]]. apply in_map_iff in Hl as [q [<- Hq]].
  rewrite fst_merged_part in Hxl. apply in_part_keys in Hxl as [_ Hqx]. congruence.
Qed.

(* and nothing is missing: every k-mer that occurs has its line *)
Theorem merged_complete x : In x everything -> In (x, occ x everything) merged.
Proof.
  intros Hx. unfold merged. apply in_concat. exists (merged_part (part_of x)). split.
  - apply in_map_iff. exists (part_of x). split; [reflexivity|]. apply in_parts. unfold part_of. apply N.mod_lt. lia.
  - unfold merged_part. apply in_map_iff. exists x. split.
    + f_equal. unfold everything. rewrite occ_concat. f_equal. apply map_ext. intros bag. apply lookup_chunk_file. reflexivity.
    + apply in_part_keys. split; [exact Hx|reflexivity].
Qed.
End Merge.
Check merged_counts. Check merged_keys_nodup. Check merged_complete.
Print Assumptions merged_complete.
