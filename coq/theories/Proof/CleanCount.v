(* A record made only of nucleotide letters has exactly |s| + 1 - k valid windows: the number the harness uses
   for records that are too long for the executable models (obig). *)
From Coq Require Import NArith List Lia Bool Arith.
From KT Require Import Gen.Alphabet Model.Kmer Model.Rows.
Import ListNotations.

Lemma forallb_firstn {A} (f : A -> bool) k : forall l, forallb f l = true -> forallb f (firstn k l) = true.
Proof.
  induction k as [|k IH]; intros [|a l] H; cbn in *; try reflexivity.
  apply andb_prop in H as [Ha Hl]. now rewrite Ha, IH.
Qed.
Lemma forallb_tl {A} (f : A -> bool) l : forallb f l = true -> forallb f (tl l) = true.
Proof. destruct l as [|a l]; cbn; [auto|]. intros H. now apply andb_prop in H as [_ H]. Qed.

Lemma windows_go_clean nt k n : forall s, forallb (clean nt) s = true -> length (windows_go nt k n s) = n.
Proof.
  induction n as [|n IH]; intros s H; cbn [windows_go]; [reflexivity|].
  rewrite app_length, IH by (now apply forallb_tl). unfold emit. rewrite forallb_firstn by exact H. reflexivity.
Qed.

Theorem clean_record_window_count k s :
  forallb (clean digit_of_letter) s = true -> oligo_total_spec k s = (length s + 1 - k)%nat.
Proof. intros H. unfold oligo_total_spec, spec_kmers. now apply windows_go_clean. Qed.
