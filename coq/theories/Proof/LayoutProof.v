(* C14 / C05: every normalised oligo row has exactly the length the mapped writer reserves for it, whatever the
   record and the delimiter: kcount numbers of 8 characters, kcount - 1 delimiters, one line feed.  This is what
   makes "row n at header + n * row_len" a tiling of the file.  (Uses FmtProof, hence the real-number axioms.) *)
From Coq Require Import ZArith NArith List Lia Bool Arith.
From Coq Require Import ZifyN ZifyNat ZifyBool.
From KT Require Import Gen.Generated Gen.Alphabet Model.Kmer Model.Show Model.Flt Model.Ops Model.Rows Model.Pipeline.
From KT Require Import Proof.PosMap Proof.Oligo Proof.RowsProof Proof.FmtProof.
Import ListNotations.
Open Scope N_scope.

Lemma pad_go_length w : forall m acc, length (pad_go w m acc) = (w + length acc)%nat.
Proof. induction w as [|w IH]; intros m acc; cbn [pad_go]; [reflexivity|]. rewrite IH. cbn [length]. lia. Qed.

Lemma fix6_length n : n <= 1000000 -> length (fix6 n) = 8%nat.
Proof.
  intros H. unfold fix6. rewrite app_length. cbn [length]. unfold pad. rewrite pad_go_length.
  assert (Hd : n / 1000000 = 0 \/ n / 1000000 = 1).
  { assert (n / 1000000 <= 1) by (apply N.div_le_upper_bound; lia). lia. }
  destruct Hd as [-> | ->]; reflexivity.
Qed.

Lemma entry_text_length t c : (c <= Nat.max 1 t)%nat -> (Z.of_nat (Nat.max 1 t) < 2 ^ 53)%Z ->
  length (entry_text true t c) = 8%nat.
Proof.
  intros Hc Ht. unfold entry_text, denom.
  assert (Hd : Z.max 1 (Z.of_nat t) = Z.of_nat (Nat.max 1 t)) by lia.
  rewrite Hd.
  destruct (norm6_width (Z.of_nat c) (Z.of_nat (Nat.max 1 t)) ltac:(lia) ltac:(lia)) as [n [-> Hn]].
  apply fix6_length. lia.
Qed.

Lemma join_length (sep : list N) (a : nat) : forall l : list (list N), l <> [] -> Forall (fun x => length x = a) l ->
  length (join sep l) = (length l * a + (length l - 1) * length sep)%nat.
Proof.
  induction l as [|x t IH]; intros Hne Hall; [contradiction|].
  inversion Hall as [|? ? Hx Ht]. subst l x0. destruct t as [|y t'].
  - cbn. lia.
  - change (join sep (x :: y :: t')) with (x ++ sep ++ join sep (y :: t')).
    rewrite !app_length, IH by (try discriminate; exact Ht). cbn [length]. nia.
Qed.

Lemma count_occ_le (l : list N) x : (count_occ N.eq_dec l x <= length l)%nat.
Proof. induction l as [|y t IH]; cbn; [lia|]. destruct (N.eq_dec y x); lia. Qed.

(* every normalised row of the model has length kcount * 8 + (kcount - 1) * |delim| + 1 *)
Theorem oligo_row_length k delim s : (1 <= k <= 31)%nat ->
  Forall (fun b => nt4k b = digit_of_letter b) s -> (Z.of_nat (S (length s)) < 2 ^ 53)%Z ->
  length (oligo_row_bytes k true delim s) = row_len k (length delim).
Proof.
  intros Hk Hs Hlen. unfold oligo_row_bytes, row_text, row_len.
  destruct (oligo_counts_spec_eq k Hk s Hs) as [Ec Et]. rewrite Ec, Et.
  rewrite app_length. cbn [length].
  assert (Hcols : length (oligo_counts_spec k s) = length (min_mer_vec k)).
  { unfold oligo_counts_spec. rewrite map_length. now rewrite (canon_list_eq k Hk). }
  assert (Hne : min_mer_vec k <> []).
  { rewrite <- (canon_list_eq k Hk). intro E.
    assert (Hin : In 0 (canon_list k)).
    { apply (in_canon_list k Hk). split; [assert (4 ^ N.of_nat k <> 0) by (apply N.pow_nonzero; lia); lia|]. unfold canonb. apply N.leb_le. lia. }
    rewrite E in Hin. destruct Hin. }
  assert (Htot : (oligo_total_spec k s <= length s)%nat).
  { unfold oligo_total_spec, spec_kmers. clear -Hk.
    assert (G : forall n l, (length (windows_go digit_of_letter k n l) <= n)%nat).
    { induction n as [|n IH]; intros l; cbn [windows_go]; [cbn; lia|]. rewrite app_length.
      specialize (IH (tl l)). assert (length (emit digit_of_letter (firstn k l)) <= 1)%nat by (unfold emit; destruct (forallb _ _); cbn; lia). lia. }
    specialize (G (length s + 1 - k)%nat s). lia. }
  rewrite (join_length delim 8).
  - rewrite map_length, Hcols. lia.
  - intro E. apply map_eq_nil in E. rewrite <- length_zero_iff_nil in E. rewrite Hcols in E.
    apply Hne. now apply length_zero_iff_nil.
  - apply Forall_forall. intros x Hx. apply in_map_iff in Hx as [c [<- Hc]].
    apply entry_text_length; [|lia].
    unfold oligo_counts_spec in Hc. apply in_map_iff in Hc as [col [<- _]].
    pose proof (count_occ_le (map canon_of (spec_kmers digit_of_letter k s)) col) as Hle.
    rewrite map_length in Hle. unfold oligo_total_spec. lia.
Qed.
