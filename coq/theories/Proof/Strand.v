(* C02 prototype, strand symmetry: the window spec of a reverse-complemented sequence is the
   reversed spec with the strands swapped *)
From Coq Require Import ZArith NArith List Lia Bool Arith Sorting.Permutation.
From Coq Require Import ZifyN ZifyNat ZifyBool.
From KT Require Import Base.Bits Model.Kmer Proof.KmerProof.
Import ListNotations.
Open Scope N_scope.

Section Strand.
Variable nt4 : N -> N.
Variable cb : N -> N.                       (* complement of a byte; ambiguous bytes stay ambiguous *)
Hypothesis cb_clean : forall b, clean nt4 (cb b) = clean nt4 b.
Hypothesis cb_digit : forall b, clean nt4 b = true -> nt4 (cb b) = 3 - nt4 b.
Variable k : nat.

Definition rc_bytes (s : list N) : list N := rev (map cb s).
Definition swap (p : N * N) : N * N := (snd p, fst p).

Lemma fwd_rc w : forallb (clean nt4) w = true -> fwd_code nt4 (rc_bytes w) = rev_code nt4 w.
Proof.
  intros Hall. rewrite forallb_forall in Hall. unfold fwd_code, rev_code, rc_bytes.
  rewrite map_rev, map_map. f_equal. rewrite (map_rev (fun b => 3 - nt4 b)). f_equal.
  apply map_ext_in. intros b Hb. apply cb_digit. apply Hall. exact Hb.
Qed.

Lemma rev_rc w : forallb (clean nt4) w = true -> rev_code nt4 (rc_bytes w) = fwd_code nt4 w.
Proof.
  intros Hall. rewrite forallb_forall in Hall. unfold fwd_code, rev_code, rc_bytes.
  rewrite rev_involutive, map_map. f_equal.
  apply map_ext_in. intros b Hb. rewrite cb_digit by (apply Hall; exact Hb).
  specialize (Hall b Hb). unfold clean in Hall. lia.
Qed.

Lemma emit_rc w : emit nt4 (rc_bytes w) = map swap (emit nt4 w).
Proof.
  unfold emit.
  assert (Hf : forallb (clean nt4) (rc_bytes w) = forallb (clean nt4) w).
  { unfold rc_bytes. rewrite forallb_rev. induction w as [|b w IH]; [reflexivity|]. cbn [map forallb]. now rewrite cb_clean, IH. }
  rewrite Hf. destruct (forallb (clean nt4) w) eqn:Hall; [|reflexivity].
  cbn [map]. unfold swap. cbn [fst snd]. rewrite (fwd_rc w Hall), (rev_rc w Hall). reflexivity.
Qed.

Lemma window_rc s p : (p + k <= length s)%nat ->
  window (rc_bytes s) p k = rc_bytes (window s (length s - k - p) k).
Proof.
  intros Hp. unfold window, rc_bytes.
  set (M := map cb s). assert (HM : length M = length s) by (unfold M; apply map_length).
  rewrite skipn_rev, firstn_rev. f_equal.
  rewrite firstn_length, HM.
  replace (Nat.min (length s - p) (length s) - k)%nat with (length s - k - p)%nat by lia.
  rewrite skipn_firstn_comm.
  replace (length s - p - (length s - k - p))%nat with k by lia.
  unfold M. rewrite skipn_map, firstn_map. reflexivity.
Qed.

Lemma emit_short w : (length (emit nt4 w) <= 1)%nat.
Proof. unfold emit. destruct (forallb _ _); cbn; lia. Qed.

Lemma rev_flat_map_short {A B} (g : A -> list B) l :
  (forall a, (length (g a) <= 1)%nat) -> rev (flat_map g l) = flat_map g (rev l).
Proof.
  intros Hg. induction l as [|a l IH]; [reflexivity|]. cbn [flat_map rev].
  rewrite rev_app_distr, IH, flat_map_app. cbn [flat_map]. rewrite app_nil_r. f_equal.
  specialize (Hg a). destruct (g a) as [|x [|y t]]; cbn in *; try reflexivity; lia.
Qed.

Lemma rev_seq0 n : rev (seq 0 n) = map (fun p => (n - 1 - p)%nat) (seq 0 n).
Proof.
  induction n as [|n IH]; [reflexivity|].
  rewrite seq_S at 1. rewrite rev_app_distr. cbn [rev app Nat.add]. rewrite IH.
  cbn [seq map]. f_equal; [lia|]. rewrite <- seq_shift, map_map. apply map_ext_in. intros a Ha. apply in_seq in Ha. lia.
Qed.

Lemma flat_map_map {A B C} (f : A -> B) (g : B -> list C) l : flat_map g (map f l) = flat_map (fun a => g (f a)) l.
Proof. induction l as [|a l IH]; [reflexivity|]. cbn [map flat_map]. now rewrite IH. Qed.

Lemma map_flat_map {A B C} (f : B -> C) (g : A -> list B) l : map f (flat_map g l) = flat_map (fun a => map f (g a)) l.
Proof. induction l as [|a l IH]; [reflexivity|]. cbn [flat_map]. now rewrite map_app, IH. Qed.

Lemma flat_map_ext_in' {A B} (f g : A -> list B) l : (forall a, In a l -> f a = g a) -> flat_map f l = flat_map g l.
Proof. induction l as [|a l IH]; intros H; [reflexivity|]. cbn [flat_map]. rewrite (H a (or_introl eq_refl)), IH; [reflexivity|]. intros x Hx. apply H. now right. Qed.

Theorem spec_kmers_rc s :
  spec_kmers nt4 k (rc_bytes s) = rev (map swap (spec_kmers nt4 k s)).
Proof.
  rewrite !spec_kmers_windows.
  assert (Hl : length (rc_bytes s) = length s) by (unfold rc_bytes; now rewrite rev_length, map_length).
  rewrite Hl. set (n := (length s + 1 - k)%nat).
  rewrite map_flat_map.
  rewrite rev_flat_map_short by (intros a; rewrite map_length; apply emit_short).
  rewrite rev_seq0, flat_map_map.
  apply flat_map_ext_in'. intros p Hp. apply in_seq in Hp.
  destruct (Nat.eq_dec k 0) as [Hk0|Hk0].
  - (* degenerate k = 0: every window is empty *)
    subst k. unfold window. cbn [firstn]. reflexivity.
  - rewrite window_rc by (unfold n in *; lia). rewrite emit_rc.
    f_equal. f_equal. f_equal. unfold n in *. lia.
Qed.

(* the canonical k-mers of a sequence and of its reverse complement are the same multiset *)
Definition cmin (p : N * N) : N := N.min (fst p) (snd p).
Corollary canon_multiset_rc s :
  Permutation (map cmin (spec_kmers nt4 k (rc_bytes s))) (map cmin (spec_kmers nt4 k s)).
Proof.
  rewrite spec_kmers_rc, map_rev, map_map. symmetry. etransitivity; [|apply Permutation_rev].
  apply Permutation_refl' . apply map_ext. intros [f r]. unfold cmin, swap. cbn [fst snd]. lia.
Qed.
End Strand.
Check spec_kmers_rc. Check canon_multiset_rc.
Print Assumptions canon_multiset_rc.
