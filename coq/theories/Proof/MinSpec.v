(* C09 layer 2: reference machine on events derived from bytes = grouping of window minima *)
From Coq Require Import ZArith NArith List Lia Bool Arith.
From Coq Require Import ZifyN ZifyNat ZifyBool.
From KT Require Import Base.Bits Model.Kmer Proof.KmerProof Proof.MinAbs.
Import ListNotations.
Open Scope N_scope.
Arguments N.min : simpl never. Arguments N.ltb : simpl never. Arguments N.eqb : simpl never.

Section MinSpec.
Variable nt4 : N -> N.
Variables w m : nat.
Hypothesis Hm : (1 <= m <= w)%nat.
Let L := (w - m + 1)%nat.
Notation clean := (clean nt4).

Fixpoint tcl (r : list N) : nat :=
  match r with [] => 0%nat | b :: r' => if clean b then S (tcl r') else 0%nat end.

(* canonical code of the m-mer whose last byte is the head of the reversed history *)
Definition canon (r : list N) : N :=
  let wd := rev (firstn m r) in N.min (fwd_code nt4 wd) (rev_code nt4 wd).

Definition ev_of (r : list N) : ev :=
  match r with
  | [] => Short
  | b :: _ => if clean b then (if (tcl r <? m)%nat then Short else Val (canon r)) else Amb
  end.

(* values of the m-mers ending at the last n positions, oldest first *)
Definition mvals (n : nat) (r : list N) : list N :=
  rev (map (fun i => canon (skipn i r)) (seq 0 n)).

Definition win_of (r : list N) : option N :=
  if (w <=? tcl r)%nat then Some (lmin (mvals L r)) else None.

Definition ol {A} (o : option A) : list A := match o with Some x => [x] | None => [] end.

Fixpoint ref_go (rs : rst) (r rest : list N) : list out :=
  match rest with
  | [] => ol (rfinish (length r) rs)
  | b :: t => let '(rs', o) := rstep w L (length r) rs (ev_of (b :: r)) in
              ol o ++ ref_go rs' (b :: r) t
  end.

Definition close (cur : option (N * nat)) (pos : nat) : list out :=
  match cur with Some (v, s) => [(v, s, pos)] | None => [] end.

Fixpoint grp_go (cur : option (N * nat)) (r rest : list N) : list out :=
  match rest with
  | [] => close cur (length r)
  | b :: t =>
    let pos := length r in
    match win_of (b :: r) with
    | None => close cur pos ++ grp_go None (b :: r) t
    | Some mv =>
      match cur with
      | Some (v, s) => if N.eqb mv v then grp_go cur (b :: r) t
                       else (v, s, pos) :: grp_go (Some (mv, (pos + 1 - w)%nat)) (b :: r) t
      | None => grp_go (Some (mv, (pos + 1 - w)%nat)) (b :: r) t
      end
    end
  end.

(* ---- list facts ---- *)
Lemma skipn_skipn' {A} a b (l : list A) : skipn a (skipn b l) = skipn (a + b) l.
Proof.
  revert l. induction b as [|b IH]; intros l.
  - rewrite Nat.add_0_r. reflexivity.
  - destruct l as [|x l]; [now rewrite !skipn_nil|]. rewrite Nat.add_succ_r. cbn [skipn]. apply IH.
Qed.

Lemma skipn_all2' {A} n (l : list A) : (length l <= n)%nat -> skipn n l = [].
Proof.
  revert l. induction n as [|n IH]; intros l H.
  - destruct l; [reflexivity|cbn in H; lia].
  - destruct l as [|x l]; [reflexivity|]. cbn [skipn]. apply IH. cbn in H. lia.
Qed.

Lemma mvals_S n b r : mvals (S n) (b :: r) = mvals n r ++ [canon (b :: r)].
Proof.
  unfold mvals. rewrite <- cons_seq. cbn [map rev skipn]. rewrite <- seq_shift, map_map. reflexivity.
Qed.

Lemma mvals_len n r : length (mvals n r) = n.
Proof. unfold mvals. now rewrite rev_length, map_length, seq_length. Qed.

Lemma keep_len l : length (keep L l) = Nat.min L (length l).
Proof. unfold keep. rewrite skipn_length. lia. Qed.

Lemma keep_keep_app l v : keep L (keep L l ++ [v]) = keep L (l ++ [v]).
Proof.
  destruct (Nat.le_gt_cases (length l) L) as [H|H].
  - unfold keep at 2. replace (length l - L)%nat with 0%nat by lia. reflexivity.
  - assert (HL : (1 <= L)%nat) by (unfold L; lia).
    unfold keep. rewrite !app_length, skipn_length. cbn [length].
    replace (length l - (length l - L) + 1 - L)%nat with 1%nat by lia.
    replace (length l + 1 - L)%nat with (1 + (length l - L))%nat by lia.
    rewrite <- skipn_skipn'. rewrite (skipn_app (length l - L) l).
    replace (length l - L - length l)%nat with 0%nat by lia. reflexivity.
Qed.

Lemma keep_mvals n r : (L <= n)%nat -> keep L (mvals n r) = mvals L r.
Proof.
  intros H. unfold keep. rewrite mvals_len. unfold mvals.
  replace n with (L + (n - L))%nat at 2 by lia. rewrite seq_app, map_app, rev_app_distr.
  rewrite skipn_app. rewrite rev_length, map_length, seq_length.
  rewrite Nat.sub_diag. cbn [skipn]. rewrite skipn_all2'; [reflexivity|].
  rewrite rev_length, map_length, seq_length. lia.
Qed.

(* ---- invariant ---- *)
Definition nm (r : list N) : nat := (tcl r + 1 - m)%nat.   (* number of m-mers in the trailing clean run *)

Definition Inv2 (rs : rst) (cur : option (N * nat)) (r : list N) : Prop :=
  rb rs = keep L (mvals (nm r) r) /\ MinAbs.cur rs = cur /\
  ((tcl r < w)%nat -> cur = None) /\ ((w <= tcl r)%nat -> cur <> None) /\
  seg rs = (length r - tcl r)%nat.

Lemma tcl_le r : (tcl r <= length r)%nat.
Proof. induction r as [|b r IH]; cbn [tcl length]; [lia|]. destruct (clean b); lia. Qed.

Lemma ref_grp rest : forall rs cur r, Inv2 rs cur r -> ref_go rs r rest = grp_go cur r rest.
Proof.
  induction rest as [|b t IH]; intros rs cur r (Hrb & Hc & Hn & Hs & Hseg).
  - cbn [ref_go grp_go]. unfold rfinish. rewrite Hc. destruct cur as [[v s]|]; reflexivity.
  - cbn [ref_go grp_go]. unfold win_of, ev_of. cbn [tcl].
    pose proof (tcl_le r) as Hle.
    destruct (clean b) eqn:Hcl.
    + (* clean byte *)
      destruct (Nat.ltb_spec (S (tcl r)) m) as [Hlt|Hge].
      * (* Short *)
        cbn [rstep]. destruct (Nat.leb_spec w (S (tcl r))); [lia|].
        rewrite (Hn ltac:(lia)). cbn [close app ol].
        apply IH. unfold Inv2, nm. cbn [tcl length]. rewrite Hcl.
        replace (S (tcl r) + 1 - m)%nat with 0%nat by lia.
        split; [rewrite Hrb; unfold nm; replace (tcl r + 1 - m)%nat with 0%nat by lia; reflexivity|].
        split; [rewrite Hc; apply Hn; lia|]. split; [reflexivity|]. split; [lia|]. rewrite Hseg. lia.
      * (* Val *)
        cbn [rstep].
        assert (Hnm : nm (b :: r) = S (nm r)) by (unfold nm; cbn [tcl]; rewrite Hcl; lia).
        assert (Hrb' : keep L (rb rs ++ [canon (b :: r)]) = keep L (mvals (nm (b :: r)) (b :: r))).
        { rewrite Hrb, keep_keep_app, Hnm, mvals_S. reflexivity. }
        rewrite Hrb'.
        assert (Hlen : length (keep L (mvals (nm (b :: r)) (b :: r))) = Nat.min L (nm (b :: r))).
        { rewrite keep_len, mvals_len. reflexivity. }
        destruct (Nat.leb_spec w (S (tcl r))) as [Hw|Hw].
        -- (* a full window ends here *)
           assert (HnmL : (L <= nm (b :: r))%nat) by (unfold nm, L; cbn [tcl]; rewrite Hcl; lia).
           rewrite Hlen. replace (Nat.min L (nm (b :: r))) with L by lia. rewrite Nat.eqb_refl.
           rewrite (keep_mvals _ _ HnmL). rewrite Hc.
           destruct cur as [[v0 s0]|] eqn:Ecur.
           ++ destruct (N.eqb_spec (lmin (mvals L (b :: r))) v0) as [He|He].
              ** cbn [ol app]. apply IH. unfold Inv2. cbn [rb MinAbs.cur seg tcl length]. rewrite Hcl.
                 rewrite (keep_mvals _ _ HnmL). repeat split; auto; try lia; try congruence.
              ** cbn [ol app]. f_equal. apply IH. unfold Inv2. cbn [rb MinAbs.cur seg tcl length]. rewrite Hcl.
                 rewrite (keep_mvals _ _ HnmL). repeat split; auto; try lia; try congruence.
           ++ (* first window of the segment: its start is the segment start *)
              assert (Htw : tcl r = (w - 1)%nat).
              { destruct (Nat.lt_ge_cases (tcl r) w) as [Hx|Hx]; [lia|]. exfalso. now apply (Hs Hx). }
              cbn [ol app].
              assert (Hst : seg rs = (length r + 1 - w)%nat) by (rewrite Hseg; lia).
              rewrite Hst. apply IH. unfold Inv2. cbn [rb MinAbs.cur seg tcl length]. rewrite Hcl.
              rewrite (keep_mvals _ _ HnmL). repeat split; auto; try lia; try congruence.
        -- (* not yet a full window *)
           rewrite Hlen. destruct (Nat.eqb_spec (Nat.min L (nm (b :: r))) L) as [Hx|Hx].
           { exfalso. unfold nm, L in Hx. cbn [tcl] in Hx. rewrite Hcl in Hx. lia. }
           rewrite (Hn ltac:(lia)) in *. cbn [close ol app].
           apply IH. unfold Inv2. cbn [rb MinAbs.cur seg tcl length]. rewrite Hcl.
           repeat split; auto; try lia.
    + (* ambiguous byte *)
      cbn [rstep]. destruct (Nat.leb_spec w 0); [lia|].
      rewrite Hc.
      assert (HI : Inv2 (mkr [] None (S (length r))) None (b :: r)).
      { unfold Inv2, nm. cbn [rb MinAbs.cur seg tcl length]. rewrite Hcl.
        replace (0 + 1 - m)%nat with 0%nat by lia.
        repeat split; auto; try lia. }
      destruct cur as [[v s]|]; cbn [ol close app]; [f_equal|]; apply IH; exact HI.
Qed.
End MinSpec.
Print Assumptions ref_grp.
