(* C17 / C07: the counter at the level of its files (Model/CtrFs.v).  Whatever the output directory held before,
   the run never fails on a missing file, kmers.counts receives exactly the merged table of this run's chunk
   passes, this run's temp files are gone afterwards and every other path is untouched. *)
From Coq Require Import NArith ZArith List Lia Bool Arith String.
From KT Require Import Model.Show Model.Fs Model.CtrFs Proof.Merge Proof.DecProof Proof.DegenerateProof.
Import ListNotations.
Open Scope N_scope.
Notation length := List.length.
Notation concat := List.concat.

(* ---------- the text of a temp file parses back to its table ---------- *)
Lemma split_go_nosep c a : forall cur, ~ In c a -> split_go c cur a = [rev cur ++ a].
Proof.
  induction a as [|b a IH]; intros cur H; cbn [split_go]; [now rewrite app_nil_r|].
  destruct (N.eqb_spec b c) as [->|Hb]; [exfalso; apply H; now left|].
  rewrite IH by (intro; apply H; now right). cbn [rev]. now rewrite <- app_assoc.
Qed.
Lemma split_go_sep c a r : forall cur, ~ In c a -> split_go c cur (a ++ c :: r) = (rev cur ++ a) :: split_go c [] r.
Proof.
  induction a as [|b a IH]; intros cur H; cbn [split_go app].
  - rewrite N.eqb_refl. now rewrite app_nil_r.
  - destruct (N.eqb_spec b c) as [->|Hb]; [exfalso; apply H; now left|].
    rewrite IH by (intro; apply H; now right). cbn [rev]. now rewrite <- app_assoc.
Qed.
Lemma digits_no (x : N) l : ~ (48 <= x < 58) -> Forall (fun d => 48 <= d < 58) l -> ~ In x l.
Proof. intros Hx Hl Hin. rewrite Forall_forall in Hl. apply Hx. now apply Hl. Qed.

Lemma line_body_no_lf kv : ~ In 10 (line_body kv).
Proof.
  unfold line_body. intros H. apply in_app_or in H as [H|[H|H]]; [|discriminate|].
  - revert H. apply digits_no; [lia|apply dec_digits].
  - revert H. apply digits_no; [lia|apply dec_digits].
Qed.
Lemma line_body_nonempty kv : is_nil (line_body kv) = false.
Proof. unfold line_body. pose proof (dec_nonempty (fst kv)) as H. destruct (dec (fst kv)); [congruence|reflexivity]. Qed.
Lemma parse_line_body kv : parse_line (line_body kv) = kv.
Proof.
  unfold parse_line, line_body, split_on.
  rewrite split_go_sep by (apply digits_no; [lia|apply dec_digits]).
  rewrite split_go_nosep by (apply digits_no; [lia|apply dec_digits]). cbn [rev app].
  rewrite parse_dec_dec, parse_nat_dec_nat. now destruct kv.
Qed.
Lemma split_lines l : split_on 10 (file_text l) = map line_body l ++ [[]].
Proof.
  unfold split_on, file_text. induction l as [|kv l IH]; [reflexivity|].
  cbn [map concat app]. rewrite <- app_assoc. cbn [app].
  rewrite split_go_sep by apply line_body_no_lf. cbn [rev app]. now rewrite IH.
Qed.
Theorem parse_file_text l : parse_file (file_text l) = l.
Proof.
  unfold parse_file, file_lines. rewrite split_lines, filter_app. cbn [filter is_nil negb]. rewrite app_nil_r.
  assert (H : filter (fun x => negb (is_nil x)) (map line_body l) = map line_body l).
  { induction l as [|kv l IH]; [reflexivity|]. cbn [map filter]. rewrite line_body_nonempty. cbn [negb]. now rewrite IH. }
  rewrite H, map_map. rewrite (map_ext _ (fun x => x)) by apply parse_line_body. apply map_id.
Qed.

(* ---------- file names ---------- *)
Lemma temp_name_inj dir p c p' c' : temp_name dir p c = temp_name dir p' c' -> p = p' /\ c = c'.
Proof.
  unfold temp_name. intros H. apply app_inv_head in H. apply app_inv_head in H.
  change (str "_chunk_") with (95 :: str "chunk_") in H. cbn [app] in H.
  apply digits_then_sep in H; [|lia|apply dec_digits|apply dec_digits].
  destruct H as [Hp Hc]. apply app_inv_head in Hc. split; now apply dec_inj.
Qed.
Lemma temp_not_counts dir p c : temp_name dir p c <> counts_name dir.
Proof.
  unfold temp_name, counts_name. intros H. apply app_inv_head in H.
  change (str "/temp_kmers.part_") with (47 :: 116 :: str "emp_kmers.part_") in H.
  change (str "/kmers.counts") with (47 :: 107 :: str "mers.counts") in H. discriminate.
Qed.

(* ---------- reading after writes and removals ---------- *)
Lemma eqb_neq p q : p <> q -> list_eqb p q = false.
Proof. intros H. destruct (list_eqb p q) eqn:E; [apply list_eqb_eq in E; contradiction|reflexivity]. Qed.
Lemma read_remove p q f : fs_read p (fs_remove q f) = if list_eqb p q then None else fs_read p f.
Proof.
  induction f as [|[r c] f IH]; cbn [fs_remove fs_read]; [now destruct (list_eqb p q)|].
  destruct (list_eqb q r) eqn:E1.
  - apply list_eqb_eq in E1. subst r. rewrite IH. destruct (list_eqb p q); reflexivity.
  - cbn [fs_read]. rewrite IH. destruct (list_eqb p r) eqn:E2; [|reflexivity].
    apply list_eqb_eq in E2. subst r. rewrite eqb_neq; [reflexivity|]. intros ->. rewrite list_eqb_refl in E1. discriminate.
Qed.
Lemma read_write p q c f : fs_read p (fs_write q c f) = if list_eqb p q then Some c else fs_read p f.
Proof. unfold fs_write. cbn [fs_read]. destruct (list_eqb p q) eqn:E; [reflexivity|]. rewrite read_remove, E. reflexivity. Qed.

Definition writes (l : list (path * list N)) (f : fs) : fs := fold_left (fun f pc => fs_write (fst pc) (snd pc) f) l f.
Lemma writes_app a b f : writes (a ++ b) f = writes b (writes a f).
Proof. unfold writes. apply fold_left_app. Qed.
Lemma read_writes_other l : forall f q, ~ In q (map fst l) -> fs_read q (writes l f) = fs_read q f.
Proof.
  induction l as [|[r d] l IH]; intros f q H; [reflexivity|]. cbn [writes fold_left fst snd]. fold (writes l (fs_write r d f)).
  rewrite IH by (intro; apply H; now right). rewrite read_write, eqb_neq; [reflexivity|]. intros ->. apply H. now left.
Qed.
Lemma read_writes_in l f q d : NoDup (map fst l) -> In (q, d) l -> fs_read q (writes l f) = Some d.
Proof. intros Hn Hi. exact (read_after_writes l f q Hn d Hi). Qed.

Definition removes (l : list path) (f : fs) : fs := fold_left (fun f q => fs_remove q f) l f.
Lemma read_removes l : forall f q, fs_read q (removes l f) = if existsb (list_eqb q) l then None else fs_read q f.
Proof.
  induction l as [|r l IH]; intros f q; [reflexivity|]. cbn [removes fold_left existsb]. fold (removes l (fs_remove r f)).
  rewrite IH, read_remove. destruct (list_eqb q r), (existsb (list_eqb q) l); reflexivity.
Qed.
Lemma existsb_eqb_in q l : existsb (list_eqb q) l = true <-> In q l.
Proof.
  rewrite existsb_exists. split.
  - intros (x & Hx & E). apply list_eqb_eq in E. now subst.
  - intros H. exists q. split; [exact H|apply list_eqb_refl].
Qed.

(* ---------- helpers ---------- *)
Lemma in_nrange n p : In p (nrange n) <-> p < n.
Proof.
  unfold nrange. rewrite in_map_iff. split.
  - intros [i [<- Hi]]. apply in_seq in Hi. lia.
  - intros H. exists (N.to_nat p). split; [lia|]. apply in_seq. lia.
Qed.
Lemma nrange_nodup n : NoDup (nrange n).
Proof.
  unfold nrange. generalize (seq_NoDup (N.to_nat n) 0). generalize (seq 0 (N.to_nat n)). intros l H.
  induction H as [|x l Hx Hl IH]; cbn [map]; constructor; [|exact IH].
  rewrite in_map_iff. intros [y [E Hy]]. apply Nat2N.inj in E. now subst.
Qed.
Lemma NoDup_map_inj {A B} (g : A -> B) l : (forall x y, In x l -> In y l -> g x = g y -> x = y) -> NoDup l -> NoDup (map g l).
Proof.
  intros Hg H. induction H as [|x l Hx Hl IH]; cbn [map]; constructor.
  - rewrite in_map_iff. intros [y [E Hy]]. apply Hg in E; [subst; contradiction|now right|now left].
  - apply IH. intros a b Ha Hb. apply Hg; now right.
Qed.
Lemma fold_left_map_fs {A} (nm : A -> path) (tx : A -> list N) l : forall f,
  fold_left (fun f x => fs_write (nm x) (tx x) f) l f = writes (map (fun x => (nm x, tx x)) l) f.
Proof. induction l as [|x l IH]; intros f; [reflexivity|]. cbn [fold_left map writes fst snd]. apply IH. Qed.
Lemma fold_left_map_rm {A} (nm : A -> path) l : forall f,
  fold_left (fun f x => fs_remove (nm x) f) l f = removes (map nm l) f.
Proof. induction l as [|x l IH]; intros f; [reflexivity|]. cbn [fold_left map removes]. apply IH. Qed.
Lemma removes_app a b f : removes (a ++ b) f = removes b (removes a f).
Proof. unfold removes. apply fold_left_app. Qed.

(* ---------- count(): the files written ---------- *)
Section Run.
Variable n_parts : N.
Variable dir : path.

Definition chunk_entries (c : N) (bag : list N) : list (path * list N) :=
  map (fun p => (temp_name dir p c, file_text (chunk_file n_parts p bag))) (nrange n_parts).
Fixpoint all_entries (c : N) (bags : list (list N)) : list (path * list N) :=
  match bags with [] => [] | b :: t => chunk_entries c b ++ all_entries (c + 1) t end.

Lemma write_chunks_writes bags : forall c f, write_chunks n_parts dir c bags f = writes (all_entries c bags) f.
Proof.
  induction bags as [|b t IH]; intros c f; [reflexivity|]. cbn [write_chunks all_entries]. rewrite IH, writes_app.
  unfold write_chunk. now rewrite fold_left_map_fs.
Qed.

Lemma in_all_entries bags : forall c0 q d, In (q, d) (all_entries c0 bags) <->
  exists p i bag, p < n_parts /\ nth_error bags i = Some bag /\ q = temp_name dir p (c0 + N.of_nat i) /\ d = file_text (chunk_file n_parts p bag).
Proof.
  induction bags as [|b t IH]; intros c0 q d; cbn [all_entries].
  - split; [intros []|]. intros (p & i & bag & _ & H & _). destruct i; discriminate.
  - rewrite in_app_iff, IH. unfold chunk_entries. rewrite in_map_iff. split.
    + intros [(p & E & Hp)|(p & i & bag & Hp & Hn & -> & ->)].
      * inversion E; subst. exists p, 0%nat, b. apply in_nrange in Hp.
        split; [exact Hp|split; [reflexivity|split; [f_equal; lia|reflexivity]]].
      * exists p, (S i), bag. split; [exact Hp|split; [exact Hn|split; [f_equal; lia|reflexivity]]].
    + intros (p & i & bag & Hp & Hn & -> & ->). destruct i as [|i].
      * left. cbn in Hn. inversion Hn; subst. exists p. split; [|now apply in_nrange]. f_equal. f_equal. lia.
      * right. exists p, i, bag. split; [exact Hp|split; [exact Hn|split; [f_equal; lia|reflexivity]]].
Qed.
Lemma in_entry_names bags c0 q : In q (map fst (all_entries c0 bags)) <->
  exists p c, p < n_parts /\ c0 <= c < c0 + N.of_nat (length bags) /\ q = temp_name dir p c.
Proof.
  rewrite in_map_iff. split.
  - intros [[q' d] [E H]]. cbn in E. subst q'. apply in_all_entries in H as (p & i & bag & Hp & Hn & -> & _).
    assert (i < length bags)%nat by (apply nth_error_Some; congruence).
    exists p, (c0 + N.of_nat i). split; [exact Hp|split; [lia|reflexivity]].
  - intros (p & c & Hp & Hc & ->).
    destruct (nth_error bags (N.to_nat (c - c0))) as [bag|] eqn:E.
    + exists (temp_name dir p c, file_text (chunk_file n_parts p bag)). split; [reflexivity|].
      apply in_all_entries. exists p, (N.to_nat (c - c0)), bag. split; [exact Hp|split; [exact E|split; [f_equal; lia|reflexivity]]].
    + apply nth_error_None in E. lia.
Qed.
Lemma entries_nodup bags : forall c0, NoDup (map fst (all_entries c0 bags)).
Proof.
  induction bags as [|b t IH]; intros c0; cbn [all_entries]; [constructor|].
  rewrite map_app. apply NoDup_app'; [| apply IH |].
  - unfold chunk_entries. rewrite map_map. cbn [fst]. apply NoDup_map_inj; [|apply nrange_nodup].
    intros x y _ _ E. now apply temp_name_inj in E.
  - intros q H1 H2. unfold chunk_entries in H1. rewrite map_map in H1. cbn [fst] in H1.
    apply in_map_iff in H1 as (p & <- & _). apply in_entry_names in H2 as (p' & c & _ & Hc & E).
    apply temp_name_inj in E as [_ E]. lia.
Qed.

(* ---------- merge ---------- *)
Definition part_names (chunks p : N) : list path := map (fun c => temp_name dir p c) (nrange chunks).
Lemma read_part_ok (tbl : N -> list (N * nat)) p f : forall cs,
  (forall c, In c cs -> fs_read (temp_name dir p c) f = Some (file_text (tbl c))) ->
  fold_right (fun c acc => match fs_read (temp_name dir p c) f, acc with
                           | Some t, Some l => Some (parse_file t ++ l) | _, _ => None end) (Some []) cs
  = Some (concat (map tbl cs)).
Proof.
  induction cs as [|c cs IH]; intros H; [reflexivity|]. cbn [fold_right map concat].
  rewrite (H c (or_introl eq_refl)), IH by (intros; apply H; now right). now rewrite parse_file_text.
Qed.
Lemma merge_go_ok chunks (tbl : N -> N -> list (N * nat)) : forall ps f out, NoDup ps ->
  (forall p c, In p ps -> c < chunks -> fs_read (temp_name dir p c) f = Some (file_text (tbl p c))) ->
  merge_go dir chunks ps f out =
  Some (removes (flat_map (part_names chunks) ps) f,
        out ++ concat (map (fun p => merge_lines (concat (map (tbl p) (nrange chunks)))) ps)).
Proof.
  induction ps as [|p ps IH]; intros f out Hnd H; cbn [merge_go flat_map map concat].
  - now rewrite app_nil_r.
  - unfold read_part. rewrite (read_part_ok (tbl p) p f) by (intros c Hc; apply H; [now left|now apply in_nrange]).
    inversion Hnd as [|? ? Hp Hnd']; subst. rewrite IH; [| exact Hnd' |].
    + rewrite removes_app, <- app_assoc. unfold remove_part. rewrite fold_left_map_rm. reflexivity.
    + intros p' c Hp' Hc. unfold remove_part. rewrite fold_left_map_rm, read_removes.
      destruct (existsb (list_eqb (temp_name dir p' c)) (map (fun c0 => temp_name dir p c0) (nrange chunks))) eqn:E.
      * apply existsb_eqb_in, in_map_iff in E as (c' & E & _). apply temp_name_inj in E as [-> _]. contradiction.
      * apply H; [now right|exact Hc].
Qed.

Lemma map_nth_nrange {B} (g : list N -> B) (bags : list (list N)) :
  map (fun c => g (nth (N.to_nat c) bags [])) (nrange (N.of_nat (length bags))) = map g bags.
Proof.
  unfold nrange. rewrite map_map, Nat2N.id.
  rewrite (map_ext _ (fun i => g (nth i bags []))) by (intros i; now rewrite Nat2N.id).
  rewrite <- (map_map (fun i => nth i bags []) g). f_equal.
  induction bags as [|b t IH]; [reflexivity|]. cbn [length seq map nth]. f_equal. rewrite <- seq_shift, map_map. exact IH.
Qed.

(* summing all lines of a partition = the partition/merge model *)
Lemma count_in_app x a b : count_in x (a ++ b) = (count_in x a + count_in x b)%nat.
Proof.
  unfold count_in. rewrite filter_app, map_app. generalize (map snd (filter (fun kv => fst kv =? x) a)). intros l.
  induction l as [|y l IH]; cbn [app lsum]; [reflexivity|]. rewrite IH. lia.
Qed.
Lemma count_in_concat x ts : count_in x (concat ts) = lsum (map (count_in x) ts).
Proof. induction ts as [|t ts IH]; [reflexivity|]. cbn [concat map lsum]. now rewrite count_in_app, IH. Qed.
Lemma count_in_lookup x t : NoDup (map fst t) -> count_in x t = lookup x t.
Proof.
  unfold count_in, lookup. induction t as [|[k v] t IH]; intros H; [reflexivity|]. inversion H as [|? ? Hk Ht]; subst.
  cbn [filter find fst]. destruct (N.eqb_spec k x) as [->|Hkx].
  - cbn [map snd lsum]. assert (Hz : filter (fun kv => fst kv =? x) t = []).
    { clear -Hk. induction t as [|[k v] t IH]; [reflexivity|]. cbn [filter fst]. destruct (N.eqb_spec k x) as [->|_].
      - exfalso. apply Hk. now left.
      - apply IH. intro. apply Hk. now right. }
    rewrite Hz. cbn. lia.
  - now apply IH.
Qed.
Lemma chunk_file_keys_nodup p bag : NoDup (map fst (chunk_file n_parts p bag)).
Proof. unfold chunk_file. rewrite map_map. cbn [fst]. rewrite map_id. apply NoDup_nodup. Qed.
Lemma merge_lines_part bags p : merge_lines (concat (map (chunk_file n_parts p) bags)) = merged_part n_parts bags p.
Proof.
  unfold merge_lines, merged_part, part_keys. rewrite concat_map, map_map. apply map_ext. intros x. f_equal.
  rewrite count_in_concat, map_map. f_equal. apply map_ext. intros bag. apply count_in_lookup, chunk_file_keys_nodup.
Qed.

(* ---------- the whole command ---------- *)
Definition own (chunks : N) (q : path) : Prop := exists p c, p < n_parts /\ c < chunks /\ q = temp_name dir p c.

Theorem ctr_fs_correct bags f :
  exists f', ctr_fs n_parts dir bags f = Some f' /\
    fs_read (counts_name dir) f' = Some (file_text (merged n_parts bags)) /\
    (forall q, own (N.of_nat (length bags)) q -> fs_read q f' = None) /\
    (forall q, q <> counts_name dir -> ~ own (N.of_nat (length bags)) q -> fs_read q f' = fs_read q f).
Proof.
  set (chunks := N.of_nat (length bags)).
  set (tbl := fun p c => chunk_file n_parts p (nth (N.to_nat c) bags [])).
  set (f1 := write_chunks n_parts dir 0 bags f). set (f0 := fs_write (counts_name dir) [] f1).
  assert (Hread : forall p c, In p (nrange n_parts) -> c < chunks -> fs_read (temp_name dir p c) f0 = Some (file_text (tbl p c))).
  { intros p c Hp Hc. unfold f0. rewrite read_write, (eqb_neq _ _ (temp_not_counts dir p c)).
    unfold f1. rewrite write_chunks_writes. apply read_writes_in; [apply entries_nodup|].
    apply in_all_entries. exists p, (N.to_nat c), (nth (N.to_nat c) bags []).
    split; [now apply in_nrange|split; [apply nth_error_nth'; unfold chunks in Hc; lia|split; [f_equal; lia|reflexivity]]]. }
  pose proof (merge_go_ok chunks tbl (nrange n_parts) f0 [] (nrange_nodup n_parts) Hread) as Hm.
  cbn [app] in Hm.
  set (names := flat_map (part_names chunks) (nrange n_parts)) in *.
  assert (Hnames : forall q, In q names <-> own chunks q).
  { intros q. unfold names, own. rewrite in_flat_map. split.
    - intros (p & Hp & Hq). unfold part_names in Hq. apply in_map_iff in Hq as (c & <- & Hc).
      exists p, c. split; [now apply in_nrange|split; [now apply in_nrange|reflexivity]].
    - intros (p & c & Hp & Hc & ->). exists p. split; [now apply in_nrange|]. unfold part_names. apply in_map_iff.
      exists c. split; [reflexivity|now apply in_nrange]. }
  assert (Hout : concat (map (fun p => merge_lines (concat (map (tbl p) (nrange chunks)))) (nrange n_parts)) = merged n_parts bags).
  { unfold merged, parts. f_equal. apply map_ext. intros p. unfold tbl, chunks.
    rewrite (map_nth_nrange (chunk_file n_parts p) bags). apply merge_lines_part. }
  rewrite Hout in Hm.
  exists (fs_write (counts_name dir) (file_text (merged n_parts bags)) (removes names f0)).
  split; [|split; [|split]].
  - unfold ctr_fs, merge_fs. fold chunks f1 f0. now rewrite Hm.
  - rewrite read_write, list_eqb_refl. reflexivity.
  - intros q Hq. rewrite read_write. destruct Hq as (p & c & Hp & Hc & ->).
    rewrite (eqb_neq _ _ (temp_not_counts dir p c)), read_removes.
    assert (E : existsb (list_eqb (temp_name dir p c)) names = true).
    { apply existsb_eqb_in, Hnames. now exists p, c. }
    now rewrite E.
  - intros q Hc Ho. rewrite read_write, (eqb_neq _ _ Hc), read_removes.
    destruct (existsb (list_eqb q) names) eqn:E; [apply existsb_eqb_in, Hnames in E; contradiction|].
    unfold f0. rewrite read_write, (eqb_neq _ _ Hc). unfold f1. rewrite write_chunks_writes.
    apply read_writes_other. intros Hin. apply in_entry_names in Hin as (p & c & Hp & Hcc & ->).
    apply Ho. exists p, c. split; [exact Hp|split; [unfold chunks; lia|reflexivity]].
Qed.

(* hence: whatever two locations held before, the counts table is the same, and it is the one a fresh location gets *)
Corollary ctr_fs_history_independent bags f g :
  exists f' g', ctr_fs n_parts dir bags f = Some f' /\ ctr_fs n_parts dir bags g = Some g' /\
    fs_read (counts_name dir) f' = fs_read (counts_name dir) g'.
Proof.
  destruct (ctr_fs_correct bags f) as (f' & Hf & Hc & _). destruct (ctr_fs_correct bags g) as (g' & Hg & Hc' & _).
  exists f', g'. split; [exact Hf|split; [exact Hg|now rewrite Hc, Hc']].
Qed.
End Run.
