(* C13 prototype: every byte of the UTF-8 encoding of a non-ASCII code point is >= 128 *)
From Coq Require Import NArith List Lia ZArith.
From Coq Require Import ZifyN ZifyBool.
Ltac Zify.zify_post_hook ::= Z.div_mod_to_equations.
Import ListNotations.
Open Scope N_scope.

Definition utf8 (cp : N) : list N :=
  if cp <? 128 then [cp]
  else if cp <? 2048 then [192 + cp / 64; 128 + cp mod 64]
  else if cp <? 65536 then [224 + cp / 4096; 128 + (cp / 64) mod 64; 128 + cp mod 64]
  else [240 + cp / 262144; 128 + (cp / 4096) mod 64; 128 + (cp / 64) mod 64; 128 + cp mod 64].

Theorem utf8_nonascii cp : 128 <= cp < 1114112 -> Forall (fun b => 128 <= b < 256) (utf8 cp).
Proof.
  intros H. unfold utf8.
  destruct (cp <? 128) eqn:E1; [lia|].
  destruct (cp <? 2048) eqn:E2; [repeat constructor; lia|].
  destruct (cp <? 65536) eqn:E3; repeat constructor; lia.
Qed.

Theorem utf8_ascii cp : cp < 128 -> utf8 cp = [cp].
Proof. intros H. unfold utf8. destruct (cp <? 128) eqn:E; [reflexivity|lia]. Qed.
Print Assumptions utf8_nonascii.
