(* C11 prototype: the binary64 chaos-game step stays inside [0, S] for every finite S < 2^1022 *)
From Coq Require Import ZArith Reals Lra Lia.
From Flocq Require Import Core IEEE754.BinarySingleNaN IEEE754.Binary IEEE754.Bits.
Open Scope R_scope.

Notation fexp := (SpecFloat.fexp 53 1024).
Notation rnd := (round radix2 fexp ZnearestE).

Definition two : binary64 := b64_of_bits 0x4000000000000000.
Definition step (c m : binary64) : binary64 :=
  b64_div BinarySingleNaN.mode_NE (b64_plus BinarySingleNaN.mode_NE c m) two.

Lemma two_val : B2R 53 1024 two = 2.
Proof. unfold two, b64_of_bits, binary_float_of_bits. cbn. unfold F2R, Defs.F2R; cbn. lra. Qed.

Lemma fmt_B2R (x : binary64) : generic_format radix2 fexp (B2R 53 1024 x).
Proof. apply generic_format_B2R. Qed.

Instance prec53 : Prec_gt_0 53. Proof. unfold Prec_gt_0. lia. Qed.
Instance vexp : Valid_exp fexp. Proof. unfold SpecFloat.fexp. apply FLT_exp_valid. exact prec53. Qed.

Lemma rnd_le x y : x <= y -> rnd x <= rnd y.
Proof. intros H. apply round_le; [exact vexp|apply valid_rnd_N|exact H]. Qed.

Lemma rnd_id (x : binary64) : rnd (B2R 53 1024 x) = B2R 53 1024 x.
Proof. apply round_generic; [apply valid_rnd_N|apply fmt_B2R]. Qed.

Lemma rnd_0 : rnd 0 = 0.
Proof. apply round_0. apply valid_rnd_N. Qed.

Definition Hp53 : (0 < 53)%Z := eq_refl.
Definition Hpe : (53 < 1024)%Z := eq_refl.

Section InSquare.
Variable s : binary64.
Hypothesis Hs_fin : is_finite 53 1024 s = true.
Let S := B2R 53 1024 s.
Hypothesis HS0 : 0 <= S.
Hypothesis HSmax : 2 * S < bpow radix2 1024.
(* 2*S is itself a binary64 (doubling is exact below the overflow threshold) *)
Hypothesis H2S : generic_format radix2 fexp (2 * S).

Theorem step_in_square (c m : binary64) :
  is_finite 53 1024 c = true -> is_finite 53 1024 m = true ->
  0 <= B2R 53 1024 c <= S -> 0 <= B2R 53 1024 m <= S ->
  is_finite 53 1024 (step c m) = true /\ 0 <= B2R 53 1024 (step c m) <= S.
Proof.
  intros Fc Fm [Hc0 Hc1] [Hm0 Hm1]. unfold step, b64_div, b64_plus. cbv zeta. fold Hp53 Hpe.
  pose proof (Bplus_correct 53 1024 Hp53 Hpe binop_nan_pl64 BinarySingleNaN.mode_NE c m Fc Fm) as Hp.
  cbn [round_mode] in Hp.
  set (x := B2R 53 1024 c + B2R 53 1024 m) in *.
  assert (Hx : 0 <= x <= 2 * S) by (unfold x; lra).
  assert (Hrx : 0 <= rnd x <= 2 * S).
  { split; [rewrite <- rnd_0; apply rnd_le; lra|].
    assert (H2 : rnd (2 * S) = 2 * S) by (apply round_generic; [apply valid_rnd_N|exact H2S]).
    rewrite <- H2. apply rnd_le. lra. }
  rewrite Rlt_bool_true in Hp by (rewrite Rabs_pos_eq; lra).
  destruct Hp as (Hpv & Hpf & _).
  set (p := Bplus 53 1024 Hp53 Hpe binop_nan_pl64 BinarySingleNaN.mode_NE c m) in *.
  pose proof (Bdiv_correct 53 1024 Hp53 Hpe binop_nan_pl64 BinarySingleNaN.mode_NE p two) as Hd.
  rewrite two_val in Hd. specialize (Hd ltac:(lra)). cbn [round_mode] in Hd.
  rewrite Hpv in Hd.
  assert (Hq : 0 <= rnd (rnd x / 2) <= S).
  { split; [rewrite <- rnd_0; apply rnd_le; lra|].
    assert (HS' : rnd S = S) by (unfold S; apply rnd_id).
    rewrite <- HS'. apply rnd_le. lra. }
  rewrite Rlt_bool_true in Hd by (rewrite Rabs_pos_eq; [|lra]; lra).
  destruct Hd as (Hdv & Hdf & _).
  split; [rewrite Hdf; exact Hpf|]. rewrite Hdv. exact Hq.
Qed.
End InSquare.
Check step_in_square.
Print Assumptions step_in_square.
