From Coq Require Import ZArith NArith List Lia Bool Arith.
From Coq Require Import ZifyN ZifyNat ZifyBool.
From KT Require Import Base.Bits Model.Kmer.
Import ListNotations.
Open Scope N_scope.
Arguments N.add : simpl never. Arguments N.mul : simpl never. Arguments N.sub : simpl never.
Arguments N.pow : simpl never. Arguments N.ltb : simpl never. Arguments N.div : simpl never.
Arguments N.modulo : simpl never.

(* ---------- base-4 codes ---------- *)
(* the suffix-walking definition of spec_kmers is the window-by-position formulation *)
Lemma tl_skipn {A} a : forall s : list A, tl (skipn a s) = skipn (S a) s.
Proof.
  induction a as [|a IH]; intros s; [destruct s; reflexivity|].
  destruct s as [|x t]; [reflexivity|]. cbn [skipn]. rewrite IH. destruct t; reflexivity.
Qed.

Lemma windows_go_flat nt4 k n : forall s a,
  flat_map (fun p => emit nt4 (window s p k)) (seq a n) = windows_go nt4 k n (skipn a s).
Proof.
  induction n as [|n IH]; intros s a; [reflexivity|]. cbn [windows_go seq flat_map].
  unfold window at 1. f_equal. rewrite IH, tl_skipn. reflexivity.
Qed.

Lemma spec_kmers_windows nt4 k s :
  spec_kmers nt4 k s = flat_map (fun p => emit nt4 (window s p k)) (seq 0 (length s + 1 - k)).
Proof. unfold spec_kmers. rewrite (windows_go_flat nt4 k (length s + 1 - k) s 0). reflexivity. Qed.

Definition dig (l : list N) := Forall (fun d => d < 4) l.

Lemma code_snoc l c : code (l ++ [c]) = 4 * code l + c.
Proof. unfold code. rewrite fold_left_app. reflexivity. Qed.

Lemma code_acc l a : fold_left (fun a d => 4 * a + d) l a = a * 4 ^ N.of_nat (length l) + code l.
Proof.
  revert a. induction l as [|d l IH]; intros a.
  - simpl. unfold code. simpl. lia.
  - unfold code. cbn [fold_left length]. rewrite IH. rewrite (IH (4*0+d)).
    rewrite Nat2N.inj_succ, N.pow_succ_r'. lia.
Qed.

Lemma code_cons d l : code (d :: l) = d * 4 ^ N.of_nat (length l) + code l.
Proof. unfold code at 1. cbn [fold_left]. rewrite code_acc. lia. Qed.

Lemma code_app a b : code (a ++ b) = code a * 4 ^ N.of_nat (length b) + code b.
Proof. unfold code at 1. rewrite fold_left_app. rewrite code_acc. reflexivity. Qed.

Lemma code_lt l : dig l -> code l < 4 ^ N.of_nat (length l).
Proof.
  induction l as [|d l IH] using rev_ind; intros H.
  - unfold code; simpl. lia.
  - apply Forall_app in H as [H1 H2]. inversion H2; subst.
    rewrite code_snoc, app_length. cbn [length]. rewrite Nat.add_1_r, Nat2N.inj_succ, N.pow_succ_r'.
    specialize (IH H1). lia.
Qed.

Lemma code_removelast l : dig l -> l <> [] -> code (removelast l) = code l / 4.
Proof.
  intros H Hn. destruct (exists_last Hn) as [l' [x ->]].
  rewrite removelast_last, code_snoc. apply Forall_app in H as [_ H2]. inversion H2; subst.
  apply N.div_unique with (r := x); lia.
Qed.

(* ---------- register steps as arithmetic ---------- *)
Lemma pow4_2 n : 4 ^ n = 2 ^ (2 * n).
Proof. rewrite N.pow_mul_r. reflexivity. Qed.

Lemma kmask_ones k : (k <= 31)%nat -> kmask k = N.ones (2 * N.of_nat k).
Proof.
  intros Hk. unfold kmask, shl64. rewrite N.shiftl_mul_pow2, N.mul_1_l, N.ones_equiv.
  f_equal. apply N.mod_small. unfold W64. apply N.pow_lt_mono_r; lia.
Qed.

Lemma pow4_le_62 k : (k <= 31)%nat -> 4 ^ N.of_nat k <= 2 ^ 62.
Proof. intros. rewrite pow4_2. apply N.pow_le_mono_r; lia. Qed.

Lemma fstep k f c : (k <= 31)%nat -> f < 4 ^ N.of_nat k -> c < 4 ->
  N.land (N.lor (shl64 f 2) c) (kmask k) = (4 * f + c) mod 4 ^ N.of_nat k.
Proof.
  intros Hk Hf Hc. rewrite kmask_ones by exact Hk. unfold shl64.
  rewrite N.mod_small.
  - apply push_fwd. exact Hc.
  - rewrite N.shiftl_mul_pow2. pose proof (pow4_le_62 k Hk). unfold W64.
    change (2^2) with 4. change (2^64) with (4 * 2^62). lia.
Qed.

Lemma lxor3 c : c < 4 -> N.lxor c 3 = 3 - c.
Proof.
  intros H. assert (c = 0 \/ c = 1 \/ c = 2 \/ c = 3) as [->|[->|[->| ->]]] by lia; reflexivity.
Qed.

Lemma rstep k r c : (1 <= k <= 31)%nat -> r < 4 ^ N.of_nat k -> c < 4 ->
  N.lor (N.shiftr r 2) (shl64 (N.lxor c 3) (kshift k)) = r / 4 + (3 - c) * 4 ^ N.of_nat (k - 1).
Proof.
  intros Hk Hr Hc. rewrite lxor3 by exact Hc. unfold shl64, kshift.
  assert (Hs : N.of_nat k = N.succ (N.of_nat (k - 1))) by lia.
  rewrite N.mod_small.
  - apply push_rev. rewrite <- Hs. exact Hr.
  - rewrite N.shiftl_mul_pow2, <- pow4_2. unfold W64.
    assert (4 ^ N.of_nat (k-1) <= 2 ^ 60).
    { rewrite pow4_2. apply N.pow_le_mono_r; lia. }
    change (2^64) with (16 * 2^60). nia.
Qed.

(* ---------- list helpers ---------- *)
Lemma In_firstn {A} (x : A) n l : In x (firstn n l) -> In x l.
Proof. intros H. rewrite <- (firstn_skipn n l). apply in_or_app. now left. Qed.

Lemma forallb_rev {A} (f : A -> bool) l : forallb f (rev l) = forallb f l.
Proof.
  induction l as [|a l IH]; [reflexivity|]. cbn [rev forallb].
  rewrite forallb_app, IH. cbn [forallb]. rewrite andb_true_r. apply andb_comm.
Qed.

(* ---------- invariant over the reversed history ---------- *)
Section Main.
Variable nt4 : N -> N.
Variable k : nat.
Hypothesis Hk : (1 <= k <= 31)%nat.
Notation clean := (clean nt4).
Notation emit := (emit nt4).

Fixpoint tcl (r : list N) : nat :=
  match r with [] => 0%nat | b :: r' => if clean b then S (tcl r') else 0%nat end.

Definition rcs (r : list N) : list N := map nt4 (filter clean r).

Lemma rcs_dig r : dig (rcs r).
Proof.
  unfold rcs, dig. apply Forall_forall. intros x Hx. apply in_map_iff in Hx as [b [<- Hb]].
  apply filter_In in Hb as [_ Hb]. unfold Kmer.clean in Hb. lia.
Qed.

Definition rdigits (r : list N) : list N :=
  firstn k (map (fun d => 3 - d) (rcs r) ++ repeat 0 k).

Lemma rdigits_len r : length (rdigits r) = k.
Proof. unfold rdigits. rewrite firstn_length, app_length, repeat_length. lia. Qed.

Lemma rdigits_dig r : dig (rdigits r).
Proof.
  unfold rdigits, dig. apply Forall_forall. intros x Hx. apply In_firstn in Hx.
  apply in_app_or in Hx as [Hx|Hx].
  - apply in_map_iff in Hx as [d [<- _]]. lia.
  - apply repeat_spec in Hx. lia.
Qed.

Definition Inv (r : list N) (st : kst) : Prop :=
  len st = Nat.min (tcl r) (k - 1) /\
  fval st = code (rev (rcs r)) mod 4 ^ N.of_nat k /\
  rval st = code (rdigits r).

(* end-indexed specification on the reversed history *)
Fixpoint spec_go (r : list N) (rest : list N) : list (N * N) :=
  match rest with
  | [] => []
  | b :: t => (if (k <=? length (b :: r))%nat then emit (rev (firstn k (b :: r))) else [])
              ++ spec_go (b :: r) t
  end.

Lemma forallb_firstn_tcl r n : (n <= tcl r)%nat -> forallb clean (firstn n r) = true.
Proof.
  revert n. induction r as [|b r IH]; intros n Hn.
  - now rewrite firstn_nil.
  - destruct n as [|n]; [reflexivity|]. cbn [tcl] in Hn. cbn [firstn forallb].
    destruct (clean b); [|lia]. rewrite IH by lia. reflexivity.
Qed.

Lemma forallb_firstn_tcl_false r n : (tcl r < n <= length r)%nat -> forallb clean (firstn n r) = false.
Proof.
  revert n. induction r as [|b r IH]; intros n Hn.
  - cbn in Hn. lia.
  - destruct n as [|n]; [lia|]. cbn [tcl length] in Hn. cbn [firstn forallb].
    destruct (clean b); [|reflexivity]. rewrite IH by lia. reflexivity.
Qed.

Lemma tcl_le_length r : (tcl r <= length r)%nat.
Proof. induction r as [|b r IH]; cbn [tcl length]; [lia|]. destruct (clean b); lia. Qed.

Lemma filter_firstn_clean r n : (n <= tcl r)%nat ->
  filter clean r = firstn n r ++ filter clean (skipn n r).
Proof.
  revert n. induction r as [|b r IH]; intros n Hn.
  - now rewrite firstn_nil, skipn_nil.
  - destruct n as [|n]; [reflexivity|]. cbn [tcl] in Hn. cbn [firstn skipn filter].
    destruct (clean b) eqn:E; [|lia]. cbn [app]. f_equal. apply IH. lia.
Qed.

(* when the last k bytes are clean the registers hold exactly the two codes of that window *)
Lemma fwd_window r : (k <= tcl r)%nat ->
  code (rev (rcs r)) mod 4 ^ N.of_nat k = fwd_code nt4 (rev (firstn k r)).
Proof.
  intros Ht. unfold rcs, fwd_code. rewrite (filter_firstn_clean r k Ht).
  rewrite map_app, rev_app_distr, code_app, map_rev, rev_length, map_length.
  assert (Hlen : length (firstn k r) = k).
  { rewrite firstn_length. pose proof (tcl_le_length r). lia. }
  rewrite Hlen. rewrite N.add_comm, N.mod_add by (apply N.pow_nonzero; lia).
  apply N.mod_small.
  assert (Hd : dig (rev (map nt4 (firstn k r)))).
  { apply Forall_forall. intros x Hx. apply in_rev in Hx. apply in_map_iff in Hx as [b [<- Hb]].
    pose proof (forallb_firstn_tcl r k Ht) as Hall. rewrite forallb_forall in Hall.
    specialize (Hall b Hb). unfold Kmer.clean in Hall. lia. }
  pose proof (code_lt _ Hd) as HH. rewrite rev_length, map_length, Hlen in HH. exact HH.
Qed.

Lemma rev_window r : (k <= tcl r)%nat ->
  code (rdigits r) = rev_code nt4 (rev (firstn k r)).
Proof.
  intros Ht. unfold rdigits, rcs, rev_code. rewrite rev_involutive.
  rewrite (filter_firstn_clean r k Ht). rewrite !map_app, <- app_assoc.
  assert (Hlen : length (firstn k r) = k).
  { rewrite firstn_length. pose proof (tcl_le_length r). lia. }
  rewrite firstn_app. rewrite !map_length, Hlen, Nat.sub_diag, firstn_O, app_nil_r.
  rewrite firstn_all2 by (rewrite !map_length; lia).
  rewrite map_map. reflexivity.
Qed.

Lemma step_inv r st b :
  Inv r st ->
  let '(st', o) := kg_step nt4 k st b in
  Inv (b :: r) st' /\
  (match o with Some x => [x] | None => [] end) =
  (if (k <=? length (b :: r))%nat then emit (rev (firstn k (b :: r))) else []).
Proof.
  intros (Hl & Hf & Hr).
  assert (Hpk : 0 < 4 ^ N.of_nat k) by (apply N.neq_0_lt_0, N.pow_nonzero; lia).
  unfold kg_step. destruct (nt4 b <? 4) eqn:Hc.
  - (* clean base *)
    assert (Hcl : clean b = true) by exact Hc.
    assert (Hc4 : nt4 b < 4) by lia.
    set (f' := N.land _ _). set (r' := N.lor _ _).
    assert (Hf' : f' = code (rev (rcs (b :: r))) mod 4 ^ N.of_nat k).
    { unfold f'. rewrite fstep; [| lia | rewrite Hf; apply N.mod_lt; lia | exact Hc4].
      unfold rcs. cbn [filter]. rewrite Hcl. cbn [map rev]. rewrite code_snoc.
      rewrite Hf. fold (rcs r).
      rewrite N.add_mod, N.mul_mod_idemp_r, <- N.add_mod by lia. reflexivity. }
    assert (Hr' : r' = code (rdigits (b :: r))).
    { unfold r'. rewrite rstep; [| exact Hk | rewrite Hr; pose proof (code_lt _ (rdigits_dig r)) as HH; rewrite rdigits_len in HH; exact HH | exact Hc4].
      rewrite Hr. rewrite <- code_removelast; [| apply rdigits_dig | intro E; pose proof (rdigits_len r) as HH; rewrite E in HH; cbn in HH; lia].
      unfold rdigits at 2. unfold rcs. cbn [filter]. rewrite Hcl. cbn [map app].
      destruct k as [|k'] eqn:Ek; [lia|]. cbn [firstn]. rewrite code_cons.
      replace (S k' - 1)%nat with k' by lia.
      assert (Hrl : removelast (rdigits r) = firstn k' (map (fun d => 3 - d) (map nt4 (filter clean r)) ++ repeat 0 (S k'))).
      { unfold rdigits, rcs. rewrite Ek. apply removelast_firstn. rewrite app_length, repeat_length. lia. }
      rewrite Hrl.
      assert (Hlen : length (firstn k' (map (fun d => 3 - d) (map nt4 (filter clean r)) ++ repeat 0 (S k'))) = k').
      { rewrite firstn_length, app_length, repeat_length. lia. }
      rewrite Hlen. lia. }
    cbn [len fval rval]. rewrite Hl.
    destruct (Nat.eqb (S (Nat.min (tcl r) (k - 1))) k) eqn:Ee.
    + apply Nat.eqb_eq in Ee.
      assert (Ht : (k <= tcl (b :: r))%nat) by (cbn [tcl]; rewrite Hcl; lia).
      split.
      * unfold Inv. cbn [len fval rval]. repeat split; [|exact Hf'|exact Hr'].
        cbn [tcl]. rewrite Hcl. lia.
      * pose proof (tcl_le_length (b :: r)) as Hle.
        assert (Hkl : (k <=? length (b :: r))%nat = true) by (apply Nat.leb_le; lia).
        rewrite Hkl. unfold Kmer.emit.
        rewrite forallb_rev, (forallb_firstn_tcl _ _ Ht).
        rewrite Hf', Hr', (fwd_window _ Ht), (rev_window _ Ht). reflexivity.
    + apply Nat.eqb_neq in Ee.
      split.
      * unfold Inv. cbn [len fval rval]. repeat split; [|exact Hf'|exact Hr'].
        cbn [tcl]. rewrite Hcl. lia.
      * destruct (k <=? length (b :: r))%nat eqn:Hkl; [|reflexivity].
        apply Nat.leb_le in Hkl. unfold Kmer.emit.
        rewrite forallb_rev, forallb_firstn_tcl_false; [reflexivity|].
        cbn [tcl]. rewrite Hcl. lia.
  - (* ambiguous byte *)
    assert (Hcl : clean b = false) by exact Hc.
    cbn [len fval rval].
    destruct (Nat.eqb 0 k) eqn:Ee; [apply Nat.eqb_eq in Ee; lia|].
    split.
    + unfold Inv. cbn [len fval rval tcl]. rewrite Hcl. unfold rdigits, rcs in *. cbn [filter]. rewrite Hcl.
      split; [lia|split; [exact Hf|exact Hr]].
    + destruct (k <=? length (b :: r))%nat eqn:Hkl; [|reflexivity].
      apply Nat.leb_le in Hkl. unfold Kmer.emit.
      rewrite forallb_rev, forallb_firstn_tcl_false; [reflexivity|].
      cbn [tcl]. rewrite Hcl. lia.
Qed.

Lemma kg_go_spec rest : forall r st, Inv r st -> kg_go nt4 k st rest = spec_go r rest.
Proof.
  induction rest as [|b t IH]; intros r st HI; [reflexivity|].
  cbn [kg_go spec_go]. pose proof (step_inv r st b HI) as Hs.
  destruct (kg_step nt4 k st b) as [st' o]. destruct Hs as [HI' Ho].
  rewrite <- Ho. destruct o; cbn [app]; rewrite (IH _ _ HI'); reflexivity.
Qed.

Lemma inv_init : Inv [] (mkst 0 0 0).
Proof.
  unfold Inv, rdigits, rcs. cbn [len fval rval tcl filter map rev app].
  split; [lia|split].
  - unfold code. cbn [fold_left]. rewrite N.mod_0_l; [reflexivity|apply N.pow_nonzero; lia].
  - rewrite firstn_all2 by (rewrite repeat_length; lia).
    clear. induction k as [|n IH]; [reflexivity|]. cbn [repeat]. rewrite code_cons, <- IH. lia.
Qed.


Lemma window_last r b t : (k <= S (length r))%nat ->
  window (rev r ++ b :: t) (S (length r) - k) k = rev (firstn k (b :: r)).
Proof.
  intros Hle. unfold window.
  replace (rev r ++ b :: t) with (rev (b :: r) ++ t) by (cbn [rev]; rewrite <- app_assoc; reflexivity).
  set (R := rev (b :: r)).
  assert (HR : length R = S (length r)) by (unfold R; rewrite rev_length; reflexivity).
  rewrite skipn_app. replace (S (length r) - k - length R)%nat with 0%nat by lia. cbn [skipn].
  rewrite firstn_app.
  assert (Hsl : length (skipn (S (length r) - k) R) = k) by (rewrite skipn_length; lia).
  rewrite Hsl, Nat.sub_diag, firstn_O, app_nil_r, firstn_all2 by lia.
  rewrite <- HR. rewrite <- (rev_involutive (skipn _ R)). rewrite <- firstn_rev.
  unfold R. rewrite rev_involutive. reflexivity.
Qed.

Lemma spec_go_windows rest : forall r,
  spec_go r rest =
  flat_map (fun p => emit (window (rev r ++ rest) p k))
           (seq (length r + 1 - k) ((length r + length rest + 1 - k) - (length r + 1 - k))).
Proof.
  induction rest as [|b t IH]; intros r.
  - cbn [spec_go length]. rewrite Nat.add_0_r, Nat.sub_diag. reflexivity.
  - cbn [spec_go]. rewrite IH. cbn [length rev]. rewrite <- app_assoc. cbn [app].
    destruct (k <=? S (length r))%nat eqn:Hkl.
    + apply Nat.leb_le in Hkl.
      replace (length r + S (length t) + 1 - k - (length r + 1 - k))%nat with (S (length t)) by lia.
      cbn [seq flat_map]. f_equal.
      * replace (length r + 1 - k)%nat with (S (length r) - k)%nat by lia. rewrite window_last by exact Hkl. reflexivity.
      * f_equal. f_equal; lia.
    + apply Nat.leb_gt in Hkl. cbn [app]. f_equal. f_equal; lia.
Qed.

Theorem kg_run_spec s : kg_run nt4 k s = spec_kmers nt4 k s.
Proof.
  unfold kg_run. rewrite (kg_go_spec s [] _ inv_init), spec_go_windows.
  rewrite spec_kmers_windows. cbn [length rev app]. f_equal. f_equal; lia.
Qed.

End Main.

(* the window spec only looks at the classifier on the bytes of the sequence *)
Lemma forallb_ext_in' {A} (f g : A -> bool) l : (forall x, In x l -> f x = g x) -> forallb f l = forallb g l.
Proof.
  induction l as [|a l IH]; intros H; [reflexivity|]. cbn [forallb].
  rewrite (H a (or_introl eq_refl)), IH; [reflexivity|]. intros x Hx. apply H. now right.
Qed.

Lemma In_skipn {A} (x : A) n l : In x (skipn n l) -> In x l.
Proof. intros H. rewrite <- (firstn_skipn n l). apply in_or_app. now right. Qed.

Lemma emit_ext (f g : N -> N) w : (forall b, In b w -> f b = g b) -> emit f w = emit g w.
Proof.
  intros H. unfold emit, fwd_code, rev_code, clean.
  rewrite (forallb_ext_in' (fun b => f b <? 4) (fun b => g b <? 4)) by (intros x Hx; now rewrite (H x Hx)).
  rewrite (map_ext_in f g w H).
  rewrite (map_ext_in (fun b => 3 - f b) (fun b => 3 - g b) (rev w)) by (intros x Hx; apply in_rev in Hx; now rewrite (H x Hx)).
  reflexivity.
Qed.

Lemma spec_kmers_ext (f g : N -> N) (P : N -> Prop) k s :
  Forall P s -> (forall b, P b -> f b = g b) -> spec_kmers f k s = spec_kmers g k s.
Proof.
  intros Hs Hfg. rewrite !spec_kmers_windows. apply flat_map_ext. intros p. apply emit_ext.
  intros b Hb. apply Hfg. rewrite Forall_forall in Hs. apply Hs.
  unfold window in Hb. apply In_firstn, In_skipn in Hb. exact Hb.
Qed.
Check kg_run_spec.
Print Assumptions kg_run_spec.
