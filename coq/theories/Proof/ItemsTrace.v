(* C10: the step the real workers take at the hook points (TAKE, then one PUSH / WRITE per item; the worker is
   back at the reader right after its last item, and a record without items keeps it there) is one or two steps
   of the schedule model of ItemsSched.v, so the multiset theorem transfers; plus the executable trace used for
   replay against the hooked implementation. *)
From Coq Require Import NArith List Lia Bool Arith.
From KT Require Import Proof.Sched Proof.ItemsSched.
Import ListNotations.

Section Fused.
Variable X : Type.
Variable recs : list (list X).
Variable W : nat.

Definition fstep (s : st X) (i : nat) : st X :=
  if negb (i <? W) then s else
  match nth i (pcs X s) (Exited X) with
  | Idle _ => match nth_error recs (next X s) with
              | Some [] => mk X (S (next X s)) (upd (pcs X s) i (Idle X)) (out X s)
              | Some items => mk X (S (next X s)) (upd (pcs X s) i (Holding X items)) (out X s)
              | None => mk X (next X s) (upd (pcs X s) i (Exited X)) (out X s)
              end
  | Holding _ [x] => mk X (next X s) (upd (pcs X s) i (Idle X)) (out X s ++ [x])
  | Holding _ (x :: t) => mk X (next X s) (upd (pcs X s) i (Holding X t)) (out X s ++ [x])
  | Holding _ [] => mk X (next X s) (upd (pcs X s) i (Idle X)) (out X s)
  | Exited _ => s
  end.
Definition fexec (sched : list nat) : st X := fold_left fstep sched (init X W).

Lemma upd_upd {A} (l : list A) i x y : upd (upd l i x) i y = upd l i y.
Proof. revert i; induction l as [|a t IH]; intros [|i]; cbn; auto. now rewrite IH. Qed.

Lemma fstep_refines s i : length (pcs X s) = W ->
  fstep s i = step X recs W s i \/ fstep s i = step X recs W (step X recs W s i) i.
Proof.
  intros Hl. unfold fstep, step. destruct (i <? W) eqn:Eb; cbn [negb]; [|now left].
  assert (Ei : i < W) by (apply Nat.ltb_lt; exact Eb).
  destruct (nth i (pcs X s) (Exited X)) as [|[|x [|y t]]|] eqn:Ep.
  - destruct (nth_error recs (next X s)) as [[|a items]|] eqn:Er; [|now left|now left].
    right. cbn [pcs next out negb].
    rewrite nth_upd_eq by lia. rewrite upd_upd. reflexivity.
  - now left.
  - right. cbn [pcs next out negb]. rewrite nth_upd_eq by lia. rewrite upd_upd. reflexivity.
  - now left.
  - now left.
Qed.

Lemma step_length s i : length (pcs X (step X recs W s i)) = length (pcs X s).
Proof.
  unfold step. destruct (negb (i <? W)); [reflexivity|].
  destruct (nth i (pcs X s) (Exited X)) as [|[|x t]|]; try reflexivity.
  - destruct (nth_error recs (next X s)); cbn [pcs]; apply upd_length.
  - cbn [pcs]. apply upd_length.
  - cbn [pcs]. apply upd_length.
Qed.

Lemma fexec_refines sched : forall s, length (pcs X s) = W ->
  exists sched', fold_left fstep sched s = fold_left (step X recs W) sched' s.
Proof.
  induction sched as [|i t IH]; intros s Hl; [exists []; reflexivity|]. cbn [fold_left].
  destruct (fstep_refines s i Hl) as [E|E]; rewrite E.
  - destruct (IH (step X recs W s i) ltac:(now rewrite step_length)) as [l' Hl'].
    exists (i :: l'). exact Hl'.
  - destruct (IH (step X recs W (step X recs W s i) i) ltac:(now rewrite !step_length)) as [l' Hl'].
    exists (i :: i :: l'). exact Hl'.
Qed.

(* hence: for every worker count and every schedule of the real steps after which all workers have exited,
   the emitted items are exactly all items of all records, as a multiset *)
Theorem fused_items_exact (X_dec : forall a b : X, {a = b} + {a <> b}) sched : (1 <= W) ->
  complete X W (fexec sched) ->
  forall x, occ X X_dec x (out X (fexec sched)) = all X X_dec recs x.
Proof.
  intros HW Hc x. unfold fexec in *.
  destruct (fexec_refines sched (init X W) ltac:(cbn; apply repeat_length)) as [sched' E].
  rewrite E in *. apply (items_exact X X_dec recs W HW sched' Hc x).
Qed.

(* ---------- trace ---------- *)
Inductive iev := ITake (n : nat) | INone | IPush.
Definition ievent (s : st X) (i : nat) : option iev :=
  if negb (i <? W) then None else
  match nth i (pcs X s) (Exited X) with
  | Idle _ => match nth_error recs (next X s) with Some _ => Some (ITake (next X s)) | None => Some INone end
  | Holding _ (_ :: _) => Some IPush
  | Holding _ [] => None
  | Exited _ => None
  end.
Fixpoint itrace_go (s : st X) (sched : list nat) : list (nat * iev) * st X :=
  match sched with
  | [] => ([], s)
  | i :: t => let '(tr, sf) := itrace_go (fstep s i) t in
              match ievent s i with Some e => ((i, e) :: tr, sf) | None => (tr, sf) end
  end.
Definition itrace (sched : list nat) : list (nat * iev) * st X := itrace_go (init X W) sched.
Definition all_exited (s : st X) : bool :=
  forallb (fun p => match p with Exited _ => true | _ => false end) (pcs X s).
End Fused.
