(* Rolling 2-bit registers shared by the k-mer and minimiser iterators *)
From Coq Require Import ZArith NArith List Lia Bool Arith.
From Coq Require Import ZifyN ZifyNat ZifyBool.
From KT Require Import Base.Bits Model.Kmer Proof.KmerProof.
Import ListNotations.
Open Scope N_scope.
Arguments N.add : simpl never. Arguments N.mul : simpl never. Arguments N.sub : simpl never.
Arguments N.pow : simpl never. Arguments N.ltb : simpl never. Arguments N.div : simpl never.
Arguments N.modulo : simpl never.

Definition fpush (k : nat) (f c : N) : N := N.land (N.lor (shl64 f 2) c) (kmask k).
Definition rpush (k : nat) (r c : N) : N := N.lor (N.shiftr r 2) (shl64 (N.lxor c 3) (kshift k)).

Definition compl (d : N) : N := 3 - d.
Definition rdig (k : nat) (cs : list N) : list N := firstn k (map compl cs ++ repeat 0 k).

Definition RegInv (k : nat) (cs : list N) (f r : N) : Prop :=
  f = code (rev cs) mod 4 ^ N.of_nat k /\ r = code (rdig k cs).

Lemma rdig_len k cs : length (rdig k cs) = k.
Proof. unfold rdig. rewrite firstn_length, app_length, repeat_length. lia. Qed.

Lemma rdig_dig k cs : dig (rdig k cs).
Proof.
  unfold rdig, dig. apply Forall_forall. intros x Hx. apply In_firstn in Hx.
  apply in_app_or in Hx as [Hx|Hx].
  - apply in_map_iff in Hx as [d [<- _]]. unfold compl. lia.
  - apply repeat_spec in Hx. lia.
Qed.

Lemma code_repeat0 n : code (repeat 0 n) = 0.
Proof. induction n as [|n IH]; [reflexivity|]. cbn [repeat]. rewrite code_cons, IH. lia. Qed.

Lemma reg_init k : (1 <= k)%nat -> RegInv k [] 0 0.
Proof.
  intros Hk. unfold RegInv, rdig. cbn [rev map app]. split.
  - unfold code. cbn [fold_left]. rewrite N.mod_0_l; [reflexivity|apply N.pow_nonzero; lia].
  - rewrite firstn_all2 by (rewrite repeat_length; lia). now rewrite code_repeat0.
Qed.

Lemma reg_push k cs f r c : (1 <= k <= 31)%nat -> RegInv k cs f r -> c < 4 ->
  RegInv k (c :: cs) (fpush k f c) (rpush k r c).
Proof.
  intros Hk [Hf Hr] Hc.
  assert (Hpk : 0 < 4 ^ N.of_nat k) by (apply N.neq_0_lt_0, N.pow_nonzero; lia).
  split.
  - unfold fpush. rewrite fstep; [| lia | rewrite Hf; apply N.mod_lt; lia | exact Hc].
    cbn [rev]. rewrite code_snoc, Hf.
    rewrite N.add_mod, N.mul_mod_idemp_r, <- N.add_mod by lia. reflexivity.
  - unfold rpush. rewrite rstep; [| exact Hk | rewrite Hr; pose proof (code_lt _ (rdig_dig k cs)) as HH; rewrite rdig_len in HH; exact HH | exact Hc].
    rewrite Hr. rewrite <- code_removelast; [| apply rdig_dig | intro E; pose proof (rdig_len k cs) as HH; rewrite E in HH; cbn in HH; lia].
    unfold rdig at 2. cbn [map app].
    destruct k as [|k'] eqn:Ek; [lia|]. cbn [firstn]. rewrite code_cons.
    replace (S k' - 1)%nat with k' by lia.
    assert (Hrl : removelast (rdig (S k') cs) = firstn k' (map compl cs ++ repeat 0 (S k'))).
    { unfold rdig. apply removelast_firstn. rewrite app_length, repeat_length. lia. }
    rewrite Hrl.
    assert (Hlen : length (firstn k' (map compl cs ++ repeat 0 (S k'))) = k').
    { rewrite firstn_length, app_length, repeat_length. lia. }
    rewrite Hlen. unfold compl. lia.
Qed.

(* once k digits are in, the registers are the two codes of the last k digits *)
Lemma reg_window k cs f r : (1 <= k)%nat -> dig cs -> (k <= length cs)%nat -> RegInv k cs f r ->
  f = code (rev (firstn k cs)) /\ r = code (map compl (firstn k cs)).
Proof.
  intros Hk Hd Hl [Hf Hr]. split.
  - rewrite Hf. rewrite <- (firstn_skipn k cs) at 1. rewrite rev_app_distr, code_app.
    assert (Hlen : length (rev (firstn k cs)) = k) by (rewrite rev_length, firstn_length; lia).
    rewrite Hlen. rewrite N.add_comm, N.mod_add by (apply N.pow_nonzero; lia).
    apply N.mod_small.
    assert (Hd' : dig (rev (firstn k cs))).
    { apply Forall_forall. intros x Hx. apply in_rev, In_firstn in Hx.
      unfold dig in Hd. rewrite Forall_forall in Hd. auto. }
    pose proof (code_lt _ Hd') as HH. rewrite Hlen in HH. exact HH.
  - rewrite Hr. unfold rdig. rewrite firstn_app. rewrite map_length.
    replace (k - length cs)%nat with 0%nat by lia. rewrite firstn_O, app_nil_r.
    rewrite firstn_map. reflexivity.
Qed.
