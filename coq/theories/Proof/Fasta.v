(* C06 prototype: line-level FASTA parser (as bio 2.0.3 reads it) and its round trip *)
From Coq Require Import NArith List Lia Bool Arith.
From Coq Require Import ZifyN ZifyNat ZifyBool.
Import ListNotations.
Open Scope N_scope.

Definition LF : N := 10.
Definition GT : N := 62.
Definition is_ws (b : N) : bool := (b =? 32) || ((9 <=? b) && (b <=? 13)).

(* ---------- read_line: split after every LF ---------- *)
Fixpoint lines_go (cur : list N) (s : list N) : list (list N) :=
  match s with
  | [] => match cur with [] => [] | _ => [rev cur] end
  | b :: t => if b =? LF then rev (b :: cur) :: lines_go [] t else lines_go (b :: cur) t
  end.
Definition lines (s : list N) := lines_go [] s.

(* ---------- str::trim_end on ASCII ---------- *)
Fixpoint drop_ws (l : list N) : list N :=
  match l with b :: t => if is_ws b then drop_ws t else l | [] => [] end.
Definition trim_end (l : list N) : list N := rev (drop_ws (rev l)).
Definition starts_with (c : N) (l : list N) : bool := match l with b :: _ => b =? c | [] => false end.
Fixpoint take_nows (l : list N) : list N :=
  match l with b :: t => if is_ws b then [] else b :: take_nows t | [] => [] end.

(* ---------- the reader ---------- *)
Inductive outcome (A : Type) := Ok (a : A) | Panic.
Arguments Ok {A}. Arguments Panic {A}.

Fixpoint take_seq (ls : list (list N)) : list N * list (list N) :=
  match ls with
  | [] => ([], [])
  | l :: t => if starts_with GT l then ([], ls)
              else let '(s, rest) := take_seq t in (trim_end l ++ s, rest)
  end.

Definition isnil {A} (l : list A) : bool := match l with [] => true | _ => false end.

Fixpoint parse_fasta (fuel : nat) (ls : list (list N)) : outcome (list (list N * list N)) :=
  match fuel with
  | O => Panic
  | S f =>
    match ls with
    | [] => Ok []
    | l :: t =>
      if starts_with GT l then
        let h := trim_end (tl l) in
        let id := take_nows h in
        let has_desc := existsb is_ws h in
        let '(s, rest) := take_seq t in
        if isnil id && negb has_desc && isnil s then Ok []      (* bio stops at an all-empty record *)
        else match parse_fasta f rest with Ok rs => Ok ((id, s) :: rs) | Panic => Panic end
      else Panic                                                  (* "Expected > at record start." unwrap *)
    end
  end.

(* ---------- well-formed records and their printed lines ---------- *)
Definition nows (l : list N) := Forall (fun b => is_ws b = false) l.
Definition allws (l : list N) := Forall (fun b => is_ws b = true) l.

Record rec := mkrec { rid : list N; rdesc : option (list N); rchunks : list (list N) }.
Definition rseq (r : rec) : list N := concat (rchunks r).

Definition wf_chunk (c : list N) := c <> [] /\ nows c /\ starts_with GT c = false.
Definition wf_rec (r : rec) :=
  rid r <> [] /\ nows (rid r) /\
  (match rdesc r with Some d => d <> [] /\ (exists b d', d = d' ++ [b] /\ is_ws b = false) | None => True end) /\
  Forall wf_chunk (rchunks r).

(* every printed line carries some all-whitespace terminator (LF, CR LF, or nothing for the last line) *)
Definition header_body (r : rec) : list N :=
  GT :: rid r ++ match rdesc r with Some d => 32 :: d | None => [] end.

(* lines of one record given the terminators to use: one for the header, one per chunk *)
Inductive printed_rec : rec -> list (list N) -> Prop :=
| PR r eh es : allws eh -> length es = length (rchunks r) -> Forall allws es ->
    printed_rec r ((header_body r ++ eh) :: map (fun ce => fst ce ++ snd ce) (combine (rchunks r) es)).

Inductive printed : list rec -> list (list N) -> Prop :=
| P_nil : printed [] []
| P_cons r rs l ls : printed_rec r l -> printed rs ls -> printed (r :: rs) (l ++ ls).

(* ---------- lemmas ---------- *)
Lemma drop_ws_allws l : allws l -> drop_ws l = [].
Proof. induction 1 as [|b l Hb Hl IH]; cbn; [reflexivity|]. now rewrite Hb. Qed.

Lemma drop_ws_app_allws e l : allws e -> drop_ws (e ++ l) = drop_ws l.
Proof. induction 1 as [|b e Hb He IH]; cbn [app drop_ws]; [reflexivity|]. now rewrite Hb. Qed.

Lemma allws_rev l : allws l -> allws (rev l).
Proof. intros H. apply Forall_forall. intros x Hx. apply in_rev in Hx. unfold allws in H. rewrite Forall_forall in H. auto. Qed.

Lemma trim_end_app_allws l e : allws e -> trim_end (l ++ e) = trim_end l.
Proof. intros He. unfold trim_end. rewrite rev_app_distr, drop_ws_app_allws by (apply allws_rev; exact He). reflexivity. Qed.

Lemma trim_end_last l b : is_ws b = false -> trim_end (l ++ [b]) = l ++ [b].
Proof. intros Hb. unfold trim_end. rewrite rev_app_distr. cbn [rev app drop_ws]. rewrite Hb. cbn [rev]. now rewrite rev_involutive. Qed.

Lemma trim_end_nows l : nows l -> trim_end l = l.
Proof.
  intros H. destruct l as [|a l] using rev_ind; [reflexivity|].
  apply trim_end_last. unfold nows in H. rewrite Forall_forall in H. apply H. apply in_or_app. right. now left.
Qed.

Lemma take_nows_app l r b : nows l -> is_ws b = true -> take_nows (l ++ b :: r) = l.
Proof. induction 1 as [|a l Ha Hl IH]; intros Hb; cbn [app take_nows]; [now rewrite Hb|]. rewrite Ha. f_equal. apply IH. exact Hb. Qed.

Lemma take_nows_all l : nows l -> take_nows l = l.
Proof. induction 1 as [|a l Ha Hl IH]; cbn [take_nows]; [reflexivity|]. rewrite Ha. now f_equal. Qed.

(* reading the sequence lines of one record *)
Lemma take_seq_chunks cs : forall es rest,
  Forall wf_chunk cs -> length es = length cs -> Forall allws es ->
  (match rest with [] => True | l :: _ => starts_with GT l = true end) ->
  take_seq (map (fun ce => fst ce ++ snd ce) (combine cs es) ++ rest) = (concat cs, rest).
Proof.
  induction cs as [|c cs IH]; intros es rest Hwf Hl He Hrest.
  - cbn. destruct rest as [|l r]; [reflexivity|]. cbn [take_seq]. now rewrite Hrest.
  - destruct es as [|e es]; [discriminate|]. cbn [combine map app fst snd take_seq concat].
    inversion Hwf as [|? ? [Hne [Hnw Hgt]] Hwf']; subst. inversion He as [|? ? Hae He']; subst.
    assert (Hs : starts_with GT (c ++ e) = false).
    { destruct c as [|b c]; [congruence|]. exact Hgt. }
    rewrite Hs. rewrite IH; [|exact Hwf'|cbn in Hl; lia|exact He'|exact Hrest].
    rewrite trim_end_app_allws by exact Hae. rewrite trim_end_nows by exact Hnw. reflexivity.
Qed.

Lemma header_id r eh : wf_rec r -> allws eh ->
  take_nows (trim_end (tl (header_body r ++ eh))) = rid r.
Proof.
  intros (Hne & Hnw & Hd & _) He. unfold header_body. cbn [app tl].
  rewrite trim_end_app_allws by exact He.
  destruct (rdesc r) as [d|].
  - destruct Hd as (_ & b & d' & -> & Hb).
    replace (rid r ++ 32 :: d' ++ [b]) with ((rid r ++ 32 :: d') ++ [b]) by (rewrite <- app_assoc; reflexivity).
    rewrite trim_end_last by exact Hb. rewrite <- app_assoc. cbn [app].
    apply take_nows_app; [exact Hnw|reflexivity].
  - rewrite app_nil_r, trim_end_nows by exact Hnw. apply take_nows_all. exact Hnw.
Qed.

Lemma printed_head rs ls : printed rs ls ->
  match ls with [] => True | l :: _ => starts_with GT l = true end.
Proof.
  induction 1 as [|r rs l ls Hr Hrs IH]; [exact I|].
  destruct Hr. cbn [app]. unfold header_body. cbn [app starts_with]. apply N.eqb_refl.
Qed.

Theorem parse_printed rs : forall ls fuel, Forall wf_rec rs -> printed rs ls -> (length ls < fuel)%nat ->
  parse_fasta fuel ls = Ok (map (fun r => (rid r, rseq r)) rs).
Proof.
  induction rs as [|r rs IH]; intros ls fuel Hwf Hp Hf.
  - inversion Hp; subst. destruct fuel; [lia|]. reflexivity.
  - inversion Hp as [|? ? l ls' Hr Hrs]; subst. inversion Hwf as [|? ? Hwr Hwf']; subst.
    destruct Hr as [r eh es Heh Hles Hes].
    destruct fuel as [|fuel]; [cbn in Hf; lia|].
    cbn [app parse_fasta]. unfold header_body at 1. cbn [app starts_with]. rewrite N.eqb_refl.
    fold (header_body r). change (tl (GT :: _)) with (tl (header_body r ++ eh)).
    rewrite (header_id r eh Hwr Heh).
    destruct Hwr as (Hne & Hnw & Hd & Hch).
    rewrite take_seq_chunks; [|exact Hch|exact Hles|exact Hes|exact (printed_head _ _ Hrs)].
    assert (Hid : isnil (rid r) = false) by (destruct (rid r); [congruence|reflexivity]).
    rewrite Hid. cbn [andb].
    rewrite IH; [reflexivity|exact Hwf'|exact Hrs|].
    cbn [app length] in Hf. rewrite app_length in Hf. lia.
Qed.
Print Assumptions parse_printed.

(* ---------- bytes <-> lines ---------- *)
Lemma lines_go_full body : forall cur t, ~ In LF body ->
  lines_go cur (body ++ LF :: t) = (rev cur ++ body ++ [LF]) :: lines_go [] t.
Proof.
  induction body as [|b body IH]; intros cur t Hn.
  - cbn [app lines_go]. rewrite N.eqb_refl. cbn [rev]. reflexivity.
  - cbn [app lines_go]. destruct (N.eqb_spec b LF) as [->|Hb]; [exfalso; apply Hn; now left|].
    rewrite IH by (intro H; apply Hn; now right). cbn [rev]. rewrite <- app_assoc. reflexivity.
Qed.

Lemma lines_go_partial body : forall cur, ~ In LF body ->
  lines_go cur body = match rev cur ++ body with [] => [] | l => [l] end.
Proof.
  induction body as [|b body IH]; intros cur Hn.
  - cbn [lines_go]. rewrite app_nil_r. destruct cur as [|c cur]; [reflexivity|].
    destruct (rev (c :: cur)) eqn:E; [|reflexivity]. apply (f_equal (@length N)) in E. rewrite rev_length in E. discriminate.
  - cbn [lines_go]. destruct (N.eqb_spec b LF) as [->|Hb]; [exfalso; apply Hn; now left|].
    rewrite IH by (intro H; apply Hn; now right). cbn [rev]. rewrite <- app_assoc. reflexivity.
Qed.

Theorem lines_concat bodies last :
  Forall (fun b => ~ In LF b) bodies -> ~ In LF last ->
  lines (concat (map (fun b => b ++ [LF]) bodies) ++ last) =
  map (fun b => b ++ [LF]) bodies ++ match last with [] => [] | _ => [last] end.
Proof.
  unfold lines. induction 1 as [|b bodies Hb Hbs IH]; intros Hl.
  - cbn [map concat app]. rewrite lines_go_partial by exact Hl. cbn [rev app]. destruct last; reflexivity.
  - cbn [map concat app]. rewrite <- !app_assoc. cbn [app].
    rewrite lines_go_full by exact Hb. cbn [rev app]. f_equal. apply IH. exact Hl.
Qed.
Print Assumptions lines_concat.
