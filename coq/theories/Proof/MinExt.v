(* the grouped-minima specification only looks at the classifier on the bytes that are present: transfers the
   C09 theorem from the regenerated table to the property's own alphabet *)
From Coq Require Import ZArith NArith List Lia Bool Arith.
From KT Require Import Model.Kmer Proof.KmerProof Proof.MinAbs Proof.MinSpec.
Import ListNotations.
Open Scope N_scope.

Section Ext.
Variables f g : N -> N.
Variables w m : nat.

Lemma In_firstn' {A} (x : A) n l : In x (firstn n l) -> In x l.
Proof. revert l. induction n as [|n IH]; intros [|a l] H; cbn in *; try contradiction. destruct H; [now left|right; now apply IH]. Qed.
Lemma In_skipn' {A} (x : A) n l : In x (skipn n l) -> In x l.
Proof. revert l. induction n as [|n IH]; intros [|a l] H; cbn in *; try contradiction; auto. Qed.

Lemma tcl_ext r : (forall b, In b r -> f b = g b) -> tcl f r = tcl g r.
Proof.
  induction r as [|b r IH]; intros H; [reflexivity|]. cbn [tcl]. unfold clean. rewrite (H b (or_introl eq_refl)).
  destruct (g b <? 4); [|reflexivity]. f_equal. apply IH. intros x Hx. apply H. now right.
Qed.

Lemma canon_ext r : (forall b, In b r -> f b = g b) -> canon f m r = canon g m r.
Proof.
  intros H. unfold canon, fwd_code, rev_code.
  assert (E : forall l, (forall b, In b l -> In b r) -> map f l = map g l).
  { intros l Hl. apply map_ext_in. intros b Hb. apply H, Hl, Hb. }
  assert (Hin : forall b, In b (rev (firstn m r)) -> In b r).
  { intros b Hb. apply in_rev in Hb. eapply In_firstn', Hb. }
  rewrite (E _ Hin). f_equal. f_equal. apply map_ext_in. intros b Hb. rewrite H; [reflexivity|].
  apply in_rev in Hb. apply Hin. exact Hb.
Qed.

Lemma win_of_ext r : (forall b, In b r -> f b = g b) -> win_of f w m r = win_of g w m r.
Proof.
  intros H. unfold win_of. rewrite (tcl_ext r H). destruct (w <=? tcl g r)%nat; [|reflexivity]. f_equal. f_equal.
  unfold mvals. f_equal. apply map_ext_in. intros i _. apply canon_ext. intros b Hb. apply H. eapply In_skipn', Hb.
Qed.

Lemma grp_go_ext rest : forall cur r, (forall b, In b r \/ In b rest -> f b = g b) ->
  grp_go f w m cur r rest = grp_go g w m cur r rest.
Proof.
  induction rest as [|b t IH]; intros cur r H; [reflexivity|]. cbn [grp_go].
  assert (Hw : win_of f w m (b :: r) = win_of g w m (b :: r)).
  { apply win_of_ext. intros x [<-|Hx]; apply H; [right; now left|now left]. }
  assert (Hn : forall cur', grp_go f w m cur' (b :: r) t = grp_go g w m cur' (b :: r) t).
  { intros cur'. apply IH. intros x [[<-|Hx]|Hx]; apply H; [right; now left|now left|right; now right]. }
  rewrite Hw. destruct (win_of g w m (b :: r)) as [mv|]; [|now rewrite Hn].
  destruct cur as [[v s]|]; [|apply Hn]. destruct (N.eqb mv v); [apply Hn|]. f_equal. apply Hn.
Qed.

Theorem grp_go_ext_bytes (P : N -> Prop) s : Forall P s -> (forall b, P b -> f b = g b) ->
  grp_go f w m None [] s = grp_go g w m None [] s.
Proof.
  intros Hs Hfg. apply grp_go_ext. intros b [[]|Hb]. apply Hfg. rewrite Forall_forall in Hs. apply Hs, Hb.
Qed.
End Ext.
