(* C09 / C16: no run ever carries the placeholder u64::MAX: every value of the grouped-minima specification is
   the minimum of canonical m-mer codes of a clean window, hence below u64::MAX *)
From Coq Require Import ZArith NArith List Lia Bool Arith.
From Coq Require Import ZifyN ZifyNat ZifyBool.
From KT Require Import Model.Kmer Proof.KmerProof Proof.MinAbs Proof.MinSpec Proof.MinConc.
Import ListNotations.
Open Scope N_scope.

Section NoSentinel.
Variable nt4 : N -> N.
Variables w m : nat.
Hypothesis Hm : (1 <= m <= w)%nat.
Hypothesis Hm31 : (m <= 31)%nat.

Lemma tcl_skipn i : forall r, (i <= tcl nt4 r)%nat -> tcl nt4 (skipn i r) = (tcl nt4 r - i)%nat.
Proof.
  induction i as [|i IH]; intros r H; [cbn; lia|].
  destruct r as [|b r]; [cbn in H; lia|]. cbn [skipn]. cbn [tcl] in H |- *.
  destruct (clean nt4 b); [|lia]. rewrite IH by lia. lia.
Qed.

Lemma win_of_small r mv : win_of nt4 w m r = Some mv -> mv < MAXV.
Proof.
  unfold win_of. destruct (Nat.leb_spec w (tcl nt4 r)) as [Hw|]; [|discriminate].
  intros E. inversion E; subst mv. apply lmin_small.
  - unfold small, mvals. apply Forall_rev. apply Forall_forall. intros x Hx.
    apply in_map_iff in Hx as [i [<- Hi]]. apply in_seq in Hi.
    apply (canon_small nt4 w m Hm Hm31). rewrite tcl_skipn by lia. lia.
  - unfold mvals. intro Hnil. apply (f_equal (@length N)) in Hnil.
    rewrite rev_length, map_length, seq_length in Hnil. cbn in Hnil. lia.
Qed.

Definition cur_small (cur : option (N * nat)) : Prop := match cur with Some (v, _) => v < MAXV | None => True end.

Theorem grp_go_small rest : forall cur r, cur_small cur ->
  Forall (fun o : N * nat * nat => fst (fst o) < MAXV) (grp_go nt4 w m cur r rest).
Proof.
  induction rest as [|b t IH]; intros cur r Hc; cbn [grp_go].
  - destruct cur as [[v s]|]; cbn; [constructor; [exact Hc|constructor]|constructor].
  - destruct (win_of nt4 w m (b :: r)) as [mv|] eqn:E.
    + pose proof (win_of_small _ _ E) as Hmv.
      destruct cur as [[v s]|]; [|apply IH; exact Hmv].
      destruct (N.eqb mv v); [apply IH; exact Hc|]. constructor; [exact Hc|apply IH; exact Hmv].
    + apply Forall_app. split; [|apply IH; exact I].
      destruct cur as [[v s]|]; cbn; [constructor; [exact Hc|constructor]|constructor].
Qed.

Corollary spec_runs_below_sentinel s :
  Forall (fun o : N * nat * nat => fst (fst o) < 18446744073709551615) (grp_go nt4 w m None [] s).
Proof. apply (grp_go_small s None [] I). Qed.
End NoSentinel.
