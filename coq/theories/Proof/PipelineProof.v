(* C05 (and the file-level parts of C08/C11/C12): whatever the memory limit of the batch loop and whatever the
   interleaving of the mapped writer's workers, the output file is header ++ rows in record order. *)
From Coq Require Import ZArith NArith List Lia Bool Arith.
From Coq Require Import ZifyN ZifyNat ZifyBool.
From KT Require Import Gen.Generated Gen.Alphabet Model.Kmer Model.Show Model.Ops Model.Rows Model.Pipeline.
From KT Require Import Proof.RevComp Proof.PosMap Proof.Oligo Proof.Sched Proof.Batch Proof.RowsProof.
Import ListNotations.
Open Scope N_scope.

(* ---------- batch writer: every limit, including 0 and limits never reached ---------- *)
Theorem ofile_batch_any_limit k norm hdr delim mem recs :
  m_ofile k norm hdr delim mem recs =
  (if hdr then header_bytes k delim else []) ++ concat (map (oligo_row_bytes k norm delim) recs).
Proof. unfold m_ofile. rewrite batch_all. reflexivity. Qed.

Theorem cov_batch_any_limit k bs bc norm delim mem recs altrecs :
  m_cov k bs bc norm delim mem recs altrecs =
  concat (map (cov_row_bytes k bs bc norm delim (count_table k altrecs)) recs).
Proof. unfold m_cov. rewrite batch_all. reflexivity. Qed.

(* the batch loops of the two CGR writers: the file is the rows of all records in input order, whatever the limit *)
Theorem cgrfile_batch_any_limit S mem recs : m_cgrfile_mem S mem recs = m_cgrfile S recs.
Proof. unfold m_cgrfile_mem, m_cgrfile. rewrite batch_all. reflexivity. Qed.

Theorem ocgrfile_batch_any_limit k S norm mem recs : m_ocgrfile_mem k S norm mem recs = m_ocgrfile k S norm recs.
Proof. unfold m_ocgrfile_mem, m_ocgrfile. rewrite batch_all, map_length. reflexivity. Qed.

(* ---------- mapped writer: every worker count and every complete schedule ---------- *)
Lemma slots_all_rows (rows : list (list N)) W sched : (1 <= W)%nat ->
  complete (list N) W (exec (list N) rows W sched) ->
  slots (list N) (exec (list N) rows W sched) = map Some rows.
Proof.
  intros HW Hc. destruct (mmap_complete (list N) rows W HW sched Hc) as [Hl Hn].
  apply (nth_ext _ _ None None).
  - rewrite Hl, map_length. reflexivity.
  - intros n Hlt. rewrite Hl in Hlt. rewrite (Hn n Hlt).
    rewrite (nth_indep _ None (Some [])) by (now rewrite map_length).
    rewrite (map_nth Some rows [] n). apply nth_error_nth'. exact Hlt.
Qed.

Theorem osched_any_schedule k hdr delim W sched recs : (1 <= W)%nat ->
  complete (list N) W (exec (list N) (map (oligo_row_bytes k true delim) recs) W sched) ->
  m_osched_file k hdr delim W sched recs =
  (if hdr then header_bytes k delim else []) ++ concat (map (oligo_row_bytes k true delim) recs).
Proof.
  intros HW Hc. unfold m_osched_file. rewrite (slots_all_rows _ W sched HW Hc). f_equal.
  rewrite map_map. cbn beta. rewrite map_id. reflexivity.
Qed.

(* both writers therefore produce the same bytes *)
Corollary writers_agree k hdr delim W sched mem recs : (1 <= W)%nat ->
  complete (list N) W (exec (list N) (map (oligo_row_bytes k true delim) recs) W sched) ->
  m_osched_file k hdr delim W sched recs = m_ofile k true hdr delim mem recs.
Proof. intros HW Hc. rewrite ofile_batch_any_limit. apply osched_any_schedule; assumption. Qed.

(* ---------- rows and header of the model are those of the specification ---------- *)
Section Spec.
Variable k : nat.
Hypothesis Hk : (1 <= k <= 31)%nat.

Lemma row_model_spec norm delim s : Forall (fun b => nt4k b = digit_of_letter b) s ->
  oligo_row_bytes k norm delim s = oligo_row_bytes_spec k norm delim s.
Proof.
  intros Hs. unfold oligo_row_bytes, oligo_row_bytes_spec.
  destruct (oligo_counts_spec_eq k Hk s Hs) as [-> ->]. reflexivity.
Qed.

Lemma header_model_spec delim : letters = [65; 67; 71; 84] -> header_bytes k delim = header_bytes_spec k delim.
Proof.
  intros Hl. unfold header_bytes, header_bytes_spec. rewrite <- (canon_list_eq k Hk).
  rewrite (map_ext (kmer_text k) (s_dec k)); [reflexivity|].
  intros x. unfold kmer_text, s_dec, acgt. rewrite Hl. reflexivity.
Qed.

Theorem ofile_model_spec norm hdr delim mem recs : letters = [65; 67; 71; 84] ->
  Forall (Forall (fun b => nt4k b = digit_of_letter b)) recs ->
  m_ofile k norm hdr delim mem recs = s_ofile k norm hdr delim recs.
Proof.
  intros Hl Hr. rewrite ofile_batch_any_limit. unfold s_ofile. rewrite (header_model_spec delim Hl). f_equal. f_equal.
  apply map_ext_in. intros s Hs. apply row_model_spec. rewrite Forall_forall in Hr. apply Hr, Hs.
Qed.

Theorem osched_model_spec hdr delim W sched recs : letters = [65; 67; 71; 84] -> (1 <= W)%nat ->
  Forall (Forall (fun b => nt4k b = digit_of_letter b)) recs ->
  complete (list N) W (exec (list N) (map (oligo_row_bytes k true delim) recs) W sched) ->
  m_osched_file k hdr delim W sched recs = s_ofile k true hdr delim recs.
Proof.
  intros Hl HW Hr Hc. rewrite (writers_agree k hdr delim W sched 0 recs HW Hc). apply ofile_model_spec; assumption.
Qed.
End Spec.

(* requesting a header adds exactly one first line and changes nothing else *)
Theorem header_adds_one_line k norm delim recs :
  s_ofile k norm true delim recs = header_bytes_spec k delim ++ s_ofile k norm false delim recs.
Proof. reflexivity. Qed.

(* the thread count and the container do not occur in the model at all: rows are a function of the records *)
