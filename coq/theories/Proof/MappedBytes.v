(* C05 / C14 / C17 at the level of bytes: the memory-mapped output file.
   mmap_file_for_writing opens the file (create, truncate), set_len(size) and maps it; every worker then copies its
   row to offset header + n * row_len (MMWriter::write_at).  Here a file is a list of bytes, write_at overwrites a
   range, and the theorems say: when the writes made - in ANY order, each any number of times - are the rows of a
   layout that covers the file, the final bytes are header ++ rows, whatever bytes the file held when the writing
   began (so even a file that was not truncated but only resized would end with the same content). *)
From Coq Require Import NArith List Lia Arith Bool.
Import ListNotations.
Local Open Scope nat_scope.

Definition write_at (pos : nat) (row f : list N) : list N := firstn pos f ++ row ++ skipn (pos + length row) f.
Definition apply_writes (ws : list (nat * list N)) (f : list N) : list N :=
  fold_left (fun f w => write_at (fst w) (snd w) f) ws f.
(* File::set_len: keeps the bytes below the new length, fills with zero bytes *)
Definition set_len (n : nat) (old : list N) : list N := firstn n old ++ repeat 0%N (n - length old).

Definition in_bounds (n : nat) (w : nat * list N) : Prop := fst w + length (snd w) <= n.
Definition covers (w : nat * list N) (i : nat) : bool := (fst w <=? i) && (i <? fst w + length (snd w)).
Definition covered (ws : list (nat * list N)) (i : nat) : Prop := exists w, In w ws /\ covers w i = true.

Lemma nth_skipn' {A} (l : list A) n i d : nth i (skipn n l) d = nth (n + i) l d.
Proof. revert l. induction n as [|n IH]; intros l; [reflexivity|]. destruct l as [|a l]; [destruct i; reflexivity|]. cbn [skipn plus nth]. apply IH. Qed.
Lemma nth_firstn' {A} (l : list A) n i d : i < n -> nth i (firstn n l) d = nth i l d.
Proof. revert l i. induction n as [|n IH]; intros l i H; [lia|]. destruct l as [|a l]; [reflexivity|]. destruct i as [|i]; [reflexivity|]. cbn [firstn nth]. apply IH. lia. Qed.

Lemma skipn_skipn' {A} (l : list A) a b : skipn a (skipn b l) = skipn (b + a) l.
Proof. revert l. induction b as [|b IH]; intros l; [reflexivity|]. destruct l as [|x l]; [now rewrite !skipn_nil|]. cbn [skipn plus]. apply IH. Qed.

Lemma set_len_length n old : length (set_len n old) = n.
Proof. unfold set_len. rewrite app_length, firstn_length, repeat_length. lia. Qed.

Lemma write_at_length pos row f : pos + length row <= length f -> length (write_at pos row f) = length f.
Proof. intros H. unfold write_at. rewrite !app_length, firstn_length, skipn_length. lia. Qed.

Lemma write_at_nth pos row f i d : pos + length row <= length f ->
  nth i (write_at pos row f) d = if covers (pos, row) i then nth (i - pos) row d else nth i f d.
Proof.
  intros H. unfold write_at, covers. cbn [fst snd].
  assert (Hl : length (firstn pos f) = pos) by (rewrite firstn_length; lia).
  destruct (Nat.leb_spec pos i) as [Hpi|Hpi]; cbn [andb].
  - rewrite app_nth2 by lia. rewrite Hl.
    destruct (Nat.ltb_spec i (pos + length row)) as [Hi|Hi].
    + rewrite app_nth1 by lia. reflexivity.
    + rewrite app_nth2 by lia. rewrite nth_skipn'. f_equal. lia.
  - rewrite app_nth1 by lia. apply nth_firstn'. lia.
Qed.

Lemma apply_writes_length ws : forall f, Forall (in_bounds (length f)) ws -> length (apply_writes ws f) = length f.
Proof.
  induction ws as [|w ws IH]; intros f Hb; [reflexivity|]. cbn [apply_writes fold_left].
  inversion Hb as [|? ? Hw Hws]; subst. fold (apply_writes ws (write_at (fst w) (snd w) f)).
  rewrite IH; rewrite write_at_length by exact Hw; [reflexivity|exact Hws].
Qed.

(* byte i of the result does not depend on byte i of the initial content once some write covers i *)
Lemma apply_writes_pointwise d ws : forall f f', length f = length f' -> Forall (in_bounds (length f)) ws ->
  forall i, (covered ws i \/ nth i f d = nth i f' d) -> nth i (apply_writes ws f) d = nth i (apply_writes ws f') d.
Proof.
  induction ws as [|w ws IH]; intros f f' Hl Hb i Hc.
  - destruct Hc as [[w [[] _]]|E]. exact E.
  - cbn [apply_writes fold_left]. fold (apply_writes ws (write_at (fst w) (snd w) f)).
    fold (apply_writes ws (write_at (fst w) (snd w) f')).
    inversion Hb as [|? ? Hw Hws]; subst. unfold in_bounds in Hw.
    apply IH.
    + rewrite !write_at_length by lia. exact Hl.
    + rewrite write_at_length by exact Hw. exact Hws.
    + rewrite !write_at_nth by lia. destruct w as [pos row]. cbn [fst snd] in *.
      destruct (covers (pos, row) i) eqn:Ec; [right; reflexivity|].
      destruct Hc as [[w' [[<-|Hin] Hcw]]|E].
      * rewrite Ec in Hcw. discriminate.
      * left. exists w'. split; assumption.
      * right. exact E.
Qed.

(* the final content does not depend on the initial content when the writes cover the whole file *)
Theorem apply_writes_independent ws f f' : length f = length f' -> Forall (in_bounds (length f)) ws ->
  (forall i, i < length f -> covered ws i) -> apply_writes ws f = apply_writes ws f'.
Proof.
  intros Hl Hb Hc. apply (nth_ext _ _ 0%N 0%N).
  - rewrite !apply_writes_length; [exact Hl|rewrite <- Hl; exact Hb|exact Hb].
  - intros i Hi. rewrite apply_writes_length in Hi by exact Hb.
    apply apply_writes_pointwise; [exact Hl|exact Hb|left; apply Hc; exact Hi].
Qed.

(* a write that repeats what the file already holds changes nothing *)
Definition holds (f : list N) (w : nat * list N) : Prop := firstn (length (snd w)) (skipn (fst w) f) = snd w.
Lemma write_at_noop f w : holds f w -> write_at (fst w) (snd w) f = f.
Proof.
  unfold holds, write_at. intros H. rewrite <- (firstn_skipn (fst w) f) at 3. f_equal.
  rewrite <- (firstn_skipn (length (snd w)) (skipn (fst w) f)) at 1. rewrite H. f_equal.
  rewrite skipn_skipn'. reflexivity.
Qed.
Lemma apply_writes_noop ws f : Forall (holds f) ws -> apply_writes ws f = f.
Proof.
  induction ws as [|w ws IH]; intros H; [reflexivity|]. inversion H as [|? ? Hw Hws]; subst.
  cbn [apply_writes fold_left]. rewrite (write_at_noop f w Hw). apply IH. exact Hws.
Qed.

(* any sequence of writes, each of which puts a piece of `target` in its place, that together cover the file,
   turns EVERY initial content of the right length into `target` *)
Theorem writes_reach_target ws target f : length f = length target ->
  Forall (in_bounds (length target)) ws -> Forall (holds target) ws ->
  (forall i, i < length target -> covered ws i) -> apply_writes ws f = target.
Proof.
  intros Hl Hb Hh Hc. rewrite (apply_writes_independent ws f target Hl); [apply apply_writes_noop; exact Hh| |].
  - rewrite Hl. exact Hb.
  - rewrite Hl. exact Hc.
Qed.

(* ---------- the layout of the mapped oligo writer: header at 0, row n at |header| + n * L ---------- *)
Section Layout.
Variable hdr : list N.
Variable L : nat.
Fixpoint row_writes (off : nat) (rows : list (list N)) : list (nat * list N) :=
  match rows with [] => [] | r :: t => (off, r) :: row_writes (off + L) t end.
Definition layout (rows : list (list N)) : list (nat * list N) := (0, hdr) :: row_writes (length hdr) rows.
Definition target (rows : list (list N)) : list N := hdr ++ concat rows.

Lemma concat_length_fixed (rows : list (list N)) : Forall (fun r => length r = L) rows -> length (concat rows) = L * length rows.
Proof. induction 1 as [|r t Hr _ IH]; [cbn; lia|]. cbn [concat length]. rewrite app_length, IH, Hr. lia. Qed.

Lemma row_writes_spec (rows : list (list N)) : Forall (fun r => length r = L) rows -> forall pre,
  Forall (fun w => in_bounds (length (pre ++ concat rows)) w /\ holds (pre ++ concat rows) w) (row_writes (length pre) rows) /\
  (forall i, length pre <= i < length (pre ++ concat rows) -> covered (row_writes (length pre) rows) i).
Proof.
  induction 1 as [|r t Hr Ht IH]; intros pre.
  - split; [constructor|]. intros i Hi. cbn [concat] in Hi. rewrite app_nil_r in Hi. lia.
  - cbn [row_writes concat]. specialize (IH (pre ++ r)).
    rewrite <- app_assoc in IH. rewrite (app_length pre r), Hr in IH. destruct IH as [IHf IHc]. split.
    + constructor; [|exact IHf]. unfold in_bounds, holds. cbn [fst snd]. split.
      * rewrite !app_length. lia.
      * rewrite skipn_app, skipn_all, Nat.sub_diag. cbn [app skipn]. rewrite firstn_app, firstn_all, Nat.sub_diag.
        cbn [firstn]. apply app_nil_r.
    + intros i Hi. destruct (Nat.ltb_spec i (length pre + L)) as [Hlt|Hge].
      * exists (length pre, r). split; [now left|]. unfold covers. cbn [fst snd]. rewrite Hr.
        apply andb_true_iff. split; [apply Nat.leb_le; lia|apply Nat.ltb_lt; lia].
      * destruct (IHc i) as [w [Hin Hcw]]; [lia|]. exists w. split; [now right|exact Hcw].
Qed.

Lemma layout_spec (rows : list (list N)) : Forall (fun r => length r = L) rows ->
  Forall (in_bounds (length (target rows))) (layout rows) /\ Forall (holds (target rows)) (layout rows) /\
  (forall i, i < length (target rows) -> covered (layout rows) i).
Proof.
  intros Hr. unfold layout, target. destruct (row_writes_spec rows Hr hdr) as [Hf Hc].
  split; [|split].
  - constructor; [unfold in_bounds; cbn [fst snd]; rewrite app_length; lia|].
    revert Hf. apply Forall_impl. intros w [H _]. exact H.
  - constructor; [unfold holds; cbn [fst snd skipn]; rewrite firstn_app, firstn_all, Nat.sub_diag; cbn [firstn]; apply app_nil_r|].
    revert Hf. apply Forall_impl. intros w [_ H]. exact H.
  - intros i Hi. destruct (Nat.ltb_spec i (length hdr)) as [Hlt|Hge].
    + exists (0, hdr). split; [now left|]. unfold covers. cbn [fst snd]. apply andb_true_iff.
      split; [apply Nat.leb_le; lia|apply Nat.ltb_lt; lia].
    + destruct (Hc i) as [w [Hin Hcw]]; [lia|]. exists w. split; [now right|exact Hcw].
Qed.

(* every sequence of writes drawn from the layout - any order, any repetition - that contains all of them gives
   header ++ rows, for every previous content of the file (truncated or only resized to the computed size) *)
Theorem mapped_file_any_order_any_previous_content (rows : list (list N)) ws old :
  Forall (fun r => length r = L) rows ->
  (forall w, In w ws -> In w (layout rows)) -> (forall w, In w (layout rows) -> In w ws) ->
  apply_writes ws (set_len (length hdr + L * length rows) old) = target rows.
Proof.
  intros Hr Hsub Hsup. destruct (layout_spec rows Hr) as [Hb [Hh Hc]].
  apply writes_reach_target.
  - rewrite set_len_length. unfold target. rewrite app_length, (concat_length_fixed rows Hr). reflexivity.
  - apply Forall_forall. intros w Hw. exact (proj1 (Forall_forall _ _) Hb w (Hsub w Hw)).
  - apply Forall_forall. intros w Hw. exact (proj1 (Forall_forall _ _) Hh w (Hsub w Hw)).
  - intros i Hi. destruct (Hc i Hi) as [w [Hin Hcw]]. exists w. split; [apply Hsup; exact Hin|exact Hcw].
Qed.
End Layout.
