From Coq Require Import ZArith NArith List Lia ZifyN ZifyNat ZifyBool.
Ltac Zify.zify_post_hook ::= Z.div_mod_to_equations.
Open Scope N_scope.

Lemma land_low_high a b n : a < 2^n -> N.land a (N.shiftl b n) = 0.
Proof.
  intros Ha. apply N.bits_inj. intros i. rewrite N.land_spec, N.bits_0.
  destruct (N.ltb_spec i n) as [Hi|Hi].
  - rewrite N.shiftl_spec_low by exact Hi. apply Bool.andb_false_r.
  - destruct (N.eq_dec a 0) as [->|Hz]; [now rewrite N.bits_0|].
    rewrite N.bits_above_log2; [reflexivity|].
    apply N.log2_lt_pow2 in Ha; lia.
Qed.

Lemma lor_add_disjoint a b n : a < 2^n -> N.lor a (N.shiftl b n) = a + b * 2^n.
Proof.
  intros Ha. rewrite <- N.lxor_lor by (apply land_low_high; exact Ha).
  rewrite <- N.add_nocarry_lxor by (apply land_low_high; exact Ha).
  now rewrite N.shiftl_mul_pow2.
Qed.

Lemma push_fwd x c k : c < 4 ->
  N.land (N.lor (N.shiftl x 2) c) (N.ones (2*k)) = (4*x + c) mod 4^k.
Proof.
  intros Hc. rewrite N.land_ones. rewrite N.lor_comm.
  rewrite (lor_add_disjoint c x 2) by (simpl; lia).
  replace (2^(2*k)) with (4^k) by (rewrite N.pow_mul_r; reflexivity).
  f_equal. change (2^2) with 4. lia.
Qed.

Lemma push_rev r c k : r < 4^(N.succ k) -> 
  N.lor (N.shiftr r 2) (N.shiftl c (2*k)) = r/4 + c * 4^k.
Proof.
  intros Hr. rewrite N.shiftr_div_pow2. change (2^2) with 4.
  rewrite lor_add_disjoint.
  - now rewrite N.pow_mul_r.
  - rewrite N.pow_mul_r. change (2^2) with 4. rewrite N.pow_succ_r' in Hr.
    apply N.div_lt_upper_bound; lia.
Qed.
Print Assumptions push_rev.
