(* C01: the k-mer iterator yields exactly the valid windows, in order, 2-bit encoded.
   This file only pins statements; proofs live in Proof/. *)
From Coq Require Import NArith List.
From KT Require Import Gen.Generated Gen.Alphabet Gen.FactsBase Gen.FactTableKmer Model.Kmer Proof.KmerProof Proof.Pull.
Import ListNotations.
Open Scope N_scope.

Definition nt4 : N -> N := nt4_of table_kmer.

Theorem C01_iterator_exact :
  forall k s, (1 <= k <= 31)%nat -> kg_run nt4 k s = spec_kmers nt4 k s.
Proof. intros k s Hk. exact (kg_run_spec nt4 k Hk s). Qed.

Theorem C01_alphabet :
  forall b, 4 <= b < 256 -> nt4 b = digit_of_letter b.
Proof. exact (table_ok_spec table_kmer table_kmer_ok). Qed.

(* the two together: on the property's byte domain the iterator is the window spec over the
   property's own alphabet *)
Theorem C01_iterator_exact_letters :
  forall k s, (1 <= k <= 31)%nat -> Forall (fun b => 4 <= b < 256) s ->
  kg_run nt4 k s = spec_kmers digit_of_letter k s.
Proof.
  intros k s Hk Hs. rewrite (kg_run_spec nt4 k Hk s).
  apply (spec_kmers_ext nt4 digit_of_letter (fun b => 4 <= b < 256) k s Hs C01_alphabet).
Qed.

(* the specification list spelled out: one entry for each start position 0 .. |s|-k, in increasing order, present
   exactly when the k bytes from that position are all clean *)
Theorem C01_spec_enumerates_the_windows :
  forall nt4 k s, spec_kmers nt4 k s = flat_map (fun p => emit nt4 (window s p k)) (seq 0 (length s + 1 - k)).
Proof. exact spec_kmers_windows. Qed.

(* the Iterator interface (Proof/Pull.v: a pull-based iterator object - registers, position, bytes not yet consumed -
   whose next() consumes bytes until an item can be returned or the sequence ends): the items obtained by calling
   next() until it returns None are exactly the specified ones, in order, and an exhausted iterator keeps
   returning None without changing *)
Theorem C01_items_drawn_with_next :
  forall k s, (1 <= k <= 31)%nat ->
  kg_collect nt4 k (length s + 2) (mkst 0 0 0, 0%nat, s) = spec_kmers nt4 k s.
Proof. intros k s Hk. rewrite kg_collect_run. exact (kg_run_spec nt4 k Hk s). Qed.

Theorem C01_exhausted_iterator_stays_exhausted :
  forall k st pos rest o', kg_next nt4 k st pos rest = (None, o') ->
  let '(st', pos', rest') := o' in kg_next nt4 k st' pos' rest' = (None, o').
Proof. intros k. apply next_fused. reflexivity. Qed.

(* non-vacuity: a concrete input with an ambiguous byte in the middle *)
Example C01_example : kg_run nt4 2 [65; 67; 78; 71; 84; 84] = [(1, 11); (11, 1); (15, 0)].
Proof. vm_compute. reflexivity. Qed.

Print Assumptions C01_iterator_exact.
Print Assumptions C01_alphabet.
Print Assumptions C01_iterator_exact_letters.
Print Assumptions C01_spec_enumerates_the_windows.
Print Assumptions C01_items_drawn_with_next.
Print Assumptions C01_exhausted_iterator_stays_exhausted.
