(* C01: the k-mer iterator yields exactly the valid windows, in order, 2-bit encoded.
   This file only pins statements; proofs live in Proof/. *)
From Coq Require Import NArith List.
From KT Require Import Gen.Generated Gen.Alphabet Gen.FactsBase Gen.FactTableKmer Model.Kmer Proof.KmerProof.
Import ListNotations.
Open Scope N_scope.

Definition nt4 : N -> N := nt4_of table_kmer.

Theorem C01_iterator_exact :
  forall k s, (1 <= k <= 31)%nat -> kg_run nt4 k s = spec_kmers nt4 k s.
Proof. intros k s Hk. exact (kg_run_spec nt4 k Hk s). Qed.

Theorem C01_alphabet :
  forall b, 4 <= b < 256 -> nt4 b = digit_of_letter b.
Proof. exact (table_ok_spec table_kmer table_kmer_ok). Qed.

(* the two together: on the property's byte domain the iterator is the window spec over the
   property's own alphabet *)
Theorem C01_iterator_exact_letters :
  forall k s, (1 <= k <= 31)%nat -> Forall (fun b => 4 <= b < 256) s ->
  kg_run nt4 k s = spec_kmers digit_of_letter k s.
Proof.
  intros k s Hk Hs. rewrite (kg_run_spec nt4 k Hk s).
  apply (spec_kmers_ext nt4 digit_of_letter (fun b => 4 <= b < 256) k s Hs C01_alphabet).
Qed.

(* the specification list spelled out: one entry for each start position 0 .. |s|-k, in increasing order, present
   exactly when the k bytes from that position are all clean *)
Theorem C01_spec_enumerates_the_windows :
  forall nt4 k s, spec_kmers nt4 k s = flat_map (fun p => emit nt4 (window s p k)) (seq 0 (length s + 1 - k)).
Proof. exact spec_kmers_windows. Qed.

(* non-vacuity: a concrete input with an ambiguous byte in the middle *)
Example C01_example : kg_run nt4 2 [65; 67; 78; 71; 84; 84] = [(1, 11); (11, 1); (15, 0)].
Proof. vm_compute. reflexivity. Qed.

Print Assumptions C01_iterator_exact.
Print Assumptions C01_alphabet.
Print Assumptions C01_iterator_exact_letters.
Print Assumptions C01_spec_enumerates_the_windows.
