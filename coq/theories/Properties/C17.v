(* C17: outputs depend only on input and options, not on what is already on disk.
   File-system model: a location maps paths to contents; File::create and the mapped writer's truncate + set_len
   replace a file's whole content; a run creates, reads back and removes only temp files whose names derive from
   its own chunk and partition counts. *)
From Coq Require Import NArith List String.
From KT Require Import Model.Show Proof.DegenerateProof.
Import ListNotations.
Notation length := List.length.
Notation concat := List.concat.

Theorem C17_write_replaces_content : forall p c f, fs_read p (fs_write p c f) = Some c.
Proof. exact read_write_same. Qed.

(* the result files of a run are what a fresh location would receive, whatever the location held before *)
Theorem C17_results_independent_of_previous_content :
  forall c f f' p d, NoDup (map fst (results c)) -> In (p, d) (results c) ->
  fs_read p (run c f) = Some d /\ fs_read p (run c f') = Some d.
Proof. exact results_do_not_depend_on_history. Qed.

(* any history of earlier runs into the same location, then run c: the same result files as c alone *)
Theorem C17_history_independent :
  forall cs c f0 p d, NoDup (map fst (results c)) -> In (p, d) (results c) ->
  fs_read p (fold_left (fun f c => run c f) (cs ++ [c]) f0) = fs_read p (run c []).
Proof. exact history_independent. Qed.

Example C17_example :
  let stale := [(Show.str "out/kmers.counts"%string, Show.str "old"%string); (Show.str "out/temp_kmers.part_9_chunk_3"%string, Show.str "7 7"%string)] in
  let c := {| results := [(Show.str "out/kmers.counts"%string, Show.str "new"%string)]; temps := [(Show.str "out/temp_kmers.part_0_chunk_0"%string, Show.str "1 1"%string)] |} in
  fs_read (Show.str "out/kmers.counts"%string) (run c stale) = Some (Show.str "new"%string)
  /\ fs_read (Show.str "out/temp_kmers.part_0_chunk_0"%string) (run c stale) = None.
Proof. vm_compute. split; reflexivity. Qed.

Print Assumptions C17_write_replaces_content.
Print Assumptions C17_results_independent_of_previous_content.
Print Assumptions C17_history_independent.
