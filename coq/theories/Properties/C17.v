(* C17: outputs depend only on input and options, not on what is already on disk.
   File-system model: a location maps paths to contents; File::create and the mapped writer's truncate + set_len
   replace a file's whole content; a run creates, reads back and removes only temp files whose names derive from
   its own chunk and partition counts. *)
From Coq Require Import NArith List String.
From KT Require Import Model.Show Model.Fs Model.CtrFs Proof.Merge Proof.DegenerateProof Proof.CtrFsProof Proof.CovFsProof Proof.MappedBytes.
Import ListNotations.
Notation length := List.length.
Notation concat := List.concat.

Theorem C17_write_replaces_content : forall p c f, fs_read p (fs_write p c f) = Some c.
Proof. exact read_write_same. Qed.

(* the result files of a run are what a fresh location would receive, whatever the location held before *)
Theorem C17_results_independent_of_previous_content :
  forall c f f' p d, NoDup (map fst (results c)) -> In (p, d) (results c) ->
  fs_read p (run c f) = Some d /\ fs_read p (run c f') = Some d.
Proof. exact results_do_not_depend_on_history. Qed.

(* any history of earlier runs into the same location, then run c: the same result files as c alone *)
Theorem C17_history_independent :
  forall cs c f0 p d, NoDup (map fst (results c)) -> In (p, d) (results c) ->
  fs_read p (fold_left (fun f c => run c f) (cs ++ [c]) f0) = fs_read p (run c []).
Proof. exact history_independent. Qed.

(* the counter with its concrete files (Model/CtrFs.v, run against the real directory content by the `ctrfs`
   cases): for every partition count, every list of chunk passes and EVERY previous content f of the location,
   the run does not fail on a missing file, kmers.counts receives the merged table of this run alone, this run's
   temp files are gone, and every other path - e.g. temp files of an earlier run with more chunks or partitions -
   is left exactly as it was, unread *)
Theorem C17_counter_files_independent_of_previous_content :
  forall n_parts dir bags f,
  exists f', ctr_fs n_parts dir bags f = Some f' /\
    fs_read (counts_name dir) f' = Some (file_text (merged n_parts bags)) /\
    (forall q, own n_parts dir (N.of_nat (length bags)) q -> fs_read q f' = None) /\
    (forall q, q <> counts_name dir -> ~ own n_parts dir (N.of_nat (length bags)) q -> fs_read q f' = fs_read q f).
Proof. exact ctr_fs_correct. Qed.

Theorem C17_counter_same_table_in_any_two_locations :
  forall n_parts dir bags f g,
  exists f' g', ctr_fs n_parts dir bags f = Some f' /\ ctr_fs n_parts dir bags g = Some g' /\
    fs_read (counts_name dir) f' = fs_read (counts_name dir) g'.
Proof. exact ctr_fs_history_independent. Qed.

(* temp files of different (partition, chunk) never share a name, and none is the counts table *)
Theorem C17_temp_names_distinct :
  forall dir p c p' c', temp_name dir p c = temp_name dir p' c' -> p = p' /\ c = c'.
Proof. exact temp_name_inj. Qed.
Theorem C17_temp_name_is_not_the_counts_table : forall dir p c, temp_name dir p c <> counts_name dir.
Proof. exact temp_not_counts. Qed.

(* `cov` with its concrete files: count + merge into the location, counts table read back, vectors file created.
   For EVERY previous content f: the run does not fail, kmers.vectors is computed from this run's own table,
   kmers.counts is this run's table, its temp files are gone, every other path is untouched *)
Theorem C17_cov_files_independent_of_previous_content :
  forall k bs bc norm delim mem n_parts dir bags recs f,
  exists f', cov_fs k bs bc norm delim mem n_parts dir bags recs f = Some f' /\
    fs_read (vectors_name dir) f' = Some (CtrFs.cov_rows k bs bc norm delim mem (cov_table (merged n_parts bags)) recs) /\
    fs_read (counts_name dir) f' = Some (file_text (merged n_parts bags)) /\
    (forall q, own n_parts dir (N.of_nat (length bags)) q -> fs_read q f' = None) /\
    (forall q, q <> counts_name dir -> q <> vectors_name dir -> ~ own n_parts dir (N.of_nat (length bags)) q ->
               fs_read q f' = fs_read q f).
Proof. exact cov_fs_correct. Qed.

(* the memory-mapped result file at the level of bytes: whatever bytes the path held before - longer, shorter, and
   even if the file were only resized (set_len keeps the bytes below the new length) instead of truncated - once
   the header and every row have been copied to their offsets, in any order, the file is header ++ rows *)
Theorem C17_mapped_result_independent_of_previous_bytes :
  forall hdr L (rows : list (list N)) ws old old', Forall (fun r => length r = L) rows ->
  (forall w, In w ws <-> In w (layout hdr L rows)) ->
  apply_writes ws (set_len (length hdr + L * length rows) old) = hdr ++ concat rows /\
  apply_writes ws (set_len (length hdr + L * length rows) old) = apply_writes ws (set_len (length hdr + L * length rows) old').
Proof.
  intros hdr L rows ws old old' Hr Hw.
  assert (H : forall o, apply_writes ws (set_len (length hdr + L * length rows) o) = hdr ++ concat rows).
  { intros o. apply mapped_file_any_order_any_previous_content; [exact Hr|intros w; apply Hw|intros w; apply Hw]. }
  split; [apply H|rewrite !H; reflexivity].
Qed.

Example C17_example :
  let stale := [(Show.str "out/kmers.counts"%string, Show.str "old"%string); (Show.str "out/temp_kmers.part_9_chunk_3"%string, Show.str "7 7"%string)] in
  let c := {| results := [(Show.str "out/kmers.counts"%string, Show.str "new"%string)]; temps := [(Show.str "out/temp_kmers.part_0_chunk_0"%string, Show.str "1 1"%string)] |} in
  fs_read (Show.str "out/kmers.counts"%string) (run c stale) = Some (Show.str "new"%string)
  /\ fs_read (Show.str "out/temp_kmers.part_0_chunk_0"%string) (run c stale) = None.
Proof. vm_compute. split; reflexivity. Qed.

Print Assumptions C17_write_replaces_content.
Print Assumptions C17_results_independent_of_previous_content.
Print Assumptions C17_history_independent.
Print Assumptions C17_counter_files_independent_of_previous_content.
Print Assumptions C17_counter_same_table_in_any_two_locations.
Print Assumptions C17_temp_names_distinct.
Print Assumptions C17_temp_name_is_not_the_counts_table.
Print Assumptions C17_cov_files_independent_of_previous_content.
Print Assumptions C17_mapped_result_independent_of_previous_bytes.
