(* C12 (record level): k-mer CGR pairs each canonical k-mer's CGR end point with its oligo frequency. *)
From Coq Require Import NArith ZArith List Reals.
From Flocq Require Import Core IEEE754.Binary IEEE754.Bits.
From KT Require Import Gen.Generated Gen.Alphabet Gen.FactsBase Gen.FactCentres Gen.FactCornersOligocgr Gen.FactTableKmer Model.Kmer Model.Ops Model.Rows Proof.RowsProof Proof.CgrProof Proof.CgrExact.
From KT Require Model.Show Model.Pipeline Proof.PipelineProof.
Import ListNotations.
Open Scope N_scope.

Theorem C12_corners : forall b, b < 256 -> corner_ocgr b = corner_spec b.
Proof. exact (corners_ok_spec cgr_corners_oligocgr cgr_corners_oligocgr_ok). Qed.

(* one (x, y) per canonical k-mer column, in column order, and it does not depend on the record *)
Theorem C12_points_per_column :
  forall k S, length (ocgr_points_b64 k S) = length (PosMap.min_mer_vec k) /\
              length (ocgr_points_exact k S) = length (canon_list k).
Proof. intros k S. unfold ocgr_points_b64, ocgr_points_exact. rewrite !map_length. split; reflexivity. Qed.

(* (x, y) of column j is the chaos-game end point of that column's k-mer text *)
Theorem C12_point_is_cgr_end_point :
  forall k S j, (j < length (canon_list k))%nat ->
  nth j (ocgr_points_exact k S) None =
    match cgr_exact corner_spec S (s_dec k (nth j (canon_list k) 0)) with
    | Some l => Some (last l (dcentre S)) | None => None end.
Proof.
  intros k S j Hj. unfold ocgr_points_exact.
  rewrite (nth_map_default _ (canon_list k) 0 None j Hj). reflexivity.
Qed.

(* f is the value the oligo vector gives that column (same counts, same total, same division) *)
Theorem C12_frequency_is_oligo_entry :
  forall k norm s, (1 <= k <= 31)%nat -> Forall (fun b => 4 <= b < 256) s ->
  map (entry_bits norm (oligo_total k s)) (oligo_counts k s)
  = map (entry_bits norm (oligo_total_spec k s)) (oligo_counts_spec k s).
Proof.
  intros k norm s Hk Hs.
  assert (Hd : Forall (fun b => nt4k b = digit_of_letter b) s).
  { revert Hs. apply Forall_impl. intros b Hb. exact (table_ok_spec table_kmer table_kmer_ok b Hb). }
  destruct (oligo_counts_spec_eq k Hk s Hd) as [-> ->]. reflexivity.
Qed.

(* for every k the CLI accepts and every square size up to 2^20 the binary64 end point of a k-mer's walk is the
   exact chaos-game end point (k + 21 + 1 <= 53) *)
Theorem C12_kmer_points_are_exact :
  forall corner Sz (kmer : list N) lf ld, (0 <= Sz < 2 ^ 21)%Z -> (length kmer <= 7)%nat ->
  cgr_b64 corner Sz kmer = Some lf -> cgr_exact corner Sz kmer = Some ld ->
  Forall2 (fun f d => B2R 53 1024 (fst f) = dyR (fst d) /\ B2R 53 1024 (snd f) = dyR (snd d) /\
                      is_finite 53 1024 (fst f) = true /\ is_finite 53 1024 (snd f) = true) lf ld.
Proof.
  intros corner Sz kmer lf ld HS Hk. apply (cgr_b64_is_exact Sz 21); [exact HS|Lia.lia|Lia.lia].
Qed.

Example C12_example : m_ocgr 2 4 false [65; 67; 71] = s_ocgr 2 4 false [65; 67; 71].
Proof. vm_compute. reflexivity. Qed.

(* the walk starts from (S/2, S/2) in the sources too (both copies of cgr_maps) *)
Theorem C12_centre_in_the_code : cgr_centre_is_half_cgr = true /\ cgr_centre_is_half_oligocgr = true.
Proof. exact cgr_centres_ok. Qed.

(* "rows are in input order for every ... batch limit": the batch loop of OligoCgrComputer::vectorise writes the
   row of every record, in input order, whatever the limit (the thread count only sizes the pool that maps a batch
   to its rows with an order-preserving collect) *)
Theorem C12_rows_in_input_order_for_every_batch_limit :
  forall k S norm mem recs,
  KT.Model.Pipeline.m_ocgrfile_mem k S norm mem recs
  = Show.dec_nat (length recs) ++ [35] ++ Show.join KT.Model.Pipeline.semi (map (m_ocgr k S norm) recs).
Proof. exact KT.Proof.PipelineProof.ocgrfile_batch_any_limit. Qed.

Print Assumptions C12_corners.
Print Assumptions C12_rows_in_input_order_for_every_batch_limit.
Print Assumptions C12_points_per_column.
Print Assumptions C12_point_is_cgr_end_point.
Print Assumptions C12_frequency_is_oligo_entry.
Print Assumptions C12_kmer_points_are_exact.
Print Assumptions C12_centre_in_the_code.
