(* C08 (record level): a coverage row bins each valid window by the multiplicity of its canonical k-mer. *)
From Coq Require Import NArith ZArith List Reals.
From Flocq Require Import Core.
From KT Require Import Gen.Generated Gen.Alphabet Gen.FactsBase Gen.FactTableKmer Model.Kmer Model.Ops Model.Rows.
From KT Require Import Model.Pipeline Proof.Oligo Proof.RowsProof Proof.FileSpecProof.
From KT Require Proof.Merge.
From KT Require Import Model.Show Proof.FmtError Model.CtrFs Proof.CovFsProof.
Import ListNotations.
Open Scope N_scope.

Lemma bytes_decode s : Forall (fun b => 4 <= b < 256) s -> Forall (fun b => nt4k b = digit_of_letter b) s.
Proof. apply Forall_impl. intros b Hb. exact (table_ok_spec table_kmer table_kmer_ok b Hb). Qed.

(* entry b = number of valid windows whose canonical k-mer occurs c times with min (c / bin_size) (bin_count - 1) = b,
   c = 0 for k-mers absent from the table *)
Theorem C08_row_bins_windows_by_multiplicity :
  forall k bs bc tbl s, (1 <= k <= 31)%nat -> (1 <= bc)%nat -> Forall (fun b => 4 <= b < 256) s ->
  cov_counts k bs bc tbl s =
    map (fun b => length (filter (fun x => Nat.eqb (N.to_nat (N.min (lookup x tbl / N.of_nat bs) (N.of_nat (bc - 1)))) b)
                                 (map canon_of (spec_kmers digit_of_letter k s)))) (seq 0 bc)
  /\ oligo_total k s = length (spec_kmers digit_of_letter k s).
Proof. intros k bs bc tbl s Hk Hbc Hs. exact (cov_counts_spec_eq k bs bc tbl s Hk Hbc (bytes_decode s Hs)). Qed.

Theorem C08_row_has_bin_count_entries :
  forall k bs bc tbl s, length (cov_counts k bs bc tbl s) = bc.
Proof. exact cov_counts_length. Qed.

Theorem C08_every_window_in_exactly_one_bin :
  forall k bs bc tbl s, (1 <= bc)%nat -> lsum (cov_counts_spec k bs bc tbl s) = oligo_total_spec k s.
Proof. exact cov_spec_sum. Qed.

Theorem C08_absent_kmer_in_bin_zero : forall bs bc x, cov_bin bs bc (lookup x []) = 0%nat.
Proof. intros bs bc x. unfold cov_bin. cbn [lookup]. assert (H : 0 / N.of_nat bs = 0) by (destruct (N.of_nat bs); reflexivity). rewrite H. rewrite N.min_0_l. reflexivity. Qed.

(* file level: the vectors file of the model (counting table from the counting input, batch loop with any flush
   limit) is exactly one specified row per record of the input, in input order; the thread count, the memory
   setting and the chunking of the counter do not occur (C07_counts_table_exact gives the table) *)
Theorem C08_vectors_file_is_one_spec_row_per_record :
  forall k bs bc norm delim mem recs alt, (1 <= k <= 31)%nat -> (1 <= bc)%nat ->
  Forall (Forall (fun b => 4 <= b < 256)) recs -> Forall (Forall (fun b => 4 <= b < 256)) alt ->
  m_cov k bs bc norm delim mem recs alt = concat (map (cov_row_bytes_spec k bs bc norm delim (count_table_spec k alt)) recs).
Proof.
  intros k bs bc norm delim mem recs alt Hk Hbc Hr Ha.
  assert (D : forall l, Forall (Forall (fun b => 4 <= b < 256)) l -> decodes nt4k l).
  { intros l. apply Forall_impl. intros s. apply bytes_decode. }
  exact (cov_model_spec k bs bc norm delim mem recs alt Hk Hbc (D recs Hr) (D alt Ha)).
Qed.

(* "correct to 6 decimals": the printed entry is the 6-decimal text of an n with
   |n / 10^6 - count / max(1, total)| <= 0.5e-6 + 2^-53 (half a unit of the last printed digit plus the rounding
   of the single binary64 division); fix6 n is the decimal text of n / 10^6 *)
Theorem C08_printed_fraction_correct_to_six_decimals :
  forall t c, (c <= Nat.max 1 t)%nat -> (Z.of_nat (Nat.max 1 t) < 2 ^ 53)%Z ->
  exists n, entry_text true t c = fix6 n /\ (n <= 1000000)%N /\
    (Rabs (IZR (Z.of_N n) / 1000000 - IZR (Z.of_nat c) / IZR (Z.of_nat (Nat.max 1 t))) <= / 2000000 + bpow radix2 (-53))%R.
Proof. exact entry_text_correct. Qed.

(* the same through the files of the real pipeline (Model/CtrFs.v, cov_fs, run against the real directory by the
   `covfs` cases): the table read back from the counts file of count + merge - any partition count, any chunk
   passes - gives exactly the specified vectors file *)
Theorem C08_vectors_file_through_the_counts_file :
  forall k bs bc norm delim mem n_parts chunks recs, (1 <= k <= 31)%nat -> (1 <= bc)%nat -> 1 <= n_parts ->
  Forall (Forall (fun b => 4 <= b < 256)) recs -> Forall (Forall (fun b => 4 <= b < 256)) (concat chunks) ->
  CtrFs.cov_rows k bs bc norm delim mem (cov_table (Merge.merged n_parts (map (all_canon k) chunks))) recs
  = s_cov k bs bc norm delim recs (concat chunks).
Proof.
  intros k bs bc norm delim mem n_parts chunks recs Hk Hbc Hn Hr Ha.
  apply cov_fs_vectors_spec; [exact Hk|exact Hbc|exact Hn| |].
  - revert Hr. apply Forall_impl. exact bytes_decode.
  - revert Ha. apply Forall_impl. exact bytes_decode.
Qed.

Example C08_example : cov_counts 3 2 4 [(0, 5); (2, 1)] [65;65;65;78;71;65;71;65] = [2; 0; 1; 0]%nat.
Proof. vm_compute. reflexivity. Qed.

Print Assumptions C08_row_bins_windows_by_multiplicity.
Print Assumptions C08_row_has_bin_count_entries.
Print Assumptions C08_every_window_in_exactly_one_bin.
Print Assumptions C08_absent_kmer_in_bin_zero.
Print Assumptions C08_vectors_file_is_one_spec_row_per_record.
Print Assumptions C08_printed_fraction_correct_to_six_decimals.
Print Assumptions C08_vectors_file_through_the_counts_file.
