(* C02: reverse complement and ACGT decoding are exact inverses. *)
From Coq Require Import NArith List.
From KT Require Import Model.Kmer Proof.KmerProof Proof.Regs Proof.RevComp.
Import ListNotations.
Open Scope N_scope.

Theorem C02_rev_comp_involutive :
  forall k x, (k <= 31)%nat -> x < 4 ^ N.of_nat k -> rev_comp k (rev_comp k x) = x.
Proof. intros k x Hk Hx. apply rev_comp_involutive; [Lia.lia|exact Hx]. Qed.

Theorem C02_rev_comp_text :
  forall k l, (k <= 31)%nat -> dig l -> length l = k -> rev_comp k (code l) = code (rc l).
Proof. intros k l Hk Hd Hl. apply rev_comp_code; [Lia.lia|exact Hd|exact Hl]. Qed.

Theorem C02_decode_encode :
  forall k x, x < 4 ^ N.of_nat k -> length (digits k x) = k /\ dig (digits k x) /\ code (digits k x) = x.
Proof. intros k x Hx. split; [apply digits_len|split; [apply digits_dig|apply code_digits; exact Hx]]. Qed.

Theorem C02_encode_decode : forall l, dig l -> digits (length l) (code l) = l.
Proof. exact digits_code. Qed.

Example C02_example : rev_comp 6 875 = 355.   (* ATCGGT -> ACCGAT, the repository's own test *)
Proof. vm_compute. reflexivity. Qed.

Print Assumptions C02_rev_comp_involutive.
Print Assumptions C02_rev_comp_text.
Print Assumptions C02_decode_encode.
Print Assumptions C02_encode_decode.
