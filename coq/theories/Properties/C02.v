(* C02: reverse complement and ACGT decoding are exact inverses. *)
From Coq Require Import NArith List.
From Coq Require Import Sorting.Permutation.
From KT Require Import Gen.Alphabet Model.Kmer Proof.KmerProof Proof.Regs Proof.RevComp Proof.Strand Proof.RowsProof.
Import ListNotations.
Open Scope N_scope.
From KT Require Gen.Generated Gen.FactRevMasks.

Theorem C02_rev_comp_involutive :
  forall k x, (k <= 31)%nat -> x < 4 ^ N.of_nat k -> rev_comp k (rev_comp k x) = x.
Proof. intros k x Hk Hx. apply rev_comp_involutive; [Lia.lia|exact Hx]. Qed.

Theorem C02_rev_comp_text :
  forall k l, (k <= 31)%nat -> dig l -> length l = k -> rev_comp k (code l) = code (rc l).
Proof. intros k l Hk Hd Hl. apply rev_comp_code; [Lia.lia|exact Hd|exact Hl]. Qed.

Theorem C02_decode_encode :
  forall k x, x < 4 ^ N.of_nat k -> length (digits k x) = k /\ dig (digits k x) /\ code (digits k x) = x.
Proof. intros k x Hx. split; [apply digits_len|split; [apply digits_dig|apply code_digits; exact Hx]]. Qed.

Theorem C02_encode_decode : forall l, dig l -> digits (length l) (code l) = l.
Proof. exact digits_code. Qed.

(* the second component of every pair the k-mer iterator produces is the reverse complement of the first
   (through C01 the iterator's stream IS spec_kmers), and both are below 4^k *)
Theorem C02_second_component_is_reverse_complement :
  forall nt4 k s f r, (k <= 31)%nat -> In (f, r) (spec_kmers nt4 k s) ->
  f < 4 ^ N.of_nat k /\ r = rev_comp k f /\ r < 4 ^ N.of_nat k.
Proof. intros nt4 k s f r Hk Hin. apply (pair_is_rc nt4 k s f r); [Lia.lia|exact Hin]. Qed.

(* the k-mer stream of the reverse-complemented sequence is the original stream reversed with strands swapped
   (ambiguous bytes stay in place and stay ambiguous) ... *)
Theorem C02_stream_of_reverse_complement :
  forall k s, spec_kmers digit_of_letter k (rc_seq s) = rev (map swap (spec_kmers digit_of_letter k s)).
Proof. intros k s. exact (spec_kmers_rc digit_of_letter comp_byte comp_clean comp_digit k s). Qed.

(* ... so the multiset of canonical k-mers is the same for a sequence and its reverse complement *)
Theorem C02_canonical_multiset_is_strand_symmetric :
  forall k s, Permutation (map Strand.cmin (spec_kmers digit_of_letter k (rc_seq s)))
                          (map Strand.cmin (spec_kmers digit_of_letter k s)).
Proof. intros k s. exact (canon_multiset_rc digit_of_letter comp_byte comp_clean comp_digit k s). Qed.

Example C02_example : rev_comp 6 875 = 355.   (* ATCGGT -> ACCGAT, the repository's own test *)
Proof. vm_compute. reflexivity. Qed.

(* the mask with which the three iterators complement a base, as found in the sources, is the one the model uses (3) *)
Theorem C02_complement_mask_in_the_code :
  Generated.rev_mask_kmer = 3 /\ Generated.rev_mask_minimiser = 3 /\ Generated.rev_mask_kmer_minimisers = 3.
Proof. exact FactRevMasks.rev_masks_ok. Qed.

Print Assumptions C02_rev_comp_involutive.
Print Assumptions C02_rev_comp_text.
Print Assumptions C02_decode_encode.
Print Assumptions C02_encode_decode.
Print Assumptions C02_second_component_is_reverse_complement.
Print Assumptions C02_stream_of_reverse_complement.
Print Assumptions C02_canonical_multiset_is_strand_symmetric.
Print Assumptions C02_complement_mask_in_the_code.
