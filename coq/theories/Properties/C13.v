(* C13: the Python bindings compute exactly what the Rust core computes.
   A Python str reaches the Rust code as its UTF-8 bytes; the binding's own loops (oligo vector, header, CGR,
   batch = map over the arguments) are copies of the core loops and are checked against the SAME executable
   models as the core (the `py:` case lines dispatch to the core models).  What can be stated as theorems: *)
From Coq Require Import NArith ZArith List Lia Bool ZifyN ZifyBool String.
From KT Require Import Gen.Generated Gen.Alphabet Gen.FactsBase Gen.FactCornersCgr Gen.FactTableKmer Gen.FactTableKmerMinimisers Gen.FactTableMinimiser Gen.UnsafeInv Gen.UnsafePyFacts Model.Kmer Model.Show Model.Ops Model.Rows Model.Pipeline.
From KT Require Import Extract.Dispatch Proof.Utf8 Proof.RowsProof.
Import ListNotations.
Open Scope N_scope.
Notation length := List.length.

(* every byte of the encoding of a non-ASCII character is >= 128 ... *)
Theorem C13_utf8_of_non_ascii : forall cp, 128 <= cp < 1114112 -> Forall (fun b => 128 <= b < 256) (utf8 cp).
Proof. exact utf8_nonascii. Qed.
Theorem C13_utf8_of_ascii : forall cp, cp < 128 -> utf8 cp = [cp].
Proof. exact utf8_ascii. Qed.

(* ... such a byte is ambiguous for the three iterators (table facts) and has no CGR corner, so a non-ASCII
   character acts as ambiguous bytes and makes CGR raise *)
Theorem C13_high_bytes_are_ambiguous :
  forall b, 128 <= b < 256 -> nt4k b = 4 /\ nt4m b = 4 /\ nt4km b = 4 /\ corner_cgr b = None.
Proof.
  intros b Hb.
  assert (Hd : digit_of_letter b = 4).
  { assert (A : forall b, b < 256 -> (negb (128 <=? b) || (digit_of_letter b =? 4)) = true) by (apply bytes_all; vm_compute; reflexivity).
    specialize (A b ltac:(lia)). destruct (128 <=? b) eqn:E; [|lia]. cbn in A. now apply N.eqb_eq. }
  repeat split.
  - unfold nt4k. rewrite (table_ok_spec table_kmer table_kmer_ok b ltac:(lia)). exact Hd.
  - unfold nt4m. rewrite (table_ok_spec table_minimiser table_minimiser_ok b ltac:(lia)). exact Hd.
  - unfold nt4km. rewrite (table_ok_spec table_kmer_minimisers table_kmer_minimisers_ok b ltac:(lia)). exact Hd.
  - unfold corner_cgr. rewrite (corners_ok_spec cgr_corners_cgr cgr_corners_cgr_ok b ltac:(lia)). unfold corner_spec. now rewrite Hd.
Qed.

(* batch calls return exactly the list of per-sequence results in argument order *)
Theorem C13_batch_is_map :
  forall k norm recs, m_obatch k norm recs = dec_nat (length recs) ++ [35] ++ join semi (map (m_oligo k norm) recs).
Proof. reflexivity. Qed.

(* the binding is specified by the very models of the core: a `py:` case line means the core op on the bytes *)
Theorem C13_python_ops_are_core_ops :
  forall line, dispatch (112 :: 121 :: 58 :: line) = dispatch0 line.
Proof. reflexivity. Qed.

(* the unsafe constructs of the bindings are exactly the modelled ones (the Arc-backed lifetime extension of the
   iterators and the copy of the oligo loop); a new one is not covered by the correspondence of this property *)
Theorem C13_no_uninventoried_unsafe_site : inv_eqb unsafe_bindings expected_unsafe_bindings = true.
Proof. exact unsafe_bindings_ok. Qed.

Example C13_example : fst (dispatch (str "py:kg 2 41c5814347"%string)) = fst (dispatch (str "kg 2 41c5814347"%string)).
Proof. vm_compute. reflexivity. Qed.

Print Assumptions C13_utf8_of_non_ascii.
Print Assumptions C13_utf8_of_ascii.
Print Assumptions C13_high_bytes_are_ambiguous.
Print Assumptions C13_batch_is_map.
Print Assumptions C13_python_ops_are_core_ops.
Print Assumptions C13_no_uninventoried_unsafe_site.
