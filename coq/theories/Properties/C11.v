(* C11 (record level): whole-sequence CGR follows the chaos-game midpoint rule inside the square.
   Statements are about the two executable models of Model/Rows.v: the exact dyadic model (cgr_exact) and the
   binary64 model (cgr_b64, Flocq), which share the generic walk. *)
From Coq Require Import NArith ZArith List.
From Coq Require Import Reals.
From Flocq Require Import Core IEEE754.Binary IEEE754.Bits.
From KT Require Import Gen.Generated Gen.Alphabet Gen.FactsBase Gen.FactCentres Gen.FactCornersCgr Model.Rows Proof.CgrProof Proof.CgrFloat Proof.CgrExact.
From KT Require Model.Pipeline Proof.PipelineProof.
Import ListNotations.

(* the corner table found in the code is the one the property names: A=(0,0), C=(0,S), G=(S,S), T,U=(S,0),
   either case, and no other byte has a corner *)
Theorem C11_corners : forall b, (b < 256)%N -> corner_cgr b = corner_spec b.
Proof. exact (corners_ok_spec cgr_corners_cgr cgr_corners_cgr_ok). Qed.

Theorem C11_one_point_per_base :
  forall corner S s l, cgr_exact corner S s = Some l -> length l = length s.
Proof. intros corner S s l H. exact (walk_length _ _ corner (dmid S) s _ l H). Qed.

Theorem C11_one_point_per_base_b64 :
  forall corner S s l, cgr_b64 corner S s = Some l -> length l = length s.
Proof. intros corner S s l H. unfold cgr_b64, cgr_b64_go in H. exact (walk_length _ _ corner _ s _ l H). Qed.

(* rejected - and then no coordinates at all - exactly when some byte is not a nucleotide letter *)
Theorem C11_rejects_exactly_non_nucleotides :
  forall corner S s, cgr_exact corner S s = None <-> exists b, In b s /\ corner b = None.
Proof. intros corner S s. exact (walk_reject _ _ corner (dmid S) s (dcentre S)). Qed.

Theorem C11_rejects_exactly_non_nucleotides_b64 :
  forall corner S s, cgr_b64 corner S s = None <-> exists b, In b s /\ corner b = None.
Proof. intros corner S s. unfold cgr_b64, cgr_b64_go. apply walk_reject. Qed.

(* point i is the midpoint between point i-1 (the centre for i = 0) and the corner of base i *)
Theorem C11_midpoint_rule :
  forall corner S s l i b c, cgr_exact corner S s = Some l -> nth_error s i = Some b -> corner b = Some c ->
  exists q, match i with O => Some (dcentre S) | Datatypes.S j => nth_error l j end = Some q
            /\ nth_error l i = Some (dmid S c q).
Proof. intros corner S s l i b c. exact (walk_step _ _ corner (dmid S) s (dcentre S) l i b c). Qed.

(* point i depends only on the first i bases *)
Theorem C11_prefix_determined :
  forall corner S a b l, cgr_exact corner S (a ++ b) = Some l -> cgr_exact corner S a = Some (firstn (length a) l).
Proof. intros corner S a b l. exact (walk_prefix _ _ corner (dmid S) a b (dcentre S) l). Qed.

Theorem C11_prefix_determined_b64 :
  forall corner S a b l, cgr_b64 corner S (a ++ b) = Some l -> cgr_b64 corner S a = Some (firstn (length a) l).
Proof. intros corner S a b l. unfold cgr_b64, cgr_b64_go. apply walk_prefix. Qed.

(* every point lies in the closed square [0,S]^2 ... *)
Theorem C11_inside_square :
  forall corner S s l, (0 <= S)%Z -> cgr_exact corner S s = Some l -> Forall (dpt_in S) l.
Proof. intros corner S s l HS. exact (cgr_exact_in_square S HS corner s l). Qed.

(* ... and the last j bases confine it to the sub-square of side S / 2^j that they address *)
Theorem C11_last_bases_fix_subsquare :
  forall S corner a b la lb cs, (0 <= S)%Z ->
  cgr_exact corner S a = Some la ->
  walk (bool * bool) dpt corner (dmid S) (last la (dcentre S)) b = Some lb ->
  corners corner b = Some cs ->
  let q := last lb (last la (dcentre S)) in
  let e := snd (fst (last la (dcentre S))) in
  let e' := snd (snd (last la (dcentre S))) in
  (base1 S (map fst cs) * 2 ^ Z.of_nat e <= fst (fst q) <= (base1 S (map fst cs) + S) * 2 ^ Z.of_nat e /\
   base1 S (map snd cs) * 2 ^ Z.of_nat e' <= fst (snd q) <= (base1 S (map snd cs) + S) * 2 ^ Z.of_nat e' /\
   snd (fst q) = (e + length b)%nat /\ snd (snd q) = (e' + length b)%nat)%Z.
Proof. intros S corner a b la lb cs HS. exact (cgr_exact_subsquare S HS corner a b la lb cs). Qed.

(* the binary64 model (exactly the arithmetic the Rust performs): for every integer square size below 2^52 and
   every sequence length - well beyond the exactly representable prefix - every coordinate stays finite and
   inside the closed square.  (Flocq's Bplus_correct / Bdiv_correct: depends on the four real-number axioms.) *)
Theorem C11_binary64_walk_stays_in_square :
  forall corner Sz seq l, (0 <= Sz < 2 ^ 52)%Z -> cgr_b64 corner Sz seq = Some l ->
  Forall (fun p : fpt => (is_finite 53 1024 (fst p) = true /\ (0 <= B2R 53 1024 (fst p) <= IZR Sz)%R) /\
                         (is_finite 53 1024 (snd p) = true /\ (0 <= B2R 53 1024 (snd p) <= IZR Sz)%R)) l.
Proof. exact cgr_b64_in_square. Qed.

(* ... and while bitlen(S) + length + 1 <= 53 (S = 1: the first 51 points; S = 2^20: the first 31) the binary64
   walk computes EXACTLY the chaos-game values: point i has the real value of point i of the exact dyadic model *)
Theorem C11_binary64_walk_is_exact_while_representable :
  forall Sz b corner s lf ld, (0 <= Sz < 2 ^ Z.of_nat b)%Z -> (b <= 52)%nat -> (b + 1 + length s <= 53)%nat ->
  cgr_b64 corner Sz s = Some lf -> cgr_exact corner Sz s = Some ld ->
  Forall2 (fun f d => B2R 53 1024 (fst f) = dyR (fst d) /\ B2R 53 1024 (snd f) = dyR (snd d) /\
                      is_finite 53 1024 (fst f) = true /\ is_finite 53 1024 (snd f) = true) lf ld.
Proof. intros Sz b corner s lf ld HS Hb Hl. exact (cgr_b64_is_exact Sz b HS Hb corner s lf ld Hl). Qed.

Example C11_example : m_cgr 1 [65; 67; 71; 84]%N = s_cgr 1 [65; 67; 71; 84]%N /\ m_cgr 1 [65; 78]%N = err.
Proof. vm_compute. split; reflexivity. Qed.

(* the walk starts from (S/2, S/2) in the sources too (both copies of cgr_maps) *)
Theorem C11_centre_in_the_code : cgr_centre_is_half_cgr = true /\ cgr_centre_is_half_oligocgr = true.
Proof. exact cgr_centres_ok. Qed.

(* file level: the batch loop of CgrComputer::vectorise (push, flush when the buffered bases reach the limit, final
   flush of a non-empty buffer) writes one row per record in input order - or refuses - whatever the limit *)
Theorem C11_file_rows_in_input_order_for_every_batch_limit :
  forall S mem recs, KT.Model.Pipeline.m_cgrfile_mem S mem recs = KT.Model.Pipeline.m_cgrfile S recs.
Proof. exact KT.Proof.PipelineProof.cgrfile_batch_any_limit. Qed.

Print Assumptions C11_corners.
Print Assumptions C11_file_rows_in_input_order_for_every_batch_limit.
Print Assumptions C11_one_point_per_base.
Print Assumptions C11_one_point_per_base_b64.
Print Assumptions C11_rejects_exactly_non_nucleotides.
Print Assumptions C11_rejects_exactly_non_nucleotides_b64.
Print Assumptions C11_midpoint_rule.
Print Assumptions C11_prefix_determined.
Print Assumptions C11_prefix_determined_b64.
Print Assumptions C11_inside_square.
Print Assumptions C11_last_bases_fix_subsquare.
Print Assumptions C11_binary64_walk_stays_in_square.
Print Assumptions C11_binary64_walk_is_exact_while_representable.
Print Assumptions C11_centre_in_the_code.
