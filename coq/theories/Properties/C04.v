(* C04: the oligo vector of a record counts its canonical k-mers, raw or normalised.
   This file only pins statements; proofs live in Proof/. *)
From Coq Require Import NArith ZArith List Reals.
From Flocq Require Import Core.
From KT Require Import Gen.Generated Gen.Alphabet Gen.FactsBase Gen.FactTableKmer Model.Kmer Model.Ops Model.Rows Model.Flt.
From KT Require Import Proof.Oligo Proof.RowsProof Proof.FmtProof Proof.LayoutProof.
From KT Require Import Model.Show Proof.FmtError Proof.CleanCount.
Import ListNotations.
Open Scope N_scope.

Lemma bytes_decode s : Forall (fun b => 4 <= b < 256) s -> Forall (fun b => nt4k b = digit_of_letter b) s.
Proof. apply Forall_impl. intros b Hb. exact (table_ok_spec table_kmer table_kmer_ok b Hb). Qed.

(* one value per canonical k-mer column, in increasing code order; the value is the number of valid windows
   whose canonical form is that column's k-mer; the normalising total is the number of valid windows *)
Theorem C04_vector_is_canonical_histogram :
  forall k s, (1 <= k <= 31)%nat -> Forall (fun b => 4 <= b < 256) s ->
  oligo_counts k s = map (fun c => count_occ N.eq_dec (map canon_of (spec_kmers digit_of_letter k s)) c) (canon_list k)
  /\ oligo_total k s = length (spec_kmers digit_of_letter k s).
Proof. intros k s Hk Hs. exact (oligo_counts_spec_eq k Hk s (bytes_decode s Hs)). Qed.

Theorem C04_one_value_per_column :
  forall k s, (1 <= k <= 31)%nat -> length (oligo_counts k s) = length (canon_list k).
Proof. intros k s Hk. exact (oligo_counts_length k Hk s). Qed.

Theorem C04_entries_sum_to_window_count :
  forall k s, (1 <= k <= 31)%nat -> lsum (oligo_counts_spec k s) = oligo_total_spec k s.
Proof. intros k s Hk. exact (oligo_spec_sum k Hk s). Qed.

(* before rounding, an entry is the binary64 quotient count / max(1, total) (raw: the count itself);
   with no valid window every entry is +0.0 *)
Theorem C04_entry_definition :
  forall norm t c, entry_bits norm t c =
    if norm then bits (Z.of_nat c) (Z.max 1 (Z.of_nat t)) else bits_of_Z (Z.of_nat c).
Proof. reflexivity. Qed.

(* the printed value: count / total with count <= total is rendered by {:.6} as exactly 8 characters
   (0.xxxxxx or 1.000000): the binary64 quotient lies in [0, 1] (Flocq Bdiv_correct) and its value times 10^6,
   rounded half to even, is at most 10^6 *)
Theorem C04_printed_frequency_has_eight_characters :
  forall t c, (c <= Nat.max 1 t)%nat -> (Z.of_nat (Nat.max 1 t) < 2 ^ 53)%Z -> length (entry_text true t c) = 8%nat.
Proof. exact entry_text_length. Qed.

(* "correct to 6 decimals": the printed entry is the 6-decimal text of an n with
   |n / 10^6 - count / max(1, total)| <= 0.5e-6 + 2^-53 (half a unit of the last printed digit plus the rounding
   of the single binary64 division); fix6 n is the decimal text of n / 10^6 *)
Theorem C04_printed_fraction_correct_to_six_decimals :
  forall t c, (c <= Nat.max 1 t)%nat -> (Z.of_nat (Nat.max 1 t) < 2 ^ 53)%Z ->
  exists n, entry_text true t c = fix6 n /\ (n <= 1000000)%N /\
    (Rabs (IZR (Z.of_N n) / 1000000 - IZR (Z.of_nat c) / IZR (Z.of_nat (Nat.max 1 t))) <= / 2000000 + bpow radix2 (-53))%R.
Proof. exact entry_text_correct. Qed.

(* a record made only of nucleotide letters has |s| + 1 - k valid windows; with C04_entries_sum_to_window_count this is
   the relation the harness checks on records too long for the executable models (obig: entries sum to |s| + 1 - k) *)
Theorem C04_clean_record_window_count :
  forall k s, forallb (Kmer.clean digit_of_letter) s = true -> oligo_total_spec k s = (length s + 1 - k)%nat.
Proof. exact clean_record_window_count. Qed.

Theorem C04_all_zero_row_without_windows :
  forall k s, oligo_total_spec k s = 0%nat -> Forall (fun c => c = 0%nat) (oligo_counts_spec k s).
Proof. exact oligo_spec_zero. Qed.

Theorem C04_invariant_under_reverse_complement :
  forall k s, oligo_counts_spec k (rc_seq s) = oligo_counts_spec k s /\ oligo_total_spec k (rc_seq s) = oligo_total_spec k s.
Proof. exact oligo_spec_rc. Qed.

Theorem C04_invariant_under_case_and_U :
  forall k s, (oligo_counts_spec k (map lower_byte s) = oligo_counts_spec k s /\ oligo_total_spec k (map lower_byte s) = oligo_total_spec k s)
           /\ (oligo_counts_spec k (map tu_byte s) = oligo_counts_spec k s /\ oligo_total_spec k (map tu_byte s) = oligo_total_spec k s).
Proof.
  intros k s. split; [exact (oligo_spec_respelling k lower_byte s lower_digit)|exact (oligo_spec_respelling k tu_byte s tu_digit)].
Qed.

(* non-vacuity: AAAANGAGA at k = 4 (the repository's own test): two valid windows, AAAA twice... once each *)
Example C04_example : oligo_counts 2 [65;65;65;78;71;65;71;65] = [2;0;1;0;0;0;0;2;0;0]%nat
                      /\ m_oligo 2 true [65;65;65;78;71;65;71;65] = s_oligo 2 true [65;65;65;78;71;65;71;65].
Proof. vm_compute. split; reflexivity. Qed.

Print Assumptions C04_vector_is_canonical_histogram.
Print Assumptions C04_one_value_per_column.
Print Assumptions C04_entries_sum_to_window_count.
Print Assumptions C04_entry_definition.
Print Assumptions C04_printed_frequency_has_eight_characters.
Print Assumptions C04_all_zero_row_without_windows.
Print Assumptions C04_invariant_under_reverse_complement.
Print Assumptions C04_invariant_under_case_and_U.
Print Assumptions C04_printed_fraction_correct_to_six_decimals.
Print Assumptions C04_clean_record_window_count.
