(* C06: the reader returns every record once, in order, exact bases, for all containers. *)
From Coq Require Import NArith List Lia String.
From KT Require Import Gen.Generated Gen.FactsBase Gen.FactSuffixes Model.Show Model.Reader Proof.Fasta Proof.Fastq Proof.ReaderProof.
Import ListNotations.
Open Scope N_scope.
Notation length := List.length.
Notation concat := List.concat.

(* FASTA round trip: a list of well-formed records printed with ANY line terminators made of whitespace (LF,
   CR LF, nothing on the last line), any cutting of each sequence into non-empty lines, optional descriptions
   and records without bases, is read back as exactly (id, bases) of each record in order *)
Theorem C06_fasta_roundtrip :
  forall rs ls, Forall wf_rec rs -> printed rs ls ->
  parse_fasta (S (length ls)) ls = Ok (map (fun r => (rid r, rseq r)) rs).
Proof. intros rs ls Hw Hp. apply parse_printed; [exact Hw|exact Hp|lia]. Qed.

(* FASTQ round trip: multi-line sequences, a '+' line with anything after it, as many quality lines as sequence
   lines with arbitrary content (also starting with @ or +) *)
Theorem C06_fastq_roundtrip :
  forall rs ls, Forall wf_recq rs -> printed_qs rs ls ->
  parse_fastq (S (length ls)) ls = Ok (map (fun r => (qid r, qseq r)) rs).
Proof. intros rs ls Hw Hp. apply parse_printed_q; [exact Hw|exact Hp|lia]. Qed.

(* splitting the byte stream after each LF gives back the printed lines (with or without a final newline) *)
Theorem C06_lines_of_stream :
  forall bodies last, Forall (fun b => ~ In LF b) bodies -> ~ In LF last ->
  lines (concat (map (fun b => b ++ [LF]) bodies) ++ last) =
  map (fun b => b ++ [LF]) bodies ++ match last with [] => [] | _ => [last] end.
Proof. exact lines_concat. Qed.

(* gzip: every member is read (the decoder policy of the code), so a multi-member file reads like the
   concatenation of its members, however the stream was cut *)
Theorem C06_all_gzip_members_are_read :
  forall path ms ms', concat ms = concat ms' -> m_read path ms = m_read path ms'.
Proof. intros path ms ms' H. unfold m_read, file_content. rewrite H. reflexivity. Qed.

(* end to end on the executable reader model: any path with a FASTA (FASTQ) suffix, the stream cut into any
   gzip members, lines ended by LF (the last one possibly not): the reader returns the generating records,
   numbered from 0, and the statistics pass agrees (s_read renders records, count and total bases) *)
Theorem C06_reader_returns_the_printed_records_fasta :
  forall path ms rs bodies last,
  format_of path = Some Fasta -> concat ms = stream bodies last ->
  Forall wf_rec rs -> Forall (fun b => ~ In LF b) bodies -> ~ In LF last ->
  printed rs (stream_lines bodies last) ->
  m_read path ms = s_read (str "fa"%string) (map (fun r => (rid r, rseq r)) rs).
Proof. exact read_printed_fasta. Qed.

Theorem C06_reader_returns_the_printed_records_fastq :
  forall path ms rs bodies last,
  format_of path = Some Fastq -> concat ms = stream bodies last ->
  Forall wf_recq rs -> Forall (fun b => ~ In LF b) bodies -> ~ In LF last ->
  printed_qs rs (stream_lines bodies last) ->
  m_read path ms = s_read (str "fq"%string) (map (fun r => (qid r, qseq r)) rs).
Proof. exact read_printed_fastq. Qed.

(* records are numbered 0,1,2,... without gaps *)
Theorem C06_numbering : forall l i, map fst (number_from i l) = seq i (length l).
Proof. induction l as [|x t IH]; intros i; cbn; [reflexivity|]. now rewrite IH. Qed.

(* format inference: the documented suffixes, with an optional .gz *)
Theorem C06_format_of_documented_suffixes :
  map (fun p => format_of (str p)) ["a.fa"; "a.fasta"; "a.fna"; "a.fq"; "a.fastq"; "a.fa.gz"; "a.fasta.gz"; "a.fna.gz"; "a.fq.gz"; "a.fastq.gz"; "a.txt"; "a.gz"]%string
  = [Some Fasta; Some Fasta; Some Fasta; Some Fastq; Some Fastq; Some Fasta; Some Fasta; Some Fasta; Some Fastq; Some Fastq; None; None].
Proof. vm_compute. reflexivity. Qed.

Theorem C06_suffix_table : suffixes_fastq = map str [".fq"; ".fastq"]%string /\ suffixes_fasta = map str [".fasta"; ".fa"; ".fna"]%string.
Proof. exact suffixes_ok. Qed.

Example C06_example :
  m_read (str "x.fa") [str ">r1 d"; [10] ++ str "AC"; [13; 10] ++ str "GT"] = s_read (str "fa") [(str "r1", str "ACGT")].
Proof. vm_compute. reflexivity. Qed.

Print Assumptions C06_fasta_roundtrip.
Print Assumptions C06_fastq_roundtrip.
Print Assumptions C06_lines_of_stream.
Print Assumptions C06_all_gzip_members_are_read.
Print Assumptions C06_numbering.
Print Assumptions C06_reader_returns_the_printed_records_fasta.
Print Assumptions C06_reader_returns_the_printed_records_fastq.
Print Assumptions C06_format_of_documented_suffixes.
Print Assumptions C06_suffix_table.
