(* C16: every subcommand ends cleanly with one row per record on degenerate input.
   The pipeline models are total functions (structural recursion: termination by construction); these theorems
   give the row structure for ALL record lists - empty files, records without bases, records shorter than k, m or
   w, all-ambiguous records included - and the facts behind the repaired defects D4-D6. *)
From Coq Require Import NArith ZArith List String.
From KT Require Import Model.Show Model.Ops Model.Rows Model.Pipeline Model.Cli Proof.DegenerateProof Proof.PipelineProof Proof.MinConc Proof.NoSentinel.
Import ListNotations.
Notation length := List.length.
Notation concat := List.concat.
Open Scope N_scope.

Theorem C16_oligo_one_row_per_record :
  forall k norm hdr delim recs, exists rows,
  s_ofile k norm hdr delim recs = (if hdr then header_bytes_spec k delim else []) ++ concat rows
  /\ length rows = length recs /\ Forall (fun r => exists body, r = body ++ [10]) rows.
Proof. exact ofile_rows. Qed.

Theorem C16_coverage_one_row_per_record :
  forall k bs bc norm delim recs alt, exists rows,
  s_cov k bs bc norm delim recs alt = concat rows
  /\ length rows = length recs /\ Forall (fun r => exists body, r = body ++ [10]) rows.
Proof. exact cov_rows. Qed.

(* D5: the batch loop's final flush fires whenever the buffer is non-empty, so trailing records without bases
   get their (all-zero) row, for every limit *)
Theorem C16_coverage_writer_drops_no_record :
  forall k bs bc norm delim mem recs alt,
  m_cov k bs bc norm delim mem recs alt = concat (map (cov_row_bytes k bs bc norm delim (count_table k alt)) recs).
Proof. exact cov_model_rows. Qed.

Theorem C16_s2m_one_line_per_record :
  forall txt runs m recs, exists lines, s2m_lines txt runs m recs = join semi lines /\ length lines = length recs.
Proof. exact s2m_one_line_per_record. Qed.

(* D6: in whole-read mode (w = 0) the effective window is never shorter than the minimiser *)
Theorem C16_whole_read_window_never_underflows :
  forall w m s, (w = 0 \/ m <= w)%nat -> (m <= eff_w w m s)%nat.
Proof. exact eff_w_ge_m. Qed.

(* no sentinel is ever written as if it were data: every run of every record, in both window modes, carries a
   value below u64::MAX (whose rendering would be the all-T m-mer) *)
Theorem C16_no_placeholder_in_minimiser_output :
  forall w m s, (1 <= m)%nat -> (m <= 31)%nat -> (w = 0 \/ m <= w)%nat ->
  Forall (fun o : N * nat * nat => fst (fst o) < 18446744073709551615) (rec_runs w m s).
Proof.
  intros w m s H1 H2 Hw. unfold rec_runs.
  assert (He : (1 <= m <= eff_w w m s)%nat) by (split; [exact H1|apply eff_w_ge_m; exact Hw]).
  rewrite (mg_run_grp nt4m (eff_w w m s) m He H2 s). exact (spec_runs_below_sentinel nt4m (eff_w w m s) m He H2 s).
Qed.

(* whole-sequence CGR: one row per record, or the run is refused because some record holds a non-nucleotide byte *)
Theorem C16_cgr_rows_or_refusal :
  forall S recs,
  (exists rows, s_cgrfile S recs = dec_nat (length recs) ++ [35] ++ join semi rows /\ length rows = length recs) \/
  (s_cgrfile S recs = err /\ exists s b, In s recs /\ In b s /\ corner_spec b = None).
Proof. exact cgrfile_rows_or_refusal. Qed.

(* D4: the empty input gives the empty output in every subcommand (header line only when requested) *)
Theorem C16_empty_input :
  s_ofile 3 true false [32] [] = [] /\ s_ofile 3 false false [44] [] = [] /\ s_cgrfile 1 [] = Show.str "0#"%string /\ s_ocgrfile 3 9 true [] = Show.str "0#"%string
  /\ s_cov 7 5 5 true [32] [] [] = [] /\ s_ctr 10 false [] = [] /\ s_s2m 0 7 [] = [] /\ s_m2s 12 7 [] = [].
Proof. vm_compute. repeat split; reflexivity. Qed.

Example C16_example : s_s2m 0 7 [[]; [78]; [65; 67]] = Show.str "r0=;r1=;r2="%string /\ m_s2m 0 7 [[]; [78]; [65; 67]] = Show.str "r0=;r1=;r2="%string.
Proof. vm_compute. split; reflexivity. Qed.

Print Assumptions C16_oligo_one_row_per_record.
Print Assumptions C16_coverage_one_row_per_record.
Print Assumptions C16_coverage_writer_drops_no_record.
Print Assumptions C16_s2m_one_line_per_record.
Print Assumptions C16_whole_read_window_never_underflows.
Print Assumptions C16_cgr_rows_or_refusal.
Print Assumptions C16_no_placeholder_in_minimiser_output.
Print Assumptions C16_empty_input.
