(* C15: command-line options mean what they say and nothing more.  The model of cli() is close to a
   transcription, so these theorems are thin; the weight of this property is on the correspondence with the
   binary (DESIGN 7, C15). *)
From Coq Require Import NArith ZArith List Bool String Lia ZifyN ZifyBool.
From KT Require Import Gen.Generated Gen.FactsBase Model.Show Model.Ops Model.Rows Model.Pipeline Model.Cli Proof.CliProof.
Import ListNotations.
Open Scope N_scope.

Definition range_eqb (a b : option range) : bool :=
  match a, b with
  | Some x, Some y => (lo x =? lo y) && (match hi x, hi y with Some p, Some q => p =? q | None, None => true | _, _ => false end)
                      && (match dflt x, dflt y with Some p, Some q => p =? q | None, None => true | _, _ => false end)
  | None, None => true
  | _, _ => false
  end.

(* the ranges and defaults found in the clap declarations are the documented ones *)
Theorem C15_ranges_are_the_documented_ones :
  forallb (fun e => range_eqb (find_range (fst e) cli_ranges) (find_range (fst e) doc_ranges)) doc_ranges = true.
Proof. vm_compute. reflexivity. Qed.

Theorem C15_presets_only_name_a_delimiter :
  forall p, In p [str "csv"; str "tsv"; str "spc"] ->
  get p cli_presets_oligo = get p doc_presets /\ get p cli_presets_cov = get p doc_presets.
Proof. intros p [<-|[<-|[<-|[]]]]; vm_compute; split; reflexivity. Qed.

Theorem C15_refusals_in_the_code :
  cli_min_refuses_w_le_m = true /\ cli_min_refuses_m_ge = Some 31 /\ cli_whole_cgr_refuses_counts = true.
Proof. repeat split; reflexivity. Qed.

(* the csv/tsv/spc presets change only the delimiter handed to the writer; -H only adds the header line;
   --counts only switches normalisation off; the thread option is not even looked at.  Stated for an arbitrary
   writer function f, every accepted k, both flags, every preset and every thread value *)
Theorem C15_oligo_options :
  forall f g1 g2 g3 g4 g5 g6 k (c H : bool) p d t, In k [3; 4; 5; 6; 7] -> In (p, d) [(str "csv", [44]); (str "tsv", [9]); (str "spc", [32])] ->
  In t [str "0"; str "1"; str "2"; str "7"; str "16"] ->
  forall recs alt,
  cli doc_ranges doc_presets doc_presets true (Some 31) true f g1 g2 g3 g4 g5 g6 (str "oligo")
      [(str "k", dec k); (str "c", if c then [49] else [48]); (str "H", if H then [49] else [48]); (str "p", p); (str "t", t)] recs alt
  = Out (to_hex (f (N.to_nat k) (negb c) H d recs)).
Proof.
  intros f g1 g2 g3 g4 g5 g6 k c H p d t Hk Hp Ht recs alt.
  destruct Hk as [<-|[<-|[<-|[<-|[<-|[]]]]]];
  destruct Hp as [E|[E|[E|[]]]]; inversion E; subst p d;
  destruct Ht as [<-|[<-|[<-|[<-|[<-|[]]]]]];
  destruct c, H; vm_compute; reflexivity.
Qed.

(* the thread option never changes results: cli() does not look at it for any subcommand, whatever the other
   settings and the input are (model with the regenerated data, and spec with the documented data) *)
Theorem C15_thread_option_never_changes_the_result :
  forall sub st recs alt,
  s_cli sub (drop_key (str "t") st) recs alt = s_cli sub st recs alt /\
  m_cli sub (drop_key (str "t") st) recs alt = m_cli sub st recs alt.
Proof.
  intros sub st recs alt. unfold s_cli, m_cli. split; f_equal; apply cli_ignores_threads.
Qed.

(* a value outside the documented range is refused by the option parser and nothing is written *)
Theorem C15_out_of_range_is_refused :
  forall (key field : string) tbl st v r, find_range (str field) tbl = Some r -> getn key st = Some v -> in_range r v = false ->
  numeric tbl field key st = Bad.
Proof. intros key field tbl st v r Hr Hv Hi. unfold numeric. rewrite Hr, Hv, Hi. reflexivity. Qed.

(* a window not longer than the minimiser (other than 0) is refused with a diagnostic and no output, for every
   accepted minimiser size and whatever the other options are *)
Definition all_refused : bool :=
  forallb (fun m => forallb (fun w =>
     match cli doc_ranges doc_presets doc_presets true (Some 31) true s_ofile s_cgrfile s_ocgrfile s_cov s_s2m s_m2s s_ctr
               (str "min") [(str "m", dec m); (str "w", dec w)] [] [] with Refused => true | _ => false end)
     (map N.of_nat (seq 1 (N.to_nat m)))) (map N.of_nat (seq 7 22)).
Theorem C15_window_not_longer_than_minimiser_is_refused : all_refused = true.
Proof. vm_compute. reflexivity. Qed.

(* counts and default output differ exactly by per-row normalisation: both rows are renderings of the SAME counts
   and the same window total of the record - the integer itself, or its quotient by the total *)
Theorem C15_counts_and_default_differ_by_normalisation :
  forall k delim s, exists total counts, forall norm,
  oligo_row_bytes_spec k norm delim s = join delim (map (entry_text norm total) counts) ++ [10].
Proof. intros k delim s. exists (oligo_total_spec k s), (oligo_counts_spec k s). intros norm. reflexivity. Qed.

(* the counter's ACGT option only changes how a k-mer is rendered: the same keys in the same order with the same
   counts, the key printed as its number or as its text *)
Theorem C15_acgt_only_changes_rendering :
  forall k recs, exists keys count, forall acgt,
  s_ctr k acgt recs = join comma (map (fun x => (if acgt then s_dec k x else dec x) ++ colon ++ dec_nat (count x)) keys).
Proof.
  intros k recs. eexists. exists (fun x => count_occ N.eq_dec (all_canon_spec k recs) x). intros acgt. unfold s_ctr. reflexivity.
Qed.

Example C15_example :
  m_cli (str "oligo") [(str "k", str "3"); (str "p", str "csv")] [[65;67;71;84]] [] = s_cli (str "oligo") [(str "k", str "3"); (str "p", str "csv")] [[65;67;71;84]] []
  /\ s_cli (str "ctr") [(str "k", str "32")] [[65]] [] = str "exit=2|NOOUT".
Proof. vm_compute. split; reflexivity. Qed.

Print Assumptions C15_ranges_are_the_documented_ones.
Print Assumptions C15_presets_only_name_a_delimiter.
Print Assumptions C15_refusals_in_the_code.
Print Assumptions C15_oligo_options.
Print Assumptions C15_thread_option_never_changes_the_result.
Print Assumptions C15_out_of_range_is_refused.
Print Assumptions C15_window_not_longer_than_minimiser_is_refused.
Print Assumptions C15_counts_and_default_differ_by_normalisation.
Print Assumptions C15_acgt_only_changes_rendering.
