(* C18: the minimiser+k-mers iterator agrees with the plain one and conserves all w-mers. *)
From Coq Require Import NArith List.
From KT Require Import Gen.Generated Gen.Alphabet Gen.FactsBase Gen.FactTableKmerMinimisers Model.Kmer Proof.MinAbs Proof.MinConc Proof.KmMin Proof.Pull.
Import ListNotations.
Open Scope N_scope.

Definition nt4km : N -> N := nt4_of table_kmer_minimisers.

Theorem C18_same_runs :
  forall w m s, map fst (kmg_run nt4km w m s) = mg_run nt4km w m s.
Proof. exact (kmg_run_runs nt4km). Qed.

Theorem C18_conserves_wmers :
  forall w m s, (1 <= m <= w)%nat -> (w <= 31)%nat ->
  concat (map snd (kmg_run nt4km w m s)) = map cmin (kg_run nt4km w s).
Proof. intros w m s H1 H2. exact (kmg_run_conserves nt4km w m H1 H2 s). Qed.

Theorem C18_alphabet : forall b, 4 <= b < 256 -> nt4km b = digit_of_letter b.
Proof. exact (table_ok_spec table_kmer_minimisers table_kmer_minimisers_ok). Qed.

(* the Iterator interface (Proof/Pull.v): the items drawn with next() until it returns None are those of the run
   model the two theorems above speak about, and an exhausted iterator keeps returning None *)
Theorem C18_items_drawn_with_next :
  forall w m s, kmg_collect nt4km w m (length s + 2) (kmg_init, 0%nat, s) = kmg_run nt4km w m s.
Proof. exact (kmg_collect_run nt4km). Qed.

Theorem C18_exhausted_iterator_stays_exhausted :
  forall w m st pos rest o', kmg_next nt4km w m st pos rest = (None, o') ->
  let '(st', pos', rest') := o' in kmg_next nt4km w m st' pos' rest' = (None, o').
Proof. intros w m. apply next_fused. apply kmg_closed. Qed.

Print Assumptions C18_same_runs.
Print Assumptions C18_conserves_wmers.
Print Assumptions C18_alphabet.
Print Assumptions C18_items_drawn_with_next.
Print Assumptions C18_exhausted_iterator_stays_exhausted.
