(* C14: unchecked indexing and memory-mapped writes always stay inside their buffers. *)
From Coq Require Import NArith ZArith List Lia Arith.
From KT Require Import Gen.Generated Gen.Alphabet Gen.FactsBase Gen.FactTableKmer Gen.UnsafeInv Gen.UnsafeFacts Model.Kmer Model.Show Model.Ops Model.Rows.
From KT Require Import Model.Pipeline Proof.KmerProof Proof.RevComp Proof.PosMap Proof.Oligo Proof.Batch Proof.RowsProof Proof.LayoutProof Proof.MappedBytes.
Import ListNotations.
Open Scope N_scope.

(* pos_map.get_unchecked(min(f, r)): the canonical code of every emitted pair is below 4^k = |pos_map| *)
Theorem C14_pos_map_index_in_bounds :
  forall k s p, (1 <= k <= 31)%nat -> In p (spec_kmers digit_of_letter k s) ->
  (N.to_nat (canon_of p) < length (pos_map (min_mer_vec k) (N.to_nat (4 ^ N.of_nat k))))%nat.
Proof.
  intros k s [f r] Hk Hin. rewrite pos_map_length.
  destruct (pair_is_rc digit_of_letter k s f r ltac:(lia) Hin) as [Hf [_ Hr]].
  unfold canon_of. cbn [fst snd]. lia.
Qed.

(* vec.get_unchecked_mut(pos_map[min(f, r)]): the looked-up column is below the column count = |vec| *)
Theorem C14_vector_index_in_bounds :
  forall k s p, (1 <= k <= 31)%nat -> In p (spec_kmers digit_of_letter k s) ->
  (index_of (canon_of p) (canon_list k) < length (canon_list k))%nat.
Proof. intros k s p Hk Hin. apply index_of_lt. exact (canon_of_in k Hk digit_of_letter s p Hin). Qed.

(* coverage: vec.get_unchecked_mut(min(bin, bin_count - 1)) with bin_count >= 1 *)
Theorem C14_coverage_bin_in_bounds : forall bs bc c, (1 <= bc)%nat -> (cov_bin bs bc c < bc)%nat.
Proof. exact cov_bin_lt. Qed.

(* counter: counts_table.get_unchecked(min_mer % n_parts) with n_parts >= 1 (n_parts = max(threads, ...) >= 1) *)
Theorem C14_partition_index_in_bounds : forall x n_parts, 1 <= n_parts -> x mod n_parts < n_parts.
Proof. intros x n H. apply N.mod_lt. lia. Qed.

(* the mapped layout for ANY delimiter length (after the D7 repair): row n starts at hdr + row_len * n;
   rows lie inside the file, tile it exactly and never overlap *)
Theorem C14_rows_inside_the_mapping :
  forall km1 dlen hdr records n, (n < records)%nat ->
  (offset km1 dlen hdr n + row_len km1 dlen <= size_fixed km1 dlen hdr records)%nat.
Proof. exact rows_in_bounds. Qed.

Theorem C14_rows_tile_the_file :
  forall km1 dlen hdr records n,
  (offset km1 dlen hdr (S n) = offset km1 dlen hdr n + row_len km1 dlen /\ offset km1 dlen hdr 0 = hdr /\
   offset km1 dlen hdr records = size_fixed km1 dlen hdr records)%nat.
Proof. exact rows_tile. Qed.

Theorem C14_rows_never_overlap :
  forall km1 dlen hdr n n', (n < n')%nat -> (offset km1 dlen hdr n + row_len km1 dlen <= offset km1 dlen hdr n')%nat.
Proof. exact rows_disjoint. Qed.

(* the size formula as originally written is right exactly for one-byte delimiters (defect D7) *)
Theorem C14_original_size_only_for_one_byte_delimiters :
  forall km1 dlen hdr records, (1 <= km1)%nat -> (1 <= records)%nat ->
  (offset km1 dlen hdr records = size_orig km1 hdr records <-> dlen = 1)%nat.
Proof. exact orig_size_iff_one_byte_delim. Qed.

(* every normalised number is printed with exactly NUMBER_SIZE = 8 characters as long as its rounded value
   times 10^6 is at most 10^6 (a frequency), which is what makes all rows equally long *)
Theorem C14_number_width : forall n, n <= 1000000 -> length (fix6 n) = N.to_nat number_size_oligo.
Proof.
  intros n H. unfold fix6. rewrite app_length. cbn [length].
  assert (Hd : n / 1000000 = 0 \/ n / 1000000 = 1).
  { assert (n / 1000000 <= 1) by (apply N.div_le_upper_bound; lia). lia. }
  assert (Hp : forall w m acc, length (pad_go w m acc) = (w + length acc)%nat).
  { induction w as [|w IH]; intros m acc; cbn [pad_go]; [reflexivity|]. rewrite IH. cbn [length]. lia. }
  unfold pad. rewrite Hp. destruct Hd as [-> | ->]; reflexivity.
Qed.

(* ... and every normalised row the worker formats has exactly that reserved length - kcount numbers of 8
   characters, kcount - 1 delimiters, one line feed - for every record and every delimiter, so that placing row n
   at header + n * row_len is the tiling proved above.  (Needs the binary64 quotient to lie in [0,1]: Flocq.) *)
Theorem C14_every_row_has_the_reserved_length :
  forall k delim s, (1 <= k <= 31)%nat -> Forall (fun b => 4 <= b < 256) s -> (Z.of_nat (S (length s)) < 2 ^ 53)%Z ->
  length (oligo_row_bytes k true delim s) = Pipeline.row_len k (length delim).
Proof.
  intros k delim s Hk Hs Hl. apply oligo_row_length; [exact Hk| |exact Hl].
  revert Hs. apply Forall_impl. intros b Hb. exact (table_ok_spec table_kmer table_kmer_ok b Hb).
Qed.

Theorem C14_reserved_length_is_the_layout_row_length :
  forall k dlen, Pipeline.row_len k dlen = Batch.row_len (length (min_mer_vec k) - 1) dlen \/ min_mer_vec k = [].
Proof.
  intros k dlen. destruct (min_mer_vec k) as [|x t] eqn:E; [now right|left].
  unfold Pipeline.row_len, Batch.row_len, Batch.kcount. rewrite E. cbn [length]. lia.
Qed.

(* at the level of bytes (Proof/MappedBytes.v: a file is a list of bytes, write_at overwrites a range, set_len keeps
   the bytes below the new length and fills with zeros): the copies of the header and of every record's row to
   offset |header| + n * row length - made in ANY order, each any number of times, as long as each is made - leave
   exactly header ++ rows in the file: no byte outside a row is touched, none is left unwritten, and the result
   does not depend on the bytes the file held before *)
Theorem C14_mapped_file_is_header_and_rows_for_any_write_order :
  forall k hdr delim recs ws old, (1 <= k <= 31)%nat -> Forall (Forall (fun b => 4 <= b < 256)) recs ->
  Forall (fun s => (Z.of_nat (S (length s)) < 2 ^ 53)%Z) recs ->
  (forall w, In w ws <-> In w (layout hdr (Pipeline.row_len k (length delim)) (map (oligo_row_bytes k true delim) recs))) ->
  apply_writes ws (set_len (length hdr + Pipeline.row_len k (length delim) * length recs)%nat old)
  = hdr ++ concat (map (oligo_row_bytes k true delim) recs).
Proof.
  intros k hdr delim recs ws old Hk Hb Hl Hw.
  rewrite <- (map_length (oligo_row_bytes k true delim) recs).
  apply mapped_file_any_order_any_previous_content.
  - apply Forall_forall. intros r Hr. apply in_map_iff in Hr as [s [<- Hs]].
    apply C14_every_row_has_the_reserved_length; [exact Hk|exact (proj1 (Forall_forall _ _) Hb s Hs)|exact (proj1 (Forall_forall _ _) Hl s Hs)].
  - intros w H. apply Hw. exact H.
  - intros w H. apply Hw. exact H.
Qed.

(* the unsafe constructs found in the workspace's sources are exactly the inventoried ones: each is hooked
   (indexing, write_at) or modelled (C13); a new unchecked access without a hook breaks this obligation, and the
   property is then no longer shown for that site *)
Theorem C14_no_uninventoried_unsafe_site : inv_eqb unsafe_core expected_unsafe_core = true.
Proof. exact unsafe_core_ok. Qed.

Example C14_example : row_len 9 2 = (10 * 8 + 9 * 2 + 1)%nat /\ size_fixed 9 2 30 3 = (3 * 99 + 30)%nat.
Proof. vm_compute. split; reflexivity. Qed.

Print Assumptions C14_pos_map_index_in_bounds.
Print Assumptions C14_vector_index_in_bounds.
Print Assumptions C14_coverage_bin_in_bounds.
Print Assumptions C14_partition_index_in_bounds.
Print Assumptions C14_rows_inside_the_mapping.
Print Assumptions C14_rows_tile_the_file.
Print Assumptions C14_rows_never_overlap.
Print Assumptions C14_original_size_only_for_one_byte_delimiters.
Print Assumptions C14_number_width.
Print Assumptions C14_every_row_has_the_reserved_length.
Print Assumptions C14_reserved_length_is_the_layout_row_length.
Print Assumptions C14_mapped_file_is_header_and_rows_for_any_write_order.
Print Assumptions C14_no_uninventoried_unsafe_site.
