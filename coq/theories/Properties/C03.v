(* C03: the canonical k-mer column index is a dense ordered bijection with a closed-form size. *)
From Coq Require Import NArith List.
From KT Require Import Gen.Generated Gen.FactsBase Gen.FactLetters Model.Kmer Model.Show Model.Ops Model.Pipeline Proof.RevComp Proof.PosMap Proof.CanonCount Proof.Oligo Proof.RowsProof Proof.PipelineProof.
Import ListNotations.
Open Scope N_scope.

Theorem C03_columns_are_canonical_in_order :
  forall k, (1 <= k <= 31)%nat ->
  min_mer_vec k = filter (canonb k) (PosMap.nrange (N.to_nat (4 ^ N.of_nat k))).
Proof. exact min_mer_vec_eq. Qed.

Theorem C03_column_count :
  forall k, (k <= 31)%nat ->
  N.of_nat (canon_count k) = (4 ^ N.of_nat k + (if Nat.even k then 4 ^ N.of_nat (Nat.div k 2) else 0)) / 2.
Proof. exact canon_count_closed_form. Qed.

(* each canonical k-mer maps to its rank and the index-to-k-mer map is the exact inverse: pos_map[vec[j]] = j
   for every column j, for the vector pos_map built as in the Rust *)
Theorem C03_rank_map_is_inverse_of_column_list :
  forall k j, (1 <= k <= 31)%nat -> (j < length (min_mer_vec k))%nat ->
  nth (N.to_nat (nth j (min_mer_vec k) 0)) (pos_map (min_mer_vec k) (N.to_nat (4 ^ N.of_nat k))) 0%nat = j.
Proof.
  intros k j Hk Hj. apply pos_map_rank; [| |exact Hj].
  - rewrite (min_mer_vec_eq k Hk). apply filter_sorted. apply (nrange_sorted k Hk).
  - intros x Hx. rewrite (min_mer_vec_eq k Hk) in Hx. apply filter_In in Hx as [Hx _]. apply (in_nrange' x) in Hx. exact Hx.
Qed.

(* the header names exactly the canonical k-mers, as ACGT text, in column order *)
Theorem C03_header_names_the_columns :
  forall k delim, (1 <= k <= 31)%nat -> header_bytes k delim = join delim (map (s_dec k) (canon_list k)) ++ [10].
Proof. intros k delim Hk. exact (header_model_spec k Hk delim letters_ok). Qed.

Example C03_example : length (min_mer_vec 4) = 136%nat.
Proof. vm_compute. reflexivity. Qed.

Print Assumptions C03_columns_are_canonical_in_order.
Print Assumptions C03_column_count.
Print Assumptions C03_rank_map_is_inverse_of_column_list.
Print Assumptions C03_header_names_the_columns.
