(* C03: the canonical k-mer column index is a dense ordered bijection with a closed-form size. *)
From Coq Require Import NArith List.
From KT Require Import Model.Kmer Proof.RevComp Proof.PosMap Proof.CanonCount.
Import ListNotations.
Open Scope N_scope.

Theorem C03_columns_are_canonical_in_order :
  forall k, (1 <= k <= 31)%nat ->
  min_mer_vec k = filter (canonb k) (PosMap.nrange (N.to_nat (4 ^ N.of_nat k))).
Proof. exact min_mer_vec_eq. Qed.

Theorem C03_column_count :
  forall k, (k <= 31)%nat ->
  N.of_nat (canon_count k) = (4 ^ N.of_nat k + (if Nat.even k then 4 ^ N.of_nat (Nat.div k 2) else 0)) / 2.
Proof. exact canon_count_closed_form. Qed.

Example C03_example : length (min_mer_vec 4) = 136%nat.
Proof. vm_compute. reflexivity. Qed.

Print Assumptions C03_columns_are_canonical_in_order.
Print Assumptions C03_column_count.
