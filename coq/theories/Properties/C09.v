(* C09: the minimiser iterator emits exactly the maximal runs of same-minimiser windows. *)
From Coq Require Import NArith List.
From KT Require Import Gen.Generated Gen.Alphabet Gen.FactsBase Gen.FactTableMinimiser Model.Kmer Proof.MinAbs Proof.MinSpec Proof.MinConc Proof.MinExt Proof.NoSentinel Proof.Pull.
Import ListNotations.
Open Scope N_scope.

Definition nt4m : N -> N := nt4_of table_minimiser.

Theorem C09_runs_exact :
  forall w m s, (1 <= m <= w)%nat -> (m <= 31)%nat ->
  mg_run nt4m w m s = grp_go nt4m w m None [] s.
Proof. intros w m s H1 H2. exact (mg_run_grp nt4m w m H1 H2 s). Qed.

Theorem C09_alphabet : forall b, 4 <= b < 256 -> nt4m b = digit_of_letter b.
Proof. exact (table_ok_spec table_minimiser table_minimiser_ok). Qed.

(* the two together: on the property's byte domain the iterator emits the grouped window minima computed
   over the property's own alphabet *)
Theorem C09_runs_exact_letters :
  forall w m s, (1 <= m <= w)%nat -> (m <= 31)%nat -> Forall (fun b => 4 <= b < 256) s ->
  mg_run nt4m w m s = grp_go digit_of_letter w m None [] s.
Proof.
  intros w m s H1 H2 Hs. rewrite (mg_run_grp nt4m w m H1 H2 s).
  exact (grp_go_ext_bytes nt4m digit_of_letter w m (fun b => 4 <= b < 256) s Hs C09_alphabet).
Qed.

(* nothing - in particular no placeholder value u64::MAX - is emitted that is not a window minimum of canonical
   m-mer codes: every emitted value is below u64::MAX, for every input *)
Theorem C09_no_placeholder_is_ever_emitted :
  forall w m s, (1 <= m <= w)%nat -> (m <= 31)%nat ->
  Forall (fun o : N * nat * nat => fst (fst o) < 18446744073709551615) (mg_run nt4m w m s).
Proof.
  intros w m s H1 H2. rewrite (mg_run_grp nt4m w m H1 H2 s). exact (spec_runs_below_sentinel nt4m w m H1 H2 s).
Qed.

(* the Iterator interface (Proof/Pull.v): calling next() until it returns None yields exactly the runs above - the
   run still open at the end of the sequence is emitted by the call that reaches the end, once - and an exhausted
   iterator keeps returning None *)
Theorem C09_items_drawn_with_next :
  forall w m s, (1 <= m <= w)%nat -> (m <= 31)%nat ->
  mg_collect nt4m w m (length s + 2) (mg_init, 0%nat, s) = grp_go nt4m w m None [] s.
Proof. intros w m s H1 H2. rewrite mg_collect_run. exact (mg_run_grp nt4m w m H1 H2 s). Qed.

Theorem C09_exhausted_iterator_stays_exhausted :
  forall w m st pos rest o', mg_next nt4m w m st pos rest = (None, o') ->
  let '(st', pos', rest') := o' in mg_next nt4m w m st' pos' rest' = (None, o').
Proof. intros w m. apply next_fused. apply mg_closed. Qed.

Example C09_example :
  mg_run nt4m 8 5 [65;84;71;67;71;65;84;65;84;67;71;78;84;65;71;71;67;71;84;67;71;65;84;71;71;65]
  = [(217, 0%nat, 8%nat); (205, 1%nat, 11%nat); (101, 12%nat, 22%nat); (216, 15%nat, 26%nat)].
Proof. vm_compute. reflexivity. Qed.

Print Assumptions C09_runs_exact.
Print Assumptions C09_alphabet.
Print Assumptions C09_runs_exact_letters.
Print Assumptions C09_no_placeholder_is_ever_emitted.
Print Assumptions C09_items_drawn_with_next.
Print Assumptions C09_exhausted_iterator_stays_exhausted.
