(* C05: oligo rows follow input order for any threads, batching, writer path. *)
From Coq Require Import NArith ZArith List.
From KT Require Import Gen.Generated Gen.Alphabet Gen.FactsBase Gen.FactLetters Gen.FactTableKmer Model.Kmer Model.Ops Model.Rows Model.Pipeline.
From KT Require Import Proof.Sched Proof.Batch Proof.PipelineProof.
From Coq Require Import String.
From KT Require Model.Show.
From KT Require Import Model.Reader Proof.Fasta Proof.Fastq Proof.ReaderProof Proof.ContainerProof Proof.MappedBytes Proof.MappedCmd.
Import ListNotations.
Open Scope N_scope.

Definition wf_bytes (recs : list (list N)) : Prop := Forall (Forall (fun b => 4 <= b < 256)) recs.
Lemma wf_decode recs : wf_bytes recs -> Forall (Forall (fun b => nt4k b = digit_of_letter b)) recs.
Proof.
  apply Forall_impl. intros s. apply Forall_impl. intros b Hb. exact (table_ok_spec table_kmer table_kmer_ok b Hb).
Qed.

(* batch writer (counts, stdin): for every memory limit from 0 up the file is header ++ rows in record order *)
Theorem C05_batch_writer_every_limit :
  forall k norm hdr delim mem recs, (1 <= k <= 31)%nat -> wf_bytes recs ->
  m_ofile k norm hdr delim mem recs = s_ofile k norm hdr delim recs.
Proof. intros k norm hdr delim mem recs Hk Hw. apply ofile_model_spec; [exact Hk|exact letters_ok|exact (wf_decode recs Hw)]. Qed.

(* mapped writer: for every worker count W >= 1 and every interleaving of TAKE / WRITE / EXIT steps after which
   all workers have exited, slot n holds row n for all n *)
Theorem C05_mapped_writer_every_interleaving :
  forall k hdr delim W sched recs, (1 <= k <= 31)%nat -> (1 <= W)%nat -> wf_bytes recs ->
  complete (list N) W (exec (list N) (map (oligo_row_bytes k true delim) recs) W sched) ->
  m_osched_file k hdr delim W sched recs = s_ofile k true hdr delim recs.
Proof.
  intros k hdr delim W sched recs Hk HW Hw Hc.
  apply osched_model_spec; [exact Hk|exact letters_ok|exact HW|exact (wf_decode recs Hw)|exact Hc].
Qed.

Theorem C05_writers_agree :
  forall k hdr delim W sched mem recs, (1 <= W)%nat ->
  complete (list N) W (exec (list N) (map (oligo_row_bytes k true delim) recs) W sched) ->
  m_osched_file k hdr delim W sched recs = m_ofile k true hdr delim mem recs.
Proof. exact writers_agree. Qed.

Theorem C05_header_adds_exactly_one_line :
  forall k norm delim recs, s_ofile k norm true delim recs = header_bytes_spec k delim ++ s_ofile k norm false delim recs.
Proof. exact header_adds_one_line. Qed.

(* container independence, end to end on the executable models (reader: path suffix, gzip members, lines, parser;
   then the file-level composition model): a FASTA file in any wrapping and a FASTQ file carrying the same
   sequences, each cut into gzip members in any way, any batch limits: the same output bytes, the specified ones *)
Theorem C05_container_independent :
  forall pa ma ra ba la pq mq rq bq lq k norm hdr delim mem mem',
  (1 <= k <= 31)%nat ->
  format_of pa = Some Fasta -> concat ma = stream ba la -> Forall wf_rec ra ->
  Forall (fun b => ~ In LF b) ba -> ~ In LF la -> printed ra (stream_lines ba la) ->
  format_of pq = Some Fastq -> concat mq = stream bq lq -> Forall wf_recq rq ->
  Forall (fun b => ~ In LF b) bq -> ~ In LF lq -> printed_qs rq (stream_lines bq lq) ->
  map rseq ra = map qseq rq -> wf_bytes (map rseq ra) ->
  oligo_cmd pa ma k norm hdr delim mem = oligo_cmd pq mq k norm hdr delim mem' /\
  oligo_cmd pa ma k norm hdr delim mem = Some (s_ofile k norm hdr delim (map rseq ra)).
Proof.
  intros pa ma ra ba la pq mq rq bq lq k norm hdr delim mem mem' Hk Hfa Hca Hwa Hba Hla Hpa Hfq Hcq Hwq Hbq Hlq Hpq Hs Hw.
  exact (container_independent pa ma ra ba la pq mq rq bq lq k norm hdr delim mem mem' Hk letters_ok
           Hfa Hca Hwa Hba Hla Hpa Hfq Hcq Hwq Hbq Hlq Hpq Hs (wf_decode _ Hw)).
Qed.

(* both writer strategies from the same file bytes, end to end (Proof/MappedCmd.v): reader model, the statistics pass
   that sizes the mapping, set_len on whatever the output path held, then the header and the rows copied to their
   offsets in ANY order (`order`: any re-listing of the same writes) - the bytes are those the batch writer
   produces for the same file with any memory limit.  With the example below: the mapped command really runs. *)
Theorem C05_mapped_and_batch_writer_agree_from_file_bytes :
  forall path members k hdr delim order old mem f recs,
  (1 <= k <= 31)%nat -> (forall l w, In w (order l) <-> In w l) ->
  format_of path = Some f -> parse f (file_content members) = Fasta.Ok recs ->
  wf_bytes (map snd recs) -> Forall (fun s => (Z.of_nat (S (List.length s)) < 2 ^ 53)%Z) (map snd recs) ->
  oligo_mmap_cmd path members k hdr delim order old = oligo_cmd path members k true hdr delim mem.
Proof.
  intros path members k hdr delim order old mem f recs Hk Ho Hf Hp Hw Hl.
  exact (mapped_cmd_is_batch_cmd path members k hdr delim order old mem f recs Hk Ho Hf Hp (wf_decode _ Hw) Hl).
Qed.

Example C05_mapped_cmd_example :
  oligo_mmap_cmd (Show.str "a.fa"%string) [Show.str ">r0 x
ACG
TAC
>r1
GG
"%string] 2 true [44] (@rev _) (Show.str "what an earlier, longer run left in the output file .................................................................................................................................................................................................................."%string)
  = Some (s_ofile 2 true true [44] [Show.str "ACGTAC"%string; Show.str "GG"%string]).
Proof. vm_compute. reflexivity. Qed.

Example C05_container_example :
  oligo_cmd (Show.str "a.fa"%string) [Show.str ">r0 x
ACG
TAC
>r1
GG
"%string] 2 true true [44] 0%nat
  = oligo_cmd (Show.str "b.fq.gz"%string) [Show.str "@r0
ACGTAC
+
III"%string; Show.str "III
@r1
GG
+
II
"%string] 2 true true [44] 100%nat
  /\ oligo_cmd (Show.str "a.fa"%string) [Show.str ">r0 x
ACG
TAC
>r1
GG
"%string] 2 true true [44] 0%nat = Some (s_ofile 2 true true [44] [Show.str "ACGTAC"%string; Show.str "GG"%string]).
Proof. vm_compute. split; reflexivity. Qed.

(* non-vacuity: a complete schedule exists and gives the rows in order *)
Example C05_example :
  let recs := [[65;67;71;84]; [67;67]; [65;65;65]] in
  m_osched_file 1 true [44] 2 [0;1;1;0;0;1;0;1;0;1]%nat recs = s_ofile 1 true true [44] recs.
Proof. vm_compute. reflexivity. Qed.

Print Assumptions C05_batch_writer_every_limit.
Print Assumptions C05_mapped_writer_every_interleaving.
Print Assumptions C05_writers_agree.
Print Assumptions C05_header_adds_exactly_one_line.
Print Assumptions C05_container_independent.
Print Assumptions C05_mapped_and_batch_writer_agree_from_file_bytes.
