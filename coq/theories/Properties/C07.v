(* C07: k-mer counting is exact and independent of threads, chunking and partitioning. *)
From Coq Require Import NArith ZArith List.
From KT Require Import Model.Kmer Model.Ops Model.Rows Model.Pipeline Proof.CountSched Proof.Merge.
Import ListNotations.
Open Scope N_scope.

(* chunked counting under a schedule: workers CHECK the limit, TAKE a record, INC one k-mer at a time, ADD the
   record length, EXIT; a chunk pass ends when all have exited; passes repeat until a pass takes no record.
   For every worker count, limit and interleaving that runs to the end, every k-mer has been counted - over all
   chunk passes together - exactly as often as it occurs in the input. *)
Theorem C07_counting_exact_every_interleaving :
  forall (recs : list (list N * N)) (W : nat), (1 <= W)%nat ->
  forall (limit : N) (sched : list nat),
  fin (CountSched.exec recs W limit sched) = true ->
  forall x, cdone x (done (CountSched.exec recs W limit sched)) = CountSched.all recs x.
Proof. exact count_exact. Qed.

(* partition by k-mer mod n_parts, one file per (partition, chunk), merge per partition: every line carries the
   total over all chunks, no k-mer has two lines, every occurring k-mer has its line - for every n_parts >= 1
   and every way the occurrences were split into chunk passes *)
Theorem C07_merge_lines_carry_totals :
  forall n_parts bags x c, In (x, c) (merged n_parts bags) ->
  c = Merge.occ x (everything bags) /\ In x (everything bags).
Proof. exact merged_counts. Qed.

Theorem C07_one_line_per_kmer :
  forall n_parts, 1 <= n_parts -> forall bags, NoDup (map fst (merged n_parts bags)).
Proof. exact merged_keys_nodup. Qed.

Theorem C07_every_kmer_has_its_line :
  forall n_parts, 1 <= n_parts -> forall bags x, In x (everything bags) ->
  In (x, Merge.occ x (everything bags)) (merged n_parts bags).
Proof. exact merged_complete. Qed.

Example C07_example :
  m_ctr 2 false 3 [[[65;67;71;84]]; [[65;67]; [71;84;78;65;67]]] = s_ctr 2 false [[65;67;71;84]; [65;67]; [71;84;78;65;67]].
Proof. vm_compute. reflexivity. Qed.

Print Assumptions C07_counting_exact_every_interleaving.
Print Assumptions C07_merge_lines_carry_totals.
Print Assumptions C07_one_line_per_kmer.
Print Assumptions C07_every_kmer_has_its_line.
