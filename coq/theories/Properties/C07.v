(* C07: k-mer counting is exact and independent of threads, chunking and partitioning. *)
From Coq Require Import NArith ZArith List.
From KT Require Import Gen.Generated Gen.Alphabet Gen.FactsBase Gen.FactLetters Gen.FactTableKmer Model.Kmer Model.Ops Model.Rows Model.Pipeline Proof.CountSched Proof.Merge Proof.CountProof.
From KT Require Import Model.Show Model.Fs Model.CtrFs Proof.CtrFsProof Proof.CountLive Proof.PassesProof Proof.MergeSum.
Import ListNotations.
Open Scope N_scope.

(* chunked counting under a schedule: workers CHECK the limit, TAKE a record, INC one k-mer at a time, ADD the
   record length, EXIT; a chunk pass ends when all have exited; passes repeat until a pass takes no record.
   For every worker count, limit and interleaving that runs to the end, every k-mer has been counted - over all
   chunk passes together - exactly as often as it occurs in the input. *)
Theorem C07_counting_exact_every_interleaving :
  forall (recs : list (list N * N)) (W : nat), (1 <= W)%nat ->
  forall (limit : N) (sched : list nat),
  fin (CountSched.exec recs W limit sched) = true ->
  forall x, cdone x (done (CountSched.exec recs W limit sched)) = CountSched.all recs x.
Proof. exact count_exact. Qed.

(* partition by k-mer mod n_parts, one file per (partition, chunk), merge per partition: every line carries the
   total over all chunks, no k-mer has two lines, every occurring k-mer has its line - for every n_parts >= 1
   and every way the occurrences were split into chunk passes *)
Theorem C07_merge_lines_carry_totals :
  forall n_parts bags x c, In (x, c) (merged n_parts bags) ->
  c = Merge.occ x (everything bags) /\ In x (everything bags).
Proof. exact merged_counts. Qed.

Theorem C07_one_line_per_kmer :
  forall n_parts, 1 <= n_parts -> forall bags, NoDup (map fst (merged n_parts bags)).
Proof. exact merged_keys_nodup. Qed.

Theorem C07_every_kmer_has_its_line :
  forall n_parts, 1 <= n_parts -> forall bags x, In x (everything bags) ->
  In (x, Merge.occ x (everything bags)) (merged n_parts bags).
Proof. exact merged_complete. Qed.

(* the counts file as a whole: for every partition count >= 1 and every way the records were split into chunk
   passes, the sorted table of the model (chunk files per partition, merged) is exactly the specification's table:
   one line per distinct canonical k-mer of the input with its total number of occurrences, numeric or as ACGT *)
Theorem C07_counts_table_exact :
  forall k acgt n_parts chunks, (1 <= k <= 31)%nat -> 1 <= n_parts ->
  Forall (Forall (fun b => 4 <= b < 256)) (concat chunks) ->
  m_ctr k acgt n_parts chunks = s_ctr k acgt (concat chunks).
Proof.
  intros k acgt n_parts chunks Hk Hn Hb. apply ctr_model_spec; [exact Hk|exact Hn|exact letters_ok|].
  revert Hb. apply Forall_impl. intros s. apply Forall_impl. intros b Hb. exact (table_ok_spec table_kmer table_kmer_ok b Hb).
Qed.

(* the same at the level of the files (Model/CtrFs.v: temp file per partition and chunk pass, written as text, read
   back, summed, removed): whatever the output directory held before, the run does not fail, and the table parsed
   back from kmers.counts, sorted, is the specification's table *)
Theorem C07_counts_file_exact_whatever_the_directory_held :
  forall k n_parts dir chunks f, (1 <= k <= 31)%nat -> 1 <= n_parts ->
  Forall (Forall (fun b => 4 <= b < 256)) (concat chunks) ->
  exists f' content, ctr_fs n_parts dir (map (all_canon k) chunks) f = Some f' /\
    fs_read (counts_name dir) f' = Some content /\
    join comma (map (show_count false k) (sort_pairs (parse_file content))) = s_ctr k false (concat chunks).
Proof.
  intros k n_parts dir chunks f Hk Hn Hb.
  destruct (ctr_fs_correct n_parts dir (map (all_canon k) chunks) f) as (f' & Hrun & Hc & _).
  exists f', (file_text (merged n_parts (map (all_canon k) chunks))). split; [exact Hrun|split; [exact Hc|]].
  rewrite parse_file_text. exact (C07_counts_table_exact k false n_parts chunks Hk Hn Hb).
Qed.

(* the hypothesis `fin = true` of the exactness theorem is satisfiable for every input: with one worker the loop
   reaches the final state within a number of steps linear in the input (and stays there) *)
Theorem C07_counting_terminates_with_one_worker :
  forall recs limit n, (cost recs 0 + 2 <= n)%nat -> fin (CountSched.exec recs 1 limit (repeat 0%nat n)) = true.
Proof. exact single_worker_terminates. Qed.

(* the executable instance run against the real directory by the `ctrfs` / `covfs` cases (one worker, chunk passes
   of the budget rule, any budget, any partition count, any previous content of the directory): the counts file
   parses back, sorted, to the specification's table *)
Theorem C07_file_level_instance_is_exact :
  forall k limit n_parts dir recs f, (1 <= k <= 31)%nat -> 1 <= n_parts ->
  Forall (Forall (fun b => 4 <= b < 256)) recs ->
  exists f' content, ctr_fs n_parts dir (passes k limit recs) f = Some f' /\
    fs_read (counts_name dir) f' = Some content /\
    join comma (map (show_count false k) (sort_pairs (parse_file content))) = s_ctr k false recs.
Proof.
  intros k limit n_parts dir recs f Hk Hn Hb. apply ctrfs_counts_file_is_spec; [exact Hk|exact Hn|].
  revert Hb. apply Forall_impl. intros s. apply Forall_impl. intros b Hb. exact (table_ok_spec table_kmer table_kmer_ok b Hb).
Qed.

(* "so its counts sum to the number of valid k-mer windows in the input": the counts of the merged table add up
   to the number of windows the specification enumerates, for every partition count and every chunking - and so
   do the counts parsed back from the kmers.counts file of the file-level model, whatever the directory held *)
Theorem C07_counts_sum_to_window_count :
  forall k n_parts chunks, (1 <= k <= 31)%nat -> 1 <= n_parts ->
  Forall (Forall (fun b => 4 <= b < 256)) (concat chunks) ->
  lsum (map snd (merged n_parts (map (all_canon k) chunks)))
  = length (concat (map (spec_kmers digit_of_letter k) (concat chunks))).
Proof.
  intros k n_parts chunks Hk Hn Hb. rewrite (merged_counts_sum n_parts _ Hn). unfold everything.
  rewrite all_canon_concat, (all_canon_model_spec k _ Hk).
  - unfold all_canon_spec. apply length_concat_map_map.
  - revert Hb. apply Forall_impl. intros s. apply Forall_impl. intros b Hb. exact (table_ok_spec table_kmer table_kmer_ok b Hb).
Qed.

Theorem C07_counts_file_sums_to_window_count :
  forall k n_parts dir chunks f, (1 <= k <= 31)%nat -> 1 <= n_parts ->
  Forall (Forall (fun b => 4 <= b < 256)) (concat chunks) ->
  exists f' content, ctr_fs n_parts dir (map (all_canon k) chunks) f = Some f' /\
    fs_read (counts_name dir) f' = Some content /\
    lsum (map snd (parse_file content)) = length (concat (map (spec_kmers digit_of_letter k) (concat chunks))).
Proof.
  intros k n_parts dir chunks f Hk Hn Hb.
  destruct (ctr_fs_correct n_parts dir (map (all_canon k) chunks) f) as (f' & Hrun & Hc & _).
  exists f', (file_text (merged n_parts (map (all_canon k) chunks))). split; [exact Hrun|split; [exact Hc|]].
  rewrite parse_file_text. exact (C07_counts_sum_to_window_count k n_parts chunks Hk Hn Hb).
Qed.

(* a temp file's text parses back to the table it was written from *)
Theorem C07_temp_file_round_trip : forall l, parse_file (file_text l) = l.
Proof. exact parse_file_text. Qed.

Example C07_example :
  m_ctr 2 false 3 [[[65;67;71;84]]; [[65;67]; [71;84;78;65;67]]] = s_ctr 2 false [[65;67;71;84]; [65;67]; [71;84;78;65;67]].
Proof. vm_compute. reflexivity. Qed.

Print Assumptions C07_counting_exact_every_interleaving.
Print Assumptions C07_merge_lines_carry_totals.
Print Assumptions C07_one_line_per_kmer.
Print Assumptions C07_every_kmer_has_its_line.
Print Assumptions C07_counts_table_exact.
Print Assumptions C07_counts_file_exact_whatever_the_directory_held.
Print Assumptions C07_counts_sum_to_window_count.
Print Assumptions C07_counts_file_sums_to_window_count.
Print Assumptions C07_temp_file_round_trip.
Print Assumptions C07_counting_terminates_with_one_worker.
Print Assumptions C07_file_level_instance_is_exact.
