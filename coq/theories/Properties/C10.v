(* C10: s2m lists each record's runs; m2s is its exact inversion; independent of the interleaving. *)
From Coq Require Import NArith ZArith List.
From KT Require Import Gen.Generated Gen.Alphabet Gen.FactsBase Gen.FactLetters Gen.FactTableMinimiser Model.Kmer Model.Ops Model.Rows Model.Pipeline.
From KT Require Import Proof.ItemsSched Proof.ItemsTrace Proof.MinAbs Proof.MinSpec Proof.MinConc Proof.MinExt Proof.MinFast Proof.FileSpecProof Proof.Inversion.
From Coq Require Import Sorting.Permutation.
Import ListNotations.
Open Scope N_scope.

(* workers TAKE a record and then emit its items one atomic step at a time (one line under the writer mutex for
   s2m; one entry().push() per run for m2s).  For every worker count and every interleaving after which all have
   exited, the emitted items are exactly all items of all records, as a multiset. *)
Theorem C10_items_exact_every_interleaving :
  forall (X : Type) (X_dec : forall a b : X, {a = b} + {a <> b}) (recs : list (list X)) (W : nat), (1 <= W)%nat ->
  forall sched, ItemsSched.complete X W (ItemsSched.exec X recs W sched) ->
  forall x, ItemsSched.occ X X_dec x (ItemsSched.out X (ItemsSched.exec X recs W sched)) = ItemsSched.all X X_dec recs x.
Proof. exact items_exact. Qed.

(* the same for the steps the real workers take at the hook points (TAKE, then one PUSH or WRITE per item, back at
   the reader right after the last item): each is one or two steps of the model above, so the result transfers;
   this fused machine is the one whose trace is replayed against the hooked implementation *)
Theorem C10_items_exact_for_the_real_steps :
  forall (X : Type) (X_dec : forall a b : X, {a = b} + {a <> b}) (recs : list (list X)) (W : nat) sched, (1 <= W)%nat ->
  ItemsSched.complete X W (fexec X recs W sched) ->
  forall x, ItemsSched.occ X X_dec x (ItemsSched.out X (fexec X recs W sched)) = ItemsSched.all X X_dec recs x.
Proof. intros X X_dec recs W sched HW Hc. exact (fused_items_exact X recs W X_dec sched HW Hc). Qed.

(* the runs written for a record are the runs of the minimiser iterator over the effective window
   (w = 0: one window spanning the whole record), which are the maximal same-minimiser runs (C09) *)
Theorem C10_record_runs_are_spec_runs :
  forall w m s, (1 <= m)%nat -> (m <= 31)%nat -> (w = 0%nat \/ m <= w)%nat ->
  Forall (fun b => 4 <= b < 256) s ->
  rec_runs w m s = rec_runs_spec w m s.
Proof.
  intros w m s Hm1 Hm Hw Hs. unfold rec_runs, rec_runs_spec. rewrite spec_runs_fast_eq.
  assert (He : (1 <= m <= eff_w w m s)%nat).
  { unfold eff_w. destruct (Nat.eqb_spec w 0); [Lia.lia|]. destruct Hw; Lia.lia. }
  rewrite (mg_run_grp nt4m (eff_w w m s) m He Hm s).
  apply (grp_go_ext_bytes nt4m digit_of_letter (eff_w w m s) m (fun b => 4 <= b < 256) s Hs).
  exact (table_ok_spec table_minimiser table_minimiser_ok).
Qed.

(* both outputs of the model are the specified ones: one s2m line per record with its spec runs as text; one m2s
   line per distinct minimiser text listing exactly the (record, start, end) entries that s2m attributes to it *)
Theorem C10_outputs_are_the_specified_ones :
  forall w m recs, (1 <= m)%nat -> (m <= 31)%nat -> (w = 0 \/ m <= w)%nat ->
  Forall (Forall (fun b => 4 <= b < 256)) recs ->
  m_s2m w m recs = s_s2m w m recs /\ m_m2s w m recs = s_m2s w m recs.
Proof.
  intros w m recs H1 H2 Hw Hr.
  assert (D : decodes nt4m recs).
  { revert Hr. apply Forall_impl. intros s. apply Forall_impl. intros b Hb. exact (table_ok_spec table_minimiser table_minimiser_ok b Hb). }
  split; [exact (s2m_model_spec w m H1 H2 Hw recs letters_ok D)|exact (m2s_model_spec w m H1 H2 Hw recs letters_ok D)].
Qed.

(* "m2s is the exact inversion of s2m", spelled out on the entry list both m2s outputs (model and specification) are
   built from: an entry (minimiser, (record, start, end)) exists exactly when s2m lists that run for that record;
   there is one line per distinct minimiser among the entries, no line is empty, and the lines together list every
   entry exactly once (a permutation: nothing lost, nothing twice, nothing else) *)
Theorem C10_m2s_entry_iff_s2m_run :
  forall w m recs v i a b,
  In (v, (i, a, b)) (m2s_entries (rec_runs_spec w m) recs) <->
  exists s, nth_error recs i = Some s /\ In (v, a, b) (rec_runs_spec w m s).
Proof. intros w m. exact (entry_iff (rec_runs_spec w m)). Qed.

Theorem C10_m2s_lines_partition_the_entries :
  forall w m recs,
  let es := m2s_entries (rec_runs_spec w m) recs in
  let keys := nodup N.eq_dec (map fst es) in
  NoDup keys /\
  (forall v, In v keys <-> exists e, In (v, e) es) /\
  Permutation (concat (map (fun v => filter (fun e => N.eqb (fst e) v) es) keys)) es /\
  (forall v, In v keys -> filter (fun e => N.eqb (fst e) v) es <> []).
Proof. intros w m. exact (lines_partition_the_entries (rec_runs_spec w m)). Qed.

Example C10_example :
  m_s2m 0 2 [[65;67;71;84]; [67]] = s_s2m 0 2 [[65;67;71;84]; [67]] /\ m_m2s 3 2 [[65;67;71;84;65]; [67;67;65;67]] = s_m2s 3 2 [[65;67;71;84;65]; [67;67;65;67]].
Proof. vm_compute. split; reflexivity. Qed.

Print Assumptions C10_items_exact_every_interleaving.
Print Assumptions C10_items_exact_for_the_real_steps.
Print Assumptions C10_record_runs_are_spec_runs.
Print Assumptions C10_outputs_are_the_specified_ones.
Print Assumptions C10_m2s_entry_iff_s2m_run.
Print Assumptions C10_m2s_lines_partition_the_entries.
