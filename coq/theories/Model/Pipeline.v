(* Executable models of the file-level commands as functions of the record list (the reader is modelled and
   checked separately, C06): what each output file must contain.  Model functions follow the code's loops
   (batch loop, partitioned counting and merge); spec functions are the plain mathematical description.
   Record i has the id "r<i>".  No proofs here. *)
From Coq Require Import NArith ZArith List Bool.
From KT Require Import Gen.Generated Gen.Alphabet Model.Kmer Model.Show Model.Flt Model.Ops Model.Rows.
From KT Require Import Proof.RevComp Proof.PosMap Proof.Oligo Proof.Sched Proof.SchedTrace Proof.Batch Proof.Merge Proof.MinConc Proof.MinSpec Proof.MinFast.
From KT Require Proof.CountSched Proof.CountTrace Proof.ItemsSched Proof.ItemsTrace.
From KT Require Import Proof.MappedBytes.
Import ListNotations.
Open Scope N_scope.

Definition rec_id (i : nat) : list N := 114 :: dec_nat i.
Definition semi : list N := [59].

(* ---------- comp oligo ---------- *)
Definition header_bytes (k : nat) (delim : list N) : list N := join delim (map (kmer_text k) (min_mer_vec k)) ++ [10].
Definition header_bytes_spec (k : nat) (delim : list N) : list N := join delim (map (s_dec k) (canon_list k)) ++ [10].
Definition oligo_row_bytes (k : nat) (norm : bool) (delim : list N) (s : list N) : list N :=
  row_text norm delim (oligo_total k s) (oligo_counts k s).
Definition oligo_row_bytes_spec (k : nat) (norm : bool) (delim : list N) (s : list N) : list N :=
  row_text norm delim (oligo_total_spec k s) (oligo_counts_spec k s).
(* batch writer: the loop as written, with its memory limit *)
Definition m_ofile (k : nat) (norm hdr : bool) (delim : list N) (mem : nat) (recs : list (list N)) : list N :=
  (if hdr then header_bytes k delim else []) ++
  concat (batch_go (list N) (list N) (oligo_row_bytes k norm delim) (@length N) true mem [] 0 recs []).
Definition s_ofile (k : nat) (norm hdr : bool) (delim : list N) (recs : list (list N)) : list N :=
  (if hdr then header_bytes_spec k delim else []) ++ concat (map (oligo_row_bytes_spec k norm delim) recs).

(* mapped writer under a schedule: the trace of atomic steps and the file (unwritten slots are NUL bytes) *)
Definition row_len (k : nat) (dlen : nat) : nat := (length (min_mer_vec k) * 8 + (length (min_mer_vec k) - 1) * dlen + 1)%nat.
Definition m_osched_file (k : nat) (hdr : bool) (delim : list N) (W : nat) (sched : list nat) (recs : list (list N)) : list N :=
  let rows := map (oligo_row_bytes k true delim) recs in
  let st := exec (list N) rows W sched in
  (if hdr then header_bytes k delim else []) ++
  concat (map (fun o => match o with Some r => r | None => repeat 0 (row_len k (length delim)) end) (slots (list N) st)).

Definition show_tev (e : nat * tev) : list N :=
  dec_nat (fst e) ++ colon ++ match snd e with TTake n => 116 :: dec_nat n | TWrite n => 119 :: dec_nat n | TExit => [120] end.
Definition m_osched (k : nat) (hdr : bool) (delim : list N) (W : nat) (sched : list nat) (recs : list (list N)) : list N :=
  join comma (map show_tev (mmap_trace (length recs) W sched)) ++ [124] ++ to_hex (m_osched_file k hdr delim W sched recs).

(* ---------- comp cgr / comp cgr -k : rows of parsed numbers ---------- *)
Definition all_some {A} (l : list (option A)) : option (list A) :=
  fold_right (fun o acc => match o, acc with Some x, Some r => Some (x :: r) | _, _ => None end) (Some []) l.
Definition m_cgrfile (S : Z) (recs : list (list N)) : list N :=
  match all_some (map (cgr_b64 corner_cgr S) recs) with
  | Some rows => dec_nat (length rows) ++ [35] ++ join semi (map (fun l => join comma (map show_fpt l)) rows)
  | None => err end.
Definition s_cgrfile (S : Z) (recs : list (list N)) : list N :=
  match all_some (map (cgr_exact corner_spec S) recs) with
  | Some rows => dec_nat (length rows) ++ [35] ++
                 join semi (map (fun l => join comma (map show_dpt (firstn (exact_prefix S) l) ++ repeat [126] (length l - exact_prefix S))) rows)
  | None => err end.
Definition m_ocgrfile (k : nat) (S : Z) (norm : bool) (recs : list (list N)) : list N :=
  dec_nat (length recs) ++ [35] ++ join semi (map (m_ocgr k S norm) recs).
Definition s_ocgrfile (k : nat) (S : Z) (norm : bool) (recs : list (list N)) : list N :=
  dec_nat (length recs) ++ [35] ++ join semi (map (s_ocgr k S norm) recs).

(* the batch loops of CgrComputer::vectorise and OligoCgrComputer::vectorise as written: push the record, flush when
   the bases buffered reach the memory limit, final flush when the buffer is non-empty *)
Definition m_cgrfile_mem (S : Z) (mem : nat) (recs : list (list N)) : list N :=
  match all_some (batch_go (list N) _ (cgr_b64 corner_cgr S) (@length N) true mem [] 0 recs []) with
  | Some rows => dec_nat (length rows) ++ [35] ++ join semi (map (fun l => join comma (map show_fpt l)) rows)
  | None => err end.
Definition m_ocgrfile_mem (k : nat) (S : Z) (norm : bool) (mem : nat) (recs : list (list N)) : list N :=
  let rows := batch_go (list N) _ (m_ocgr k S norm) (@length N) true mem [] 0 recs [] in
  dec_nat (length rows) ++ [35] ++ join semi rows.

(* ---------- Python batch calls: the list of per-sequence results in argument order ---------- *)
Definition m_obatch (k : nat) (norm : bool) (recs : list (list N)) : list N :=
  dec_nat (length recs) ++ [35] ++ join semi (map (m_oligo k norm) recs).
Definition s_obatch (k : nat) (norm : bool) (recs : list (list N)) : list N :=
  dec_nat (length recs) ++ [35] ++ join semi (map (s_oligo k norm) recs).
Definition m_cbatch (S : Z) (recs : list (list N)) : list N := m_cgrfile S recs.
Definition s_cbatch (S : Z) (recs : list (list N)) : list N := s_cgrfile S recs.

(* ---------- C14: the write_at calls of the mapped writer, as (offset, length), in offset order: the layout of
   Proof/MappedBytes.v with the header of the run and one row of the reserved length per record
   (C14_every_row_has_the_reserved_length: that is the length of every real row) ---------- *)
Definition show_layout (ws : list (nat * list N)) : list N :=
  join comma (map (fun w => dec_nat (fst w) ++ colon ++ dec_nat (length (snd w)))
                  (filter (fun w => negb (Nat.eqb (length (snd w)) 0)) ws)).
Definition m_layout (k : nat) (hdr : bool) (delim : list N) (recs : list (list N)) : list N :=
  let L := row_len k (length delim) in
  show_layout (layout (if hdr then header_bytes k delim else []) L (map (fun _ => repeat 0 L) recs)).
Definition s_layout (k : nat) (hdr : bool) (delim : list N) (recs : list (list N)) : list N :=
  let L := (length (canon_list k) * 8 + (length (canon_list k) - 1) * length delim + 1)%nat in
  show_layout (layout (if hdr then header_bytes_spec k delim else []) L (map (fun _ => repeat 0 L) recs)).

(* the mapped writer at the level of bytes (Proof/MappedBytes.v): the file is resized over stale content, then the
   header and the rows are copied to their offsets, here last row first.  C05_mapped_and_batch_writer_agree_from_file_bytes:
   equal to m_ofile for every order and every stale content; used as the model line of small mapped `ofile` cases *)
Definition m_ofile_mapped (k : nat) (hdr : bool) (delim : list N) (recs : list (list N)) : list N :=
  let h := if hdr then header_bytes k delim else [] in
  let L := row_len k (length delim) in
  let rows := map (oligo_row_bytes k true delim) recs in
  apply_writes (rev (layout h L rows)) (set_len (length h + L * length recs) (repeat 120 (L + 3))).

(* ---------- C14: what the hook log must contain ---------- *)
Definition windows (k : nat) (recs : list (list N)) : nat := fold_right (fun s a => (oligo_total k s + a)%nat) 0%nat recs.
Definition windows_spec (k : nat) (recs : list (list N)) : nat := fold_right (fun s a => (oligo_total_spec k s + a)%nat) 0%nat recs.
Definition show_hooks (writes index : nat) : list N :=
  [111;111;98;61;48;124;116;105;108;101;100;61;49;124;119;114;105;116;101;115;61] ++ dec_nat writes ++
  [124;105;110;100;101;120;61] ++ dec_nat index.

(* ---------- ctr ---------- *)
Definition all_canon (k : nat) (recs : list (list N)) : list N :=
  concat (map (fun s => map canon_of (kg_run nt4k k s)) recs).
Definition all_canon_spec (k : nat) (recs : list (list N)) : list N :=
  concat (map (fun s => map canon_of (spec_kmers digit_of_letter k s)) recs).
Definition sort_pairs (l : list (N * nat)) : list (N * nat) :=
  map (fun x => (x, Merge.lookup x l)) (NSort.sort (map fst l)).
Definition show_count (acgt : bool) (k : nat) (p : N * nat) : list N :=
  (if acgt then kmer_text k (fst p) else dec (fst p)) ++ colon ++ dec_nat (snd p).
(* model: partition by canonical mod n_parts, one chunk file per (partition, chunk), merge per partition;
   chunks = how the records were split over the chunk passes (any split gives the same table: C07 theorem) *)
Definition m_ctr (k : nat) (acgt : bool) (n_parts : N) (chunks : list (list (list N))) : list N :=
  join comma (map (show_count acgt k) (sort_pairs (merged n_parts (map (all_canon k) chunks)))).
Definition s_ctr (k : nat) (acgt : bool) (recs : list (list N)) : list N :=
  let ws := all_canon_spec k recs in
  join comma (map (fun x => (if acgt then s_dec k x else dec x) ++ colon ++ dec_nat (count_occ N.eq_dec ws x))
                  (NSort.sort (nodup N.eq_dec ws))).

(* counter under a schedule: the trace of atomic steps and the content of every chunk pass *)
Definition show_cev (e : nat * CountTrace.cev) : list N :=
  dec_nat (fst e) ++ colon ++
  match snd e with
  | CountTrace.CPass => [99; 43] | CountTrace.CFail => [99; 45] | CountTrace.CTake n => 116 :: dec_nat n | CountTrace.CNone => [116; 45]
  | CountTrace.CInc x => 105 :: dec x | CountTrace.CAdd => [97]
  end.
Definition show_bag (b : list N) : list N :=
  join comma (map (fun x => dec x ++ colon ++ dec_nat (count_occ N.eq_dec b x)) (NSort.sort (nodup N.eq_dec b))).
Definition m_csched (k W : nat) (limit : N) (sched : list nat) (recs : list (list N)) : list N :=
  let rs := map (fun s => (map canon_of (kg_run nt4k k s), N.of_nat (length s))) recs in
  let '(tr, st) := CountTrace.ctrace rs W limit sched in
  if CountSched.fin st
  then join comma (map show_cev tr) ++ [124] ++ join semi (map show_bag (rev (CountSched.done st)))
  else [83; 72; 79; 82; 84].          (* the schedule ended before the run did: not a valid case *)

(* ---------- cov ---------- *)
Definition count_table (k : nat) (recs : list (list N)) : list (N * N) :=
  let ws := all_canon k recs in map (fun x => (x, N.of_nat (count_occ N.eq_dec ws x))) (nodup N.eq_dec ws).
Definition count_table_spec (k : nat) (recs : list (list N)) : list (N * N) :=
  let ws := all_canon_spec k recs in map (fun x => (x, N.of_nat (count_occ N.eq_dec ws x))) (nodup N.eq_dec ws).
Definition cov_row_bytes (k bs bc : nat) (norm : bool) (delim : list N) (tbl : list (N * N)) (s : list N) : list N :=
  row_text norm delim (oligo_total k s) (cov_counts k bs bc tbl s).
Definition cov_row_bytes_spec (k bs bc : nat) (norm : bool) (delim : list N) (tbl : list (N * N)) (s : list N) : list N :=
  row_text norm delim (oligo_total_spec k s) (cov_counts_spec k bs bc tbl s).
(* the batch loop of compute_coverages: flush when total >= limit, final flush when the buffer is non-empty *)
Definition m_cov (k bs bc : nat) (norm : bool) (delim : list N) (mem : nat) (recs altrecs : list (list N)) : list N :=
  let tbl := count_table k altrecs in
  concat (batch_go (list N) (list N) (cov_row_bytes k bs bc norm delim tbl) (@length N) true mem [] 0 recs []).
Definition s_cov (k bs bc : nat) (norm : bool) (delim : list N) (recs altrecs : list (list N)) : list N :=
  let tbl := count_table_spec k altrecs in
  concat (map (cov_row_bytes_spec k bs bc norm delim tbl) recs).

(* ---------- min ---------- *)
Definition eff_w (w m : nat) (s : list N) : nat := if Nat.eqb w 0 then Nat.max (length s) m else w.
Definition rec_runs (w m : nat) (s : list N) : list (N * nat * nat) := mg_run nt4m (eff_w w m s) m s.
Definition rec_runs_spec (w m : nat) (s : list N) : list (N * nat * nat) :=
  spec_runs_fast digit_of_letter (eff_w w m s) m s.       (* = grp_go ... None [] s, Proof/MinFast.v *)
Fixpoint number {A} (i : nat) (l : list A) : list (nat * A) :=
  match l with [] => [] | x :: t => (i, x) :: number (S i) t end.
Definition show_s2m_run (txt : nat -> N -> list N) (m : nat) (r : N * nat * nat) : list N :=
  let '(v, a, b) := r in txt m v ++ colon ++ dec_nat a ++ colon ++ dec_nat b.
Definition s2m_lines (txt : nat -> N -> list N) (runs : list N -> list (N * nat * nat)) (m : nat) (recs : list (list N)) : list N :=
  join semi (map (fun ir => rec_id (fst ir) ++ [61] ++ join [43] (map (show_s2m_run txt m) (runs (snd ir)))) (number 0 recs)).
Definition m_s2m (w m : nat) (recs : list (list N)) : list N := s2m_lines kmer_text (rec_runs w m) m recs.
Definition s_s2m (w m : nat) (recs : list (list N)) : list N := s2m_lines s_dec (rec_runs_spec w m) m recs.
(* m2s: one line per distinct minimiser (increasing code = alphabetical text), entries in record order *)
Definition m2s_entries (runs : list N -> list (N * nat * nat)) (recs : list (list N)) : list (N * (nat * nat * nat)) :=
  flat_map (fun ir => map (fun r => let '(v, a, b) := r in (v, (fst ir, a, b))) (runs (snd ir))) (number 0 recs).
Definition show_entry (e : nat * nat * nat) : list N :=
  let '(i, a, b) := e in rec_id i ++ colon ++ dec_nat a ++ colon ++ dec_nat b.
Definition m2s_lines (txt : nat -> N -> list N) (runs : list N -> list (N * nat * nat)) (m : nat) (recs : list (list N)) : list N :=
  let es := m2s_entries runs recs in
  join semi (map (fun v => txt m v ++ [61] ++ join [43] (map (fun e => show_entry (snd e)) (filter (fun e => fst e =? v) es)))
                 (NSort.sort (nodup N.eq_dec (map fst es)))).
Definition m_m2s (w m : nat) (recs : list (list N)) : list N := m2s_lines kmer_text (rec_runs w m) m recs.
Definition s_m2s (w m : nat) (recs : list (list N)) : list N := m2s_lines s_dec (rec_runs_spec w m) m recs.

(* minimiser outputs under a schedule: the trace of TAKE / PUSH (m2s: one per run) or WRITE (s2m: one per record)
   steps and the resulting lines (canonical form: order of lines and of list entries is not specified) *)
Definition show_iev (e : nat * ItemsTrace.iev) : list N :=
  dec_nat (fst e) ++ colon ++
  match snd e with ItemsTrace.ITake n => 116 :: dec_nat n | ItemsTrace.INone => [116; 45] | ItemsTrace.IPush => [112] end.
Definition m_msched (s2m : bool) (w m W : nat) (sched : list nat) (recs : list (list N)) : list N :=
  let items := map (fun s => repeat tt (if s2m then 1%nat else length (rec_runs w m s))) recs in
  let '(tr, st) := ItemsTrace.itrace unit items W sched in
  if ItemsTrace.all_exited unit st
  then join comma (map show_iev tr) ++ [124] ++ (if s2m then m_s2m w m recs else m_m2s w m recs)
  else [83; 72; 79; 82; 84].
