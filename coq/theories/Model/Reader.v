(* Executable model of the sequence reader (ktio::seq over bio 2.0.3's line parsers): format from the path
   suffix, gzip as a list of members that are all read, records numbered 0,1,2,..., statistics pass.
   The line-level parsers and their round-trip proofs are in Proof/Fasta.v and Proof/Fastq.v. *)
From Coq Require Import NArith List Bool String.
From KT Require Import Gen.Generated Model.Show Proof.Fasta Proof.Fastq.
Import ListNotations.
Open Scope N_scope.

Inductive fmt := Fasta | Fastq.

Definition ends_with (suf s : list N) : bool :=
  Nat.leb (List.length suf) (List.length s) && list_eqb suf (skipn (List.length s - List.length suf) s).
Definition gz_suffix : list N := str ".gz".
(* str::trim_end_matches(".gz") removes the suffix repeatedly *)
Fixpoint strip_gz (fuel : nat) (p : list N) : list N :=
  match fuel with
  | O => p
  | S f => if ends_with gz_suffix p then strip_gz f (firstn (List.length p - 3) p) else p
  end.
(* the suffix tables are regenerated from SeqFormat::get *)
Definition format_of (path : list N) : option fmt :=
  let p := if ends_with gz_suffix path then strip_gz (List.length path) path else path in
  if existsb (fun s => ends_with s p) suffixes_fastq then Some Fastq
  else if existsb (fun s => ends_with s p) suffixes_fasta then Some Fasta
  else None.

Definition parse (f : fmt) (content : list N) : outcome (list (list N * list N)) :=
  let ls := lines content in
  match f with
  | Fasta => parse_fasta (S (List.length ls)) ls
  | Fastq => parse_fastq (S (List.length ls)) ls
  end.

(* get_reader: a ".gz" path is decoded member after member (MultiGzDecoder); anything else is read as is.
   The case hands over the uncompressed members. *)
Definition file_content (members : list (list N)) : list N := List.concat members.

Definition fmt_name (f : option fmt) : list N :=
  match f with Some Fasta => str "fa" | Some Fastq => str "fq" | None => str "none" end.
Fixpoint number_from (i : nat) (l : list (list N * list N)) : list (nat * (list N * list N)) :=
  match l with [] => [] | x :: t => (i, x) :: number_from (S i) t end.
Definition show_rec (r : nat * (list N * list N)) : list N :=
  dec_nat (fst r) ++ colon ++ to_hex (fst (snd r)) ++ colon ++ to_hex (snd (snd r)).
Definition show_read (f : option fmt) (recs : list (list N * list N)) : list N :=
  fmt_name f ++ [124] ++ join [59] (map show_rec (number_from 0 recs)) ++ [124] ++
  dec_nat (List.length recs) ++ comma ++ dec_nat (fold_right (fun r a => (List.length (snd r) + a)%nat) 0%nat recs).

(* model: what the reader returns for the file; the statistics pass iterates the same parser *)
Definition m_read (path : list N) (members : list (list N)) : list N :=
  match format_of path with
  | None => str "none"
  | Some f => match parse f (file_content members) with
              | Ok recs => show_read (Some f) recs
              | Panic => str "PANIC"
              end
  end.
(* spec: the record list the file was printed from, numbered 0,1,2,... ; count and total bases *)
Definition s_read (f : list N) (expected : list (list N * list N)) : list N :=
  if list_eqb f (str "none") then f else
  f ++ [124] ++ join [59] (map show_rec (number_from 0 expected)) ++ [124] ++
  dec_nat (List.length expected) ++ comma ++ dec_nat (fold_right (fun r a => (List.length (snd r) + a)%nat) 0%nat expected).

(* records handed over as a list and serialised by the harness into a container (FASTA / FASTQ, plain or gzip in
   one or several members): the reader must deliver them back, numbered, ids r0, r1, ... *)
Definition show_readc (recs : list (list N)) : list N :=
  let numbered := number_from 0 (map (fun s => ([] : list N, s)) recs) in
  join [59] (map (fun r => dec_nat (fst r) ++ colon ++ (114 :: dec_nat (fst r)) ++ colon ++ to_hex (snd (snd r))) numbered) ++ [124] ++
  dec_nat (List.length recs) ++ comma ++ dec_nat (fold_right (fun r a => (List.length r + a)%nat) 0%nat recs).
