(* Text rendering and parsing used by the executable models: the case-line protocol is parsed and the
   canonical result line is rendered inside Coq, so that the OCaml driver is only I/O glue and the very
   same functions can be evaluated by vm_compute for the extraction cross-check.  No proofs here. *)
From Coq Require Import NArith ZArith List Bool Ascii String.
Import ListNotations.
Open Scope N_scope.

Definition str (s : string) : list N := map N_of_ascii (list_ascii_of_string s).

Fixpoint list_eqb (a b : list N) : bool :=
  match a, b with
  | [], [] => true
  | x :: a', y :: b' => (x =? y) && list_eqb a' b'
  | _, _ => false
  end.

(* decimal rendering; fuel = number of bits + 1 >= number of decimal digits *)
Fixpoint dec_go (fuel : nat) (n : N) (acc : list N) : list N :=
  match fuel with
  | O => acc
  | S f => let acc' := (48 + n mod 10) :: acc in
           if n / 10 =? 0 then acc' else dec_go f (n / 10) acc'
  end.
Definition dec (n : N) : list N := dec_go (S (N.size_nat n)) n [].
Definition dec_nat (n : nat) : list N := dec (N.of_nat n).
Definition dec_Z (z : Z) : list N :=
  match z with Zneg p => 45 :: dec (Npos p) | _ => dec (Z.to_N z) end.

(* fixed width, zero padded on the left (value is taken modulo 10^width) *)
Fixpoint pad_go (width : nat) (n : N) (acc : list N) : list N :=
  match width with O => acc | S w => pad_go w (n / 10) ((48 + n mod 10) :: acc) end.
Definition pad (width : nat) (n : N) : list N := pad_go width n [].

(* Rust's {:.6} of a non-negative number whose value times 10^6, correctly rounded, is n *)
Definition fix6 (n : N) : list N := dec (n / 1000000) ++ 46 :: pad 6 (n mod 1000000).

Fixpoint join (sep : list N) (l : list (list N)) : list N :=
  match l with
  | [] => []
  | [x] => x
  | x :: t => x ++ sep ++ join sep t
  end.

Definition comma : list N := [44].
Definition colon : list N := [58].

(* parsing *)
Fixpoint split_go (c : N) (cur : list N) (s : list N) : list (list N) :=
  match s with
  | [] => [rev cur]
  | b :: t => if b =? c then rev cur :: split_go c [] t else split_go c (b :: cur) t
  end.
Definition split_on (c : N) (s : list N) : list (list N) := split_go c [] s.

Definition parse_dec (l : list N) : N := fold_left (fun a d => 10 * a + (d - 48)) l 0.
Definition parse_nat (l : list N) : nat := N.to_nat (parse_dec l).
Definition hexval (b : N) : N := if b <? 58 then b - 48 else b - 87.
Fixpoint parse_hex (l : list N) : list N :=
  match l with
  | a :: b :: t => (16 * hexval a + hexval b) :: parse_hex t
  | _ => []
  end.
(* "-" is the empty payload; "h1,h2,..." a list of payloads; "_" the empty list *)
Definition parse_hex_list (l : list N) : list (list N) :=
  if list_eqb l [95] then [] else map parse_hex (split_on 44 l).
Definition hexdigit (d : N) : N := if d <? 10 then 48 + d else 87 + d.
Definition to_hex (l : list N) : list N :=
  match l with [] => [45] | _ => flat_map (fun b => [hexdigit (b / 16); hexdigit (b mod 16)]) l end.
