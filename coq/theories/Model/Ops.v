(* Executable models behind the case-line protocol (DESIGN Appendix B).  For every op there is a model
   function (mirrors the Rust, reads the regenerated tables) and a spec function (the mathematical object
   of the property, over the property's own alphabet).  No proofs here. *)
From Coq Require Import NArith ZArith List Bool.
From KT Require Import Gen.Generated Gen.Alphabet Model.Kmer Model.Show.
From KT Require Import Proof.RevComp Proof.PosMap Proof.MinAbs Proof.MinSpec Proof.MinConc Proof.MinFast Proof.KmMin Proof.Oligo Proof.Pull.
Import ListNotations.
Open Scope N_scope.

Definition nt4k : N -> N := nt4_of table_kmer.
Definition nt4m : N -> N := nt4_of table_minimiser.
Definition nt4km : N -> N := nt4_of table_kmer_minimisers.

(* ---------- rendering ---------- *)
Definition show_pair (p : N * N) : list N := dec (fst p) ++ colon ++ dec (snd p).
Definition show_pairs (l : list (N * N)) : list N := join comma (map show_pair l).
Definition show_run (r : N * nat * nat) : list N :=
  let '(v, a, b) := r in dec v ++ colon ++ dec_nat a ++ colon ++ dec_nat b.
Definition show_runs (l : list (N * nat * nat)) : list N := join comma (map show_run l).
Definition show_krun (r : (N * nat * nat) * list N) : list N :=
  show_run (fst r) ++ [61] ++ join [43] (map dec (snd r)).          (* run=k1+k2+... *)
Definition show_kruns (l : list ((N * nat * nat) * list N)) : list N := join comma (map show_krun l).
Definition show_Ns (l : list N) : list N := join comma (map dec l).
Definition show_nats (l : list nat) : list N := join comma (map dec_nat l).

(* ---------- C01 ---------- *)
(* the model line is the pull-based iterator object of Proof/Pull.v drawn with next() until None (kg_collect_run:
   equal to the fold kg_run, which the theorems speak about) *)
Definition m_kg (k : nat) (s : list N) : list N := show_pairs (kg_collect nt4k k (length s + 2) (mkst 0 0 0, 0%nat, s)).
Definition s_kg (k : nat) (s : list N) : list N := show_pairs (spec_kmers digit_of_letter k s).

(* ---------- C02 ---------- *)
Definition kmer_text (k : nat) (x : N) : list N := map (fun d => nth (N.to_nat d) letters 63) (digits k x).
Definition m_rc (k : nat) (x : N) : list N := dec (rev_comp k x).
Definition s_rc (k : nat) (x : N) : list N := dec (code (rc (digits k x))).
Definition m_dec (k : nat) (x : N) : list N := kmer_text k x.
Definition acgt : list N := [65; 67; 71; 84].
Definition s_dec (k : nat) (x : N) : list N := map (fun d => nth (N.to_nat d) acgt 63) (digits k x).

(* ---------- C03 ---------- *)
Fixpoint index_of (x : N) (l : list N) : nat :=
  match l with [] => 0%nat | y :: t => if x =? y then 0%nat else S (index_of x t) end.
Definition canon_list (k : nat) : list N := filter (canonb k) (nrange_fast (N.to_nat (4 ^ N.of_nat k))).
(* count | canonical codes in column order | column of each canonical code (through the vector pos_map) *)
Definition m_posmap (k : nat) : list N :=
  let vec := min_mer_vec k in
  let pm := pos_map vec (N.to_nat (4 ^ N.of_nat k)) in
  dec_nat (kcount k) ++ [124] ++ show_Ns vec ++ [124] ++ show_nats (map (fun x => nth (N.to_nat x) pm 0%nat) vec).
Definition s_posmap (k : nat) : list N :=
  let vec := canon_list k in
  dec_nat (length vec) ++ [124] ++ show_Ns vec ++ [124] ++ show_nats (seq 0 (length vec)).
Definition m_header (k : nat) : list N := join comma (map (kmer_text k) (min_mer_vec k)).
Definition s_header (k : nat) : list N := join comma (map (s_dec k) (canon_list k)).

(* ---------- C09 / C18 ---------- *)
Definition m_mg (w m : nat) (s : list N) : list N := show_runs (mg_collect nt4m w m (length s + 2) (mg_init, 0%nat, s)).
Definition s_mg (w m : nat) (s : list N) : list N := show_runs (spec_runs_fast digit_of_letter w m s).
Definition m_kmg (w m : nat) (s : list N) : list N := show_kruns (kmg_collect nt4km w m (length s + 2) (kmg_init, 0%nat, s)).
(* spec: the property fixes the runs and the concatenation of the attached lists, not how the w-mers are
   dealt out to the runs; rendered as  runs|k1+k2+...  (the comparison flattens the implementation's output
   the same way) *)
Definition s_kmg (w m : nat) (s : list N) : list N :=
  show_runs (spec_runs_fast digit_of_letter w m s) ++ [124] ++
  join [43] (map dec (map KmMin.cmin (spec_kmers digit_of_letter w s))).
