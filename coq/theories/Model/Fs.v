(* A file-system location: paths to contents.  File::create and mmap_file_for_writing (truncate + set_len)
   replace a file's whole content.  No proofs here. *)
From Coq Require Import NArith List Bool.
From KT Require Import Model.Show.
Import ListNotations.
Open Scope N_scope.

Definition path := list N.
Definition fs := list (path * list N).
Fixpoint fs_remove (p : path) (f : fs) : fs :=
  match f with [] => [] | (q, c) :: t => if list_eqb p q then fs_remove p t else (q, c) :: fs_remove p t end.
Definition fs_write (p : path) (c : list N) (f : fs) : fs := (p, c) :: fs_remove p f.
Fixpoint fs_read (p : path) (f : fs) : option (list N) :=
  match f with [] => None | (q, c) :: t => if list_eqb p q then Some c else fs_read p t end.
