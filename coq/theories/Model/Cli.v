(* Executable model of kmertools' command line (kmertools/src/args.rs `cli()`): settings in, either a refusal
   or the output the subcommand must produce.  The model reads the clap ranges, defaults, preset arms and the
   two refusals from the regenerated data; the spec uses the documented ones.  No proofs here. *)
From Coq Require Import NArith ZArith List Bool String.
From KT Require Import Gen.Generated Model.Show Model.Ops Model.Rows Model.Pipeline.
Import ListNotations.
Open Scope N_scope.

(* settings: "k=3,c=1,p=csv" -> association list; "_" = none given *)
Definition parse_settings (t : list N) : list (list N * list N) :=
  if list_eqb t [95] then [] else
  map (fun e => match split_on 61 e with [a; b] => (a, b) | [a] => (a, []) | _ => ([], []) end) (split_on 44 t).
Fixpoint get (key : list N) (l : list (list N * list N)) : option (list N) :=
  match l with [] => None | (k, v) :: t => if list_eqb k key then Some v else get key t end.
Definition getn (key : string) (l : list (list N * list N)) : option N := option_map parse_dec (get (str key) l).
Definition has (key : string) (l : list (list N * list N)) : bool :=
  match get (str key) l with Some v => list_eqb v [49] | None => false end.

Record range := mkr { lo : N; hi : option N; dflt : option N }.
Fixpoint find_range (key : list N) (l : list (list N * (N * option N * option N * bool))) : option range :=
  match l with
  | [] => None
  | (k, (a, b, d, _)) :: t => if list_eqb k key then Some (mkr a b d) else find_range key t
  end.
Definition in_range (r : range) (v : N) : bool :=
  (lo r <=? v) && match hi r with Some h => v <=? h | None => true end.

(* documented ranges (README / --help): what the property calls "the documented ranges" *)
Definition doc_ranges : list (list N * (N * option N * option N * bool)) :=
  [ (str "OligoCommand.k_size", (3, Some 7, Some 3, true));
    (str "CGRCommand.k_size", (3, Some 7, None, true));
    (str "CoverageCommand.k_size", (7, Some 31, Some 15, true));
    (str "CoverageCommand.bin_size", (5, None, Some 16, true));
    (str "CoverageCommand.bin_count", (5, None, Some 16, true));
    (str "CoverageCommand.memory", (6, Some 128, Some 6, true));
    (str "MinimiserCommand.m_size", (7, Some 28, Some 10, true));
    (str "MinimiserCommand.w_size", (0, None, Some 0, true));
    (str "CounterCommand.k_size", (10, Some 31, None, true));
    (str "CounterCommand.memory", (6, Some 128, Some 6, true)) ].
Definition doc_presets : list (list N * list N) := [(str "csv", [44]); (str "spc", [32]); (str "tsv", [9])].

(* value of a numeric option: given and in range -> the value; given and out of range -> clap refuses (exit 2);
   absent -> the default (None = the option is optional and absent) *)
Inductive argv := Bad | Val (v : option N).
Definition numeric (tbl : list (list N * (N * option N * option N * bool))) (field key : string) (st : list (list N * list N)) : argv :=
  match find_range (str field) tbl with
  | None => Bad
  | Some r => match getn key st with
              | Some v => if in_range r v then Val (Some v) else Bad
              | None => Val (dflt r)
              end
  end.

Inductive result := Clap (* exit 2, nothing written *) | Refused (* diagnostic, exit 0, nothing written *) | Out (o : list N).
Definition show_result (r : result) : list N :=
  match r with Clap => str "exit=2|NOOUT" | Refused => str "exit=0|NOOUT" | Out o => str "exit=0|" ++ o end.

Section Cli.
Variable ranges : list (list N * (N * option N * option N * bool)).
Variable presets_oligo presets_cov : list (list N * list N).
Variable refuse_w_le_m : bool.
Variable refuse_m_ge : option N.
Variable refuse_whole_counts : bool.
(* the pipelines: model or spec versions *)
Variable f_ofile : nat -> bool -> bool -> list N -> list (list N) -> list N.
Variable f_cgrfile : Z -> list (list N) -> list N.
Variable f_ocgrfile : nat -> Z -> bool -> list (list N) -> list N.
Variable f_cov : nat -> nat -> nat -> bool -> list N -> list (list N) -> list (list N) -> list N.
Variable f_s2m f_m2s : nat -> nat -> list (list N) -> list N.
Variable f_ctr : nat -> bool -> list (list N) -> list N.

Definition preset (tbl : list (list N * list N)) (st : list (list N * list N)) : option (list N) :=
  match get (str "p") st with None => get (str "spc") tbl | Some p => get p tbl end.

Definition cli (sub : list N) (st : list (list N * list N)) (recs alt : list (list N)) : result :=
  if list_eqb sub (str "oligo") then
    match numeric ranges "OligoCommand.k_size" "k" st, preset presets_oligo st with
    | Val (Some k), Some d => Out (to_hex (f_ofile (N.to_nat k) (negb (has "c" st)) (has "H" st) d recs))
    | _, _ => Clap
    end
  else if list_eqb sub (str "cgr") then
    match numeric ranges "CGRCommand.k_size" "k" st with
    | Bad => Clap
    | Val (Some k) =>
        (* default vector size: (k as f64).powf(4.0).powf(0.5) as u64 = k^2 for k in range *)
        let v := match getn "v" st with Some v => v | None => k * k end in
        Out (f_ocgrfile (N.to_nat k) (Z.of_N v) (negb (has "c" st)) recs)
    | Val None =>
        if has "c" st && refuse_whole_counts then Refused
        else let v := match getn "v" st with Some v => v | None => 1 end in Out (f_cgrfile (Z.of_N v) recs)
    end
  else if list_eqb sub (str "cov") then
    match numeric ranges "CoverageCommand.k_size" "k" st, numeric ranges "CoverageCommand.bin_size" "s" st,
          numeric ranges "CoverageCommand.bin_count" "b" st, numeric ranges "CoverageCommand.memory" "m" st, preset presets_cov st with
    | Val (Some k), Val (Some bs), Val (Some bc), Val (Some _), Some d =>
        Out (to_hex (f_cov (N.to_nat k) (N.to_nat bs) (N.to_nat bc) (negb (has "c" st)) d recs
                           (if has "a" st then alt else recs)))
    | _, _, _, _, _ => Clap
    end
  else if list_eqb sub (str "min") then
    match numeric ranges "MinimiserCommand.m_size" "m" st, numeric ranges "MinimiserCommand.w_size" "w" st with
    | Val (Some m), Val (Some w) =>
        if refuse_w_le_m && (w <=? m) && (0 <? w) then Refused
        else if match refuse_m_ge with Some b => b <=? m | None => false end then Refused
        else match get (str "p") st with
             | None => Out (f_s2m (N.to_nat w) (N.to_nat m) recs)
             | Some p => if list_eqb p (str "s2m") then Out (f_s2m (N.to_nat w) (N.to_nat m) recs)
                         else if list_eqb p (str "m2s") then Out (f_m2s (N.to_nat w) (N.to_nat m) recs) else Clap
             end
    | _, _ => Clap
    end
  else if list_eqb sub (str "ctr") then
    match numeric ranges "CounterCommand.k_size" "k" st, numeric ranges "CounterCommand.memory" "m" st with
    | Val (Some k), Val (Some _) => Out (f_ctr (N.to_nat k) (has "a" st) recs)
    | _, _ => Clap            (* -k is required: absent -> clap error *)
    end
  else Clap.
End Cli.

Definition total_len (recs : list (list N)) : nat := fold_right (fun r a => (List.length r + a)%nat) 0%nat recs.
(* model: regenerated ranges / presets / refusals, model pipelines (the CLI's memory limits are never reached by
   test-sized inputs: the batch loops run with a limit above the total length) *)
Definition m_cli (sub : list N) (st : list (list N * list N)) (recs alt : list (list N)) : list N :=
  show_result (cli cli_ranges cli_presets_oligo cli_presets_cov cli_min_refuses_w_le_m cli_min_refuses_m_ge cli_whole_cgr_refuses_counts
    (fun k norm hdr d rs => m_ofile k norm hdr d (S (total_len rs)) rs)
    m_cgrfile m_ocgrfile
    (fun k bs bc norm d rs ars => m_cov k bs bc norm d (S (total_len rs)) rs ars)
    m_s2m m_m2s
    (fun k acgt rs => m_ctr k acgt 1 [rs])
    sub st recs alt).
Definition s_cli (sub : list N) (st : list (list N * list N)) (recs alt : list (list N)) : list N :=
  show_result (cli doc_ranges doc_presets doc_presets true (Some 31) true
    s_ofile s_cgrfile s_ocgrfile s_cov s_s2m s_m2s s_ctr sub st recs alt).
