(* Executable models of the per-record computations: oligo vectors, coverage histograms, CGR points and
   k-mer CGR triples, with binary64 arithmetic by Flocq (evaluates inside Coq and extracts).  No proofs. *)
From Coq Require Import NArith ZArith List Bool.
From Flocq Require Import IEEE754.BinarySingleNaN IEEE754.Binary IEEE754.Bits Core.
From KT Require Import Gen.Generated Gen.Alphabet Model.Kmer Model.Show Model.Flt Model.Ops.
From KT Require Import Proof.RevComp Proof.PosMap Proof.Oligo Proof.Sched.
Import ListNotations.
Open Scope N_scope.

Definition canon_of (p : N * N) : N := N.min (fst p) (snd p).

(* ---------- oligo (C04) ---------- *)
(* model: vec[pos_map[min(f,r)]] += 1 per item of the k-mer iterator; pos_map[x] for canonical x is its index
   in the sorted canonical vector (Proof.Oligo.pos_map_rank) *)
Definition oligo_counts (k : nat) (s : list N) : list nat :=
  let vec := min_mer_vec k in
  hist N (fun x => index_of x vec) (length vec) (map canon_of (kg_run nt4k k s)).
Definition oligo_total (k : nat) (s : list N) : nat := length (kg_run nt4k k s).
(* spec: one column per canonical k-mer in increasing order, each counting the valid windows whose canonical
   form it is *)
Definition oligo_counts_spec (k : nat) (s : list N) : list nat :=
  let ws := map canon_of (spec_kmers digit_of_letter k s) in
  map (fun c => count_occ N.eq_dec ws c) (canon_list k).
Definition oligo_total_spec (k : nat) (s : list N) : nat := length (spec_kmers digit_of_letter k s).

Definition denom (t : nat) : Z := Z.max 1 (Z.of_nat t).
Definition entry_bits (norm : bool) (t : nat) (c : nat) : Z :=
  if norm then bits (Z.of_nat c) (denom t) else bits_of_Z (Z.of_nat c).
Definition entry_text (norm : bool) (t : nat) (c : nat) : list N :=
  if norm then match norm6 (Z.of_nat c) (denom t) with Some n => fix6 (Z.to_N n) | None => [63] end
  else dec_nat c.
Definition show_bits (l : list Z) : list N := join comma (map dec_Z l).
Definition row_text (norm : bool) (delim : list N) (t : nat) (cs : list nat) : list N :=
  join delim (map (entry_text norm t) cs) ++ [10].

Definition m_oligo (k : nat) (norm : bool) (s : list N) : list N :=
  show_bits (map (entry_bits norm (oligo_total k s)) (oligo_counts k s)).
Definition s_oligo (k : nat) (norm : bool) (s : list N) : list N :=
  show_bits (map (entry_bits norm (oligo_total_spec k s)) (oligo_counts_spec k s)).

(* ---------- coverage (C08) ---------- *)
Fixpoint lookup (x : N) (tbl : list (N * N)) : N :=
  match tbl with [] => 0 | (y, c) :: t => if x =? y then c else lookup x t end.
(* min is taken in N: a multiplicity like u32::MAX must never become a unary nat *)
Definition cov_bin (bs bc : nat) (c : N) : nat := N.to_nat (N.min (c / N.of_nat bs) (N.of_nat (bc - 1))).
Definition cov_counts (k bs bc : nat) (tbl : list (N * N)) (s : list N) : list nat :=
  hist N (fun x => cov_bin bs bc (lookup x tbl)) bc (map canon_of (kg_run nt4k k s)).
Definition cov_counts_spec (k bs bc : nat) (tbl : list (N * N)) (s : list N) : list nat :=
  let ws := map canon_of (spec_kmers digit_of_letter k s) in
  map (fun b => length (filter (fun x => Nat.eqb (cov_bin bs bc (lookup x tbl)) b) ws)) (seq 0 bc).
Definition m_covrow (k bs bc : nat) (norm : bool) (tbl : list (N * N)) (s : list N) : list N :=
  show_bits (map (entry_bits norm (oligo_total k s)) (cov_counts k bs bc tbl s)).
Definition s_covrow (k bs bc : nat) (norm : bool) (tbl : list (N * N)) (s : list N) : list N :=
  show_bits (map (entry_bits norm (oligo_total_spec k s)) (cov_counts_spec k bs bc tbl s)).

(* ---------- CGR (C11) ---------- *)
(* corner of a byte as (x is S, y is S); None = not a nucleotide.  The table is regenerated from the source. *)
Fixpoint assoc (b : N) (t : list (N * (bool * bool))) : option (bool * bool) :=
  match t with [] => None | (y, c) :: r => if b =? y then Some c else assoc b r end.
Definition corner_cgr (b : N) := assoc b cgr_corners_cgr.
Definition corner_ocgr (b : N) := assoc b cgr_corners_oligocgr.
(* what the property says: A=(0,0), C=(0,S), G=(S,S), T and U=(S,0), either case *)
Definition corner_spec (b : N) : option (bool * bool) :=
  match digit_of_letter b with
  | 0 => Some (false, false) | 1 => Some (false, true) | 2 => Some (true, true) | 3 => Some (true, false)
  | _ => None end.

Definition fpt := (binary64 * binary64)%type.
Definition fzero : binary64 := b64_of_Z 0.
Definition fcorner (S : binary64) (c : bool * bool) : fpt :=
  ((if fst c then S else fzero), (if snd c then S else fzero)).
Definition fmid (c p : fpt) : fpt := (b64_half_sum (fst c) (fst p), b64_half_sum (snd c) (snd p)).
Definition fcentre (S : binary64) : fpt :=
  (b64_div mode_NE S two64, b64_div mode_NE S two64).
(* one walk for both arithmetic models: fold the midpoint step over the bytes, stop at the first byte
   without a corner *)
Section Walk.
Variables (C P : Type) (corner : N -> option C) (mid : C -> P -> P).
Fixpoint walk (p : P) (s : list N) : option (list P) :=
  match s with
  | [] => Some []
  | b :: t => match corner b with
              | None => None
              | Some c => let p' := mid c p in
                          match walk p' t with Some l => Some (p' :: l) | None => None end
              end
  end.
End Walk.
Definition cgr_b64_go (corner : N -> option (bool * bool)) (S : binary64) (p : fpt) (s : list N) : option (list fpt) :=
  walk (bool * bool) fpt corner (fun c p => fmid (fcorner S c) p) p s.
Definition cgr_b64 (corner : N -> option (bool * bool)) (S : Z) (s : list N) : option (list fpt) :=
  let Sf := b64_of_Z S in cgr_b64_go corner Sf (fcentre Sf) s.

(* exact dyadic model: a coordinate is num / 2^e *)
Definition dy := (Z * nat)%type.
Definition dpt := (dy * dy)%type.
Definition dmid1 (S : Z) (isS : bool) (p : dy) : dy :=
  ((if isS then S * 2 ^ Z.of_nat (snd p) else 0) + fst p, Datatypes.S (snd p))%Z.
Definition dmid (S : Z) (c : bool * bool) (p : dpt) : dpt := (dmid1 S (fst c) (fst p), dmid1 S (snd c) (snd p)).
Definition dcentre (S : Z) : dpt := ((S, 1%nat), (S, 1%nat)).
Definition cgr_exact_go (corner : N -> option (bool * bool)) (S : Z) (p : dpt) (s : list N) : option (list dpt) :=
  walk (bool * bool) dpt corner (dmid S) p s.
Definition cgr_exact (corner : N -> option (bool * bool)) (S : Z) (s : list N) : option (list dpt) :=
  cgr_exact_go corner S (dcentre S) s.
Definition dy_bits (d : dy) : Z :=
  bits_of_b64 (Binary.binary_normalize 53 1024 (refl_equal _) (refl_equal _) mode_NE (fst d) (- Z.of_nat (snd d)) false).

Definition show_fpt (p : fpt) : list N := dec_Z (bits_of_b64 (fst p)) ++ colon ++ dec_Z (bits_of_b64 (snd p)).
Definition show_dpt (p : dpt) : list N := dec_Z (dy_bits (fst p)) ++ colon ++ dec_Z (dy_bits (snd p)).
Definition err : list N := [69; 82; 82].
(* points whose exact value is representable for certain: position i (from 0) needs bitlen S + i + 1 <= 53 *)
Definition exact_prefix (S : Z) : nat := (53 - 1 - N.to_nat (N.size (Z.to_N S)))%nat.
Definition m_cgr (S : Z) (s : list N) : list N :=
  match cgr_b64 corner_cgr S s with Some l => join comma (map show_fpt l) | None => err end.
Definition s_cgr (S : Z) (s : list N) : list N :=
  match cgr_exact corner_spec S s with
  | Some l => join comma (map show_dpt (firstn (exact_prefix S) l) ++ repeat [126] (length l - exact_prefix S))
  | None => err end.

(* ---------- k-mer CGR (C12) ---------- *)
Definition ocgr_points_b64 (k : nat) (S : Z) : list (option fpt) :=
  map (fun x => match cgr_b64 corner_ocgr S (kmer_text k x) with Some l => Some (last l (fcentre (b64_of_Z S))) | None => None end)
      (min_mer_vec k).
Definition ocgr_points_exact (k : nat) (S : Z) : list (option dpt) :=
  map (fun x => match cgr_exact corner_spec S (s_dec k x) with Some l => Some (last l (dcentre S)) | None => None end)
      (canon_list k).
Definition show_triple {P} (sh : P -> list N) (t : option P * Z) : list N :=
  match fst t with Some p => sh p ++ colon ++ dec_Z (snd t) | None => err end.
(* the frequencies come from a separate copy of the oligo loop in the Rust (seq_to_kmer); same model *)
Definition m_ocgr (k : nat) (S : Z) (norm : bool) (s : list N) : list N :=
  join comma (map (show_triple show_fpt)
    (combine (ocgr_points_b64 k S) (map (entry_bits norm (oligo_total k s)) (oligo_counts k s)))).
Definition s_ocgr (k : nat) (S : Z) (norm : bool) (s : list N) : list N :=
  join comma (map (show_triple show_dpt)
    (combine (ocgr_points_exact k S) (map (entry_bits norm (oligo_total_spec k s)) (oligo_counts_spec k s)))).
