From Coq Require Import ZArith NArith List Lia Bool.
Import ListNotations.
Open Scope N_scope.

(* u64 primitives *)
Definition W64 : N := 2^64.
Definition shl64 (x n : N) : N := (N.shiftl x n) mod W64.

Section Kmer.
Variable nt4 : N -> N.

Record kst := mkst { fval : N; rval : N; len : nat }.

Definition kmask (k : nat) : N := N.pred (shl64 1 (2 * N.of_nat k)).
Definition kshift (k : nat) : N := 2 * N.of_nat (k - 1).

Definition kg_step (k : nat) (st : kst) (b : N) : kst * option (N * N) :=
  let c := nt4 b in
  let st1 :=
    if c <? 4 then
      mkst (N.land (N.lor (shl64 (fval st) 2) c) (kmask k))
           (N.lor (N.shiftr (rval st) 2) (shl64 (N.lxor c 3) (kshift k)))
           (S (len st))
    else mkst (fval st) (rval st) 0%nat in
  if Nat.eqb (len st1) k
  then (mkst (fval st1) (rval st1) (len st1 - 1), Some (fval st1, rval st1))
  else (st1, None).

Fixpoint kg_go (k : nat) (st : kst) (seq : list N) : list (N * N) :=
  match seq with
  | [] => []
  | b :: t => let '(st', o) := kg_step k st b in
              match o with Some x => x :: kg_go k st' t | None => kg_go k st' t end
  end.

Definition kg_run (k : nat) (seq : list N) := kg_go k (mkst 0 0 0) seq.

(* specification *)
Definition clean (b : N) : bool := nt4 b <? 4.
Definition code (ds : list N) : N := fold_left (fun a d => 4 * a + d) ds 0.
Definition window (seq : list N) (p k : nat) : list N := firstn k (skipn p seq).
Definition fwd_code (w : list N) : N := code (map nt4 w).
Definition rev_code (w : list N) : N := code (map (fun b => 3 - nt4 b) (rev w)).
Definition emit (w : list N) : list (N * N) :=
  if forallb clean w then [(fwd_code w, rev_code w)] else [].
(* one item for each start position 0 .. |s|-k whose window is clean; written by walking the suffixes so that the
   executable spec is linear in |s| (Proof/KmerProof.v spec_kmers_windows: this is
   flat_map (fun p => emit (window s p k)) (seq 0 (length s + 1 - k))) *)
Fixpoint windows_go (k n : nat) (s : list N) : list (N * N) :=
  match n with O => [] | S n' => emit (firstn k s) ++ windows_go k n' (tl s) end.
Definition spec_kmers (k : nat) (s : list N) : list (N * N) := windows_go k (length s + 1 - k) s.
End Kmer.
