From Coq Require Import ZArith NArith List.
From Flocq Require Import IEEE754.BinarySingleNaN IEEE754.Binary IEEE754.Bits Core.
Open Scope Z_scope.

Definition b64_of_Z (z : Z) : binary64 :=
  Binary.binary_normalize 53 1024 (refl_equal _) (refl_equal _) BinarySingleNaN.mode_NE z 0 false.

Definition fdiv (c t : Z) : binary64 := b64_div BinarySingleNaN.mode_NE (b64_of_Z c) (b64_of_Z t).

(* value * 10^6 rounded half-to-even, for a finite non-negative binary64; None otherwise *)
Definition fmt6 (x : binary64) : option Z :=
  match x with
  | Binary.B754_zero _ _ _ => Some 0
  | Binary.B754_finite _ _ false m e _ =>
      let n := Zpos m * 1000000 in
      if 0 <=? e then Some (n * 2 ^ e)
      else
        let d := 2 ^ (- e) in
        let q := n / d in
        let r := n mod d in
        if d <? 2 * r then Some (q + 1)
        else if d =? 2 * r then Some (if Z.even q then q else q + 1)
        else Some q
  | _ => None
  end.

Definition norm6 (c t : Z) : option Z := fmt6 (fdiv c t).
Definition bits (c t : Z) : Z := bits_of_b64 (fdiv c t).

(* non-negative integers as binary64 (exact below 2^53), their bit patterns, and the two renderings the
   Rust code uses for vector entries: `{}` of an integer-valued float and `{:.6}` *)
Definition bits_of_Z (c : Z) : Z := bits_of_b64 (b64_of_Z c).
Definition two64 : binary64 := b64_of_Z 2.
Definition b64_half_sum (a b : binary64) : binary64 :=
  b64_div BinarySingleNaN.mode_NE (b64_plus BinarySingleNaN.mode_NE a b) two64.
