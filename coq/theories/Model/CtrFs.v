(* The counter at the level of its files: what `ctr` creates, reads back, removes and leaves in its output directory.
   count_chunk writes one text file per (partition, chunk pass), named from the run's own partition and chunk
   numbers; merge creates kmers.counts, then for every partition reads that partition's file of every chunk pass,
   sums the counts per key, removes the files it read and appends the partition's table.  The initial content of
   the directory is an argument: whatever an earlier run left there.  No proofs here (Proof/CtrFsProof.v). *)
From Coq Require Import NArith List Bool String.
From KT Require Import Gen.Generated Model.Kmer Model.Show Model.Fs Model.Ops Model.Rows.
From KT Require Import Proof.RevComp Proof.PosMap Proof.Merge Proof.Sched.
From KT Require Proof.CountSched Proof.Batch Model.Pipeline.
Import ListNotations.
Open Scope N_scope.

Definition temp_name (dir : path) (p c : N) : path :=
  dir ++ str "/temp_kmers.part_" ++ dec p ++ str "_chunk_" ++ dec c.
Definition counts_name (dir : path) : path := dir ++ str "/kmers.counts".
Definition vectors_name (dir : path) : path := dir ++ str "/kmers.vectors".

(* "{}\t{:?}\n" *)
Definition line_body (kv : N * nat) : list N := dec (fst kv) ++ 9 :: dec_nat (snd kv).
Definition file_text (l : list (N * nat)) : list N := List.concat (map (fun kv => line_body kv ++ [10]) l).
(* BufRead::lines + split('\t') + parse; a line the real code cannot parse makes it panic: here such a line reads
   as (0, 0) and empty lines are skipped, and nothing is claimed about files that are not well formed *)
Definition is_nil (l : list N) : bool := match l with [] => true | _ => false end.
Definition file_lines (t : list N) : list (list N) := filter (fun l => negb (is_nil l)) (split_on 10 t).
Definition parse_line (l : list N) : N * nat :=
  match split_on 9 l with a :: b :: _ => (parse_dec a, parse_nat b) | _ => (0, 0%nat) end.
Definition parse_file (t : list N) : list (N * nat) := map parse_line (file_lines t).

Definition nrange (n : N) : list N := map N.of_nat (seq 0 (N.to_nat n)).

(* ---- count(): one file per partition at the end of every chunk pass that took a record ---- *)
Definition write_chunk (n_parts : N) (dir : path) (c : N) (bag : list N) (f : fs) : fs :=
  fold_left (fun f p => fs_write (temp_name dir p c) (file_text (chunk_file n_parts p bag)) f) (nrange n_parts) f.
Fixpoint write_chunks (n_parts : N) (dir : path) (c : N) (bags : list (list N)) (f : fs) : fs :=
  match bags with [] => f | b :: t => write_chunks n_parts dir (c + 1) t (write_chunk n_parts dir c b f) end.

(* ---- merge(delete = true) ---- *)
Definition count_in (x : N) (lines : list (N * nat)) : nat :=
  lsum (map snd (filter (fun kv => fst kv =? x) lines)).        (* *entry(kmer).or_insert(0) += count *)
Definition merge_lines (lines : list (N * nat)) : list (N * nat) :=
  map (fun x => (x, count_in x lines)) (nodup N.eq_dec (map fst lines)).
Definition read_part (dir : path) (p chunks : N) (f : fs) : option (list (N * nat)) :=
  fold_right (fun c acc => match fs_read (temp_name dir p c) f, acc with
                           | Some t, Some l => Some (parse_file t ++ l)
                           | _, _ => None           (* File::open(..).unwrap() *)
                           end) (Some []) (nrange chunks).
Definition remove_part (dir : path) (p chunks : N) (f : fs) : fs :=
  fold_left (fun f c => fs_remove (temp_name dir p c) f) (nrange chunks) f.
Fixpoint merge_go (dir : path) (chunks : N) (ps : list N) (f : fs) (out : list (N * nat)) : option (fs * list (N * nat)) :=
  match ps with
  | [] => Some (f, out)
  | p :: t => match read_part dir p chunks f with
              | None => None
              | Some ls => merge_go dir chunks t (remove_part dir p chunks f) (out ++ merge_lines ls)
              end
  end.
Definition merge_fs (n_parts chunks : N) (dir : path) (f : fs) : option fs :=
  let f0 := fs_write (counts_name dir) [] f in                  (* File::create before anything is read *)
  match merge_go dir chunks (nrange n_parts) f0 [] with
  | None => None
  | Some (f1, out) => Some (fs_write (counts_name dir) (file_text out) f1)
  end.

(* the whole command: bags = the canonical k-mers counted in each chunk pass *)
Definition ctr_fs (n_parts : N) (dir : path) (bags : list (list N)) (f : fs) : option fs :=
  merge_fs n_parts (N.of_nat (List.length bags)) dir (write_chunks n_parts dir 0 bags f).

(* ---- executable case: one worker, the chunk passes of the budget rule (CountSched with W = 1) ---- *)
Definition ceil_div (a b : N) : N := (a + b - 1) / b.
(* init(): n_parts = max(threads, ceil(8 * (L / 2^30) / (2 * mem))) with mem = 8 * (limit + 0.5) / 10^9, threads = 1,
   in exact arithmetic (the generator keeps away from the points where binary64 rounding could matter) *)
Definition n_parts_of (total_len limit : N) : N := N.max 1 (ceil_div (total_len * 1000000000) (1073741824 * (2 * limit + 1))).
Definition passes (k : nat) (limit : N) (recs : list (list N)) : list (list N) :=
  let rs := map (fun s => (map canon_of (kg_run nt4k k s), N.of_nat (List.length s))) recs in
  let steps := fold_right (fun r a => (List.length (fst r) + 4 + a)%nat) 8%nat rs in
  rev (CountSched.done (CountSched.exec rs 1 limit (repeat 0%nat (2 * steps)))).

Definition stale_fs (dir : path) : fs :=
  flat_map (fun p => map (fun c => (temp_name dir p c, file_text [(p, 7%nat); (p + 100, 3%nat)])) (nrange 4)) (nrange 20)
  ++ [(counts_name dir, file_text [(1, 1%nat); (2, 2%nat)]); (vectors_name dir, str "stale")].

Definition show_table (l : list (N * nat)) : list N :=
  join comma (map (fun x => dec x ++ colon ++ dec_nat (count_in x l)) (NSort.sort (nodup N.eq_dec (map fst l)))).
Definition probe (f : fs) (tag : list N) (p : path) : list (list N) :=
  match fs_read p f with Some t => [tag ++ [61] ++ show_table (parse_file t)] | None => [] end.
Definition listing (dir : path) (pmax cmax : N) (f : fs) : list N :=
  join [59] (flat_map (fun p => flat_map (fun c => probe f (116 :: dec p ++ 46 :: dec c) (temp_name dir p c)) (nrange cmax)) (nrange pmax)
             ++ probe f (str "counts") (counts_name dir)
             ++ match fs_read (vectors_name dir) f with Some t => [str "vectors=" ++ to_hex t] | None => [] end).
Definition ctrfs_setup (k : nat) (limit : N) (plant : bool) (recs : list (list N)) :=
  let dir := str "out" in
  let total_len := fold_right (fun s a => N.of_nat (List.length s) + a) 0 recs in
  let n_parts := n_parts_of total_len limit in
  let bags := passes k limit recs in
  let chunks := N.of_nat (List.length bags) in
  let f0 := if plant then stale_fs dir else [] in
  (dir, n_parts, chunks, write_chunks n_parts dir 0 bags f0).
Definition ctrfs_head (dir : path) (n_parts chunks : N) (f1 : fs) : list N :=
  dec n_parts ++ [44] ++ dec chunks ++ [124] ++ listing dir (N.max 20 n_parts) (N.max 4 chunks) f1 ++ [124].
Definition m_ctrfs (k : nat) (limit : N) (plant : bool) (recs : list (list N)) : list N :=
  let '(dir, n_parts, chunks, f1) := ctrfs_setup k limit plant recs in
  ctrfs_head dir n_parts chunks f1 ++
  match merge_fs n_parts chunks dir f1 with
  | Some f2 => listing dir (N.max 20 n_parts) (N.max 4 chunks) f2
  | None => str "PANIC"
  end.
(* plant = 2: the directory holds what a REAL earlier library run with merge(false) left there (its temp files and its
   counts table, possibly sharing storage); that content is not modelled - by ctr_fs_correct it cannot matter - and
   only the partition / chunk counts and the counts table of this run are reported *)
Definition m_ctrfs_after_real_run (k : nat) (limit : N) (recs : list (list N)) : list N :=
  let '(dir, n_parts, chunks, f1) := ctrfs_setup k limit false recs in
  dec n_parts ++ [44] ++ dec chunks ++ [124; 124] ++
  match merge_fs n_parts chunks dir f1 with
  | Some f2 => join [59] (probe f2 (str "counts") (counts_name dir))
  | None => str "PANIC"
  end.

(* specification: only the RESULT file is specified - the counts table a fresh location would receive; temp files
   and what else the directory holds are the model's business (the comparison reduces the listing to the result
   files before it is compared with this line) *)
Definition s_ctrfs (k : nat) (limit : N) (plant : bool) (recs : list (list N)) : list N :=
  str "counts=" ++ Pipeline.s_ctr k false recs.

(* ---- cov: build_table = count + merge(true) into the output directory, then compute_coverages reads
   kmers.counts back into a map and creates kmers.vectors.  A counts file has one line per key (C07), so the
   map's last-insert-wins and the table's first-match lookup agree. ---- *)
Definition cov_table (lines : list (N * nat)) : list (N * N) := map (fun kv => (fst kv, N.of_nat (snd kv))) lines.
Definition cov_rows (k bs bc : nat) (norm : bool) (delim : list N) (mem : nat) (tbl : list (N * N)) (recs : list (list N)) : list N :=
  List.concat (Batch.batch_go (list N) (list N) (Pipeline.cov_row_bytes k bs bc norm delim tbl) (@List.length N) true mem [] 0 recs []).
Definition cov_fs (k bs bc : nat) (norm : bool) (delim : list N) (mem : nat) (n_parts : N) (dir : path)
                  (bags : list (list N)) (recs : list (list N)) (f : fs) : option fs :=
  match ctr_fs n_parts dir bags f with
  | None => None
  | Some f1 => match fs_read (counts_name dir) f1 with
               | None => None                                   (* File::open(kmer_path).unwrap() *)
               | Some t => Some (fs_write (vectors_name dir) (cov_rows k bs bc norm delim mem (cov_table (parse_file t)) recs) f1)
               end
  end.
(* covfs k bs bc norm limit plant recs : counting input = the same file, one worker, rows flushed per record *)
Definition m_covfs (k bs bc : nat) (norm : bool) (limit : N) (plant : bool) (recs : list (list N)) : list N :=
  let '(dir, n_parts, chunks, f1) := ctrfs_setup k limit plant recs in
  let f0 := if plant then stale_fs dir else [] in
  dec n_parts ++ [44] ++ dec chunks ++ [124] ++
  match cov_fs k bs bc norm [44] 0 n_parts dir (passes k limit recs) recs f0 with
  | Some f2 => listing dir (N.max 20 n_parts) (N.max 4 chunks) f2
  | None => str "PANIC"
  end.
Definition s_covfs (k bs bc : nat) (norm : bool) (limit : N) (plant : bool) (recs : list (list N)) : list N :=
  str "counts=" ++ Pipeline.s_ctr k false recs ++ [59] ++ str "vectors=" ++ to_hex (Pipeline.s_cov k bs bc norm [44] recs recs).
