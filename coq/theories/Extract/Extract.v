From Coq Require Import NArith List.
From KT Require Import Extract.Dispatch.
Require Import ExtrOcamlBasic.
(* Coq's List.rev is the quadratic `rev t ++ [x]`; lines of tens of kilobytes (long records, block-aligned files)
   make the extracted reader and tokenizer unusable with it.  The only extraction directive of our own: *)
Extract Constant rev => "List.rev".
Extraction "model.ml" dispatch.
