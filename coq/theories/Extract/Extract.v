From Coq Require Import NArith List.
From KT Require Import Gen.Generated Gen.Alphabet Model.Kmer Proof.MinAbs Proof.MinSpec Proof.MinConc.
Require Import ExtrOcamlBasic.
(* the model follows the table found in the code; the spec follows the alphabet of the property *)
Definition nt4 : N -> N := nt4_of table_kmer.
Definition m_kg (k : nat) (s : list N) := kg_run nt4 k s.
Definition s_kg (k : nat) (s : list N) := spec_kmers digit_of_letter k s.
Definition first_bad_kmer_table := table_first_bad table_kmer.
Definition nt4m : N -> N := nt4_of table_minimiser.
Definition m_mg (w m : nat) (s : list N) := mg_run nt4m w m s.
Definition s_mg (w m : nat) (s : list N) := grp_go digit_of_letter w m None nil s.
Extraction "model.ml" m_kg s_kg first_bad_kmer_table m_mg s_mg.
