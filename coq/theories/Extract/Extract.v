From Coq Require Import NArith List.
From KT Require Import Extract.Dispatch.
Require Import ExtrOcamlBasic.
Extraction "model.ml" dispatch.
