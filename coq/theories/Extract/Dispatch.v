(* One entry point for the correspondence check: a case line in, the model's and the spec's canonical
   result lines out.  Extracted to OCaml (ExtrOcamlBasic only) and also evaluated by vm_compute. *)
From Coq Require Import NArith ZArith List Bool String.
From KT Require Import Model.Show Model.Ops Model.Rows.
Import ListNotations.
Open Scope N_scope.

Definition is (name : string) (tok : list N) : bool := list_eqb (str name) tok.
Definition unknown : list N * list N := ([63], [63]).

Definition flag (t : list N) : bool := list_eqb t [49].
Definition parse_Z (t : list N) : Z := Z.of_N (parse_dec t).
(* "x:c,x:c,..." or "_" *)
Definition parse_table (t : list N) : list (N * N) :=
  if list_eqb t [95] then [] else
  map (fun e => match split_on 58 e with [a; b] => (parse_dec a, parse_dec b) | _ => (0, 0) end) (split_on 44 t).

Definition dispatch (line : list N) : list N * list N :=
  match split_on 32 line with
  | [op; a; b] =>
      if is "kg" op then (m_kg (parse_nat a) (parse_hex b), s_kg (parse_nat a) (parse_hex b))
      else if is "rc" op then (m_rc (parse_nat a) (parse_dec b), s_rc (parse_nat a) (parse_dec b))
      else if is "dec" op then (m_dec (parse_nat a) (parse_dec b), s_dec (parse_nat a) (parse_dec b))
      else if is "cgr" op then (m_cgr (parse_Z a) (parse_hex b), s_cgr (parse_Z a) (parse_hex b))
      else unknown
  | [op; a] =>
      if is "posmap" op then (m_posmap (parse_nat a), s_posmap (parse_nat a))
      else if is "header" op then (m_header (parse_nat a), s_header (parse_nat a))
      else unknown
  | [op; a; b; c] =>
      if is "mg" op then (m_mg (parse_nat a) (parse_nat b) (parse_hex c), s_mg (parse_nat a) (parse_nat b) (parse_hex c))
      else if is "kmg" op then (m_kmg (parse_nat a) (parse_nat b) (parse_hex c), s_kmg (parse_nat a) (parse_nat b) (parse_hex c))
      else if is "oligo" op then (m_oligo (parse_nat a) (flag b) (parse_hex c), s_oligo (parse_nat a) (flag b) (parse_hex c))
      else unknown
  | [op; a; b; c; d] =>
      if is "ocgr" op then (m_ocgr (parse_nat a) (parse_Z b) (flag c) (parse_hex d), s_ocgr (parse_nat a) (parse_Z b) (flag c) (parse_hex d))
      else unknown
  | [op; a; b; c; d; e; f] =>
      if is "covrow" op then (m_covrow (parse_nat a) (parse_nat b) (parse_nat c) (flag d) (parse_table e) (parse_hex f),
                              s_covrow (parse_nat a) (parse_nat b) (parse_nat c) (flag d) (parse_table e) (parse_hex f))
      else unknown
  | _ => unknown
  end.
