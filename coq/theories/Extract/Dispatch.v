(* One entry point for the correspondence check: a case line in, the model's and the spec's canonical
   result lines out.  Extracted to OCaml (ExtrOcamlBasic only) and also evaluated by vm_compute. *)
From Coq Require Import NArith ZArith List Bool String.
From KT Require Import Model.Show Model.Ops Model.Rows Model.Pipeline Model.Reader Model.Cli Model.CtrFs.
Import ListNotations.
Open Scope N_scope.

Definition is (name : string) (tok : list N) : bool := list_eqb (str name) tok.
Definition unknown : list N * list N := ([63], [63]).

Definition flag (t : list N) : bool := list_eqb t [49].
Definition parse_Z (t : list N) : Z := Z.of_N (parse_dec t).
(* "x:c,x:c,..." or "_" *)
Definition parse_table (t : list N) : list (N * N) :=
  if list_eqb t [95] then [] else
  map (fun e => match split_on 58 e with [a; b] => (parse_dec a, parse_dec b) | _ => (0, 0) end) (split_on 44 t).

(* memory limits may be astronomically large (4 GiB): anything above the total input length behaves like
   total + 1, so the limit handed to the model stays a small unary number *)
Definition cap_mem (mem : N) (recs : list (list N)) : nat :=
  if mem <=? N.of_nat (total_len recs) then N.to_nat mem else S (total_len recs).
Definition hex2 (p : list N * list N) : list N * list N := (to_hex (fst p), to_hex (snd p)).
Definition parse_nats (t : list N) : list nat := if list_eqb t [95] then [] else map parse_nat (split_on 44 t).

(* file-level ops: op, then parameters, the container and thread count are for the implementation only *)
Definition dispatch_file (toks : list (list N)) : option (list N * list N) :=
  match toks with
  | [op; k; norm; hdr; delim; threads; mem; writer; container; wrap; recs] =>
      if is "ofile" op then
        let rs := parse_hex_list recs in
        let mapped := is "mmap" writer || (is "auto" writer && flag norm) in
        let small := (Nat.leb (parse_nat k) 4 && Nat.leb (List.length rs) 200)%bool in
        Some (hex2 (if (mapped && small && flag norm)%bool
                    then m_ofile_mapped (parse_nat k) (flag hdr) (parse_hex delim) rs
                    else m_ofile (parse_nat k) (flag norm) (flag hdr) (parse_hex delim) (cap_mem (parse_dec mem) rs) rs,
                    s_ofile (parse_nat k) (flag norm) (flag hdr) (parse_hex delim) rs))
      else if is "cov" op then
        (* cov k bs bc norm delim threads flush container recs altrecs, positions renamed:
           bs=norm bc=hdr norm=delim delim=threads threads=mem flush=writer recs=wrap altrecs=recs;
           flush: 1 = the limit is 0 (flush after every record), 0 = never reached *)
        let rs := parse_hex_list wrap in let ars := parse_hex_list recs in
        Some (hex2 (m_cov (parse_nat k) (parse_nat norm) (parse_nat hdr) (flag delim) (parse_hex threads)
                          (if flag writer then 0%nat else S (total_len rs)) rs ars,
                    s_cov (parse_nat k) (parse_nat norm) (parse_nat hdr) (flag delim) (parse_hex threads) rs ars))
      else None
  | [op; k; hdr; delim; w; sched; recs] =>
      if is "osched" op then
        let rs := parse_hex_list recs in
        let r := m_osched (parse_nat k) (flag hdr) (parse_hex delim) (parse_nat w) (parse_nats sched) rs in
        Some (r, r)
      else if is "msched" op then   (* msched mode w m W sched recs *)
        let r := m_msched (is "s2m" k) (parse_nat hdr) (parse_nat delim) (parse_nat w) (parse_nats sched) (parse_hex_list recs) in
        Some (r, r)
      else if is "ctr" op then   (* ctr k threads memf acgt container recs *)
        let rs := parse_hex_list recs in
        Some (m_ctr (parse_nat k) (flag w) (N.max 1 (parse_dec hdr)) [rs], s_ctr (parse_nat k) (flag w) rs)
      else None
  | [op; sz; threads; mem; container; recs] =>
      if is "cli" op then    (* cli <subcommand> <settings> <container> <recs> <alt recs> *)
        Some (m_cli sz (parse_settings threads) (parse_hex_list container) (parse_hex_list recs),
              s_cli sz (parse_settings threads) (parse_hex_list container) (parse_hex_list recs))
      else if is "csched" op then   (* csched k W limit sched recs *)
        let r := m_csched (parse_nat sz) (parse_nat threads) (parse_dec mem) (parse_nats container) (parse_hex_list recs) in Some (r, r)
      else if is "cgrfile" op then
        let rs := parse_hex_list recs in Some (m_cgrfile_mem (parse_Z sz) (cap_mem (parse_dec mem) rs) rs, s_cgrfile (parse_Z sz) rs)
      else if is "s2m" op then   (* s2m w m threads container recs *)
        let rs := parse_hex_list recs in Some (m_s2m (parse_nat sz) (parse_nat threads) rs, s_s2m (parse_nat sz) (parse_nat threads) rs)
      else if is "m2s" op then
        let rs := parse_hex_list recs in Some (m_m2s (parse_nat sz) (parse_nat threads) rs, s_m2s (parse_nat sz) (parse_nat threads) rs)
      else None
  | [op; k; sz; norm; threads; mem; container; recs] =>
      if is "ocgrfile" op then
        let rs := parse_hex_list recs in
        Some (m_ocgrfile_mem (parse_nat k) (parse_Z sz) (flag norm) (cap_mem (parse_dec mem) rs) rs, s_ocgrfile (parse_nat k) (parse_Z sz) (flag norm) rs)
      else if is "covfs" op then    (* covfs k bs bc norm limit plant recs *)
        let rs := parse_hex_list recs in
        Some (m_covfs (parse_nat k) (parse_nat sz) (parse_nat norm) (flag threads) (parse_dec mem) (flag container) rs,
              s_covfs (parse_nat k) (parse_nat sz) (parse_nat norm) (flag threads) (parse_dec mem) (flag container) rs)
      else None
  | _ => None
  end.

Definition parse_recs (t : list N) : list (list N * list N) :=
  if list_eqb t [95] then [] else
  map (fun e => match split_on 58 e with [a; b] => (parse_hex a, parse_hex b) | _ => ([], []) end) (split_on 44 t).

(* hist <plant> (<sub> <settings> <container> <recs> <alt>)+ : several runs into one output location; the result
   files must be those of the last run alone in a fresh location, so model and spec only look at the last run *)
Definition dispatch_hist (toks : list (list N)) : option (list N * list N) :=
  match toks with
  | op :: plant :: rest =>
      if is "hist" op then
        match skipn (List.length rest - 5) rest with
        | [sub; st; container; recs; alt] =>
            Some (m_cli sub (parse_settings st) (parse_hex_list recs) (parse_hex_list alt),
                  s_cli sub (parse_settings st) (parse_hex_list recs) (parse_hex_list alt))
        | _ => None
        end
      else None
  | _ => None
  end.

(* hooks <inner op ...>: predicted summary of the event log: every index in bounds, mapped writes tile the file,
   number of mapped writes (rows + header) and of logged unchecked indexings (2 per window for the composition
   vectors: pos_map and vec; 1 per window for the coverage histogram and for the counter's partition table) *)
Definition dispatch_hooks (toks : list (list N)) : option (list N * list N) :=
  match toks with
  | [h; op; k; norm; hdr; delim; threads; mem; writer; container; wrap; recs] =>
      if is "hooks" h && is "ofile" op then
        let rs := parse_hex_list recs in
        let mapped := is "mmap" writer || (is "auto" writer && flag norm) in
        let w := if mapped then (List.length rs + (if flag hdr then 1 else 0))%nat else 0%nat in
        Some (show_hooks w (2 * windows (parse_nat k) rs) ++ str "|layout=" ++
                (if mapped then m_layout (parse_nat k) (flag hdr) (parse_hex delim) rs else []),
              show_hooks w (2 * windows_spec (parse_nat k) rs) ++ str "|layout=" ++
                (if mapped then s_layout (parse_nat k) (flag hdr) (parse_hex delim) rs else []))
      else if is "hooks" h && is "cov" op then
        (* hooks cov k bs bc norm delim threads flush container recs altrecs (positions as in dispatch_file) *)
        let rs := parse_hex_list wrap in let ars := parse_hex_list recs in
        Some (show_hooks 0 (windows (parse_nat k) rs + windows (parse_nat k) ars),
              show_hooks 0 (windows_spec (parse_nat k) rs + windows_spec (parse_nat k) ars))
      else None
  | [h; op; k; threads; memf; acgt; container; recs] =>
      if is "hooks" h && is "ctr" op then
        let rs := parse_hex_list recs in
        Some (show_hooks 0 (windows (parse_nat k) rs), show_hooks 0 (windows_spec (parse_nat k) rs))
      else None
  | [h; op; k; sz; norm; threads; mem; container; recs] =>
      if is "hooks" h && is "ocgrfile" op then
        let rs := parse_hex_list recs in
        Some (show_hooks 0 (2 * windows (parse_nat k) rs), show_hooks 0 (2 * windows_spec (parse_nat k) rs))
      else None
  | _ => None
  end.

(* bytes 0x00-0x03 (pre-encoded bases of the table inherited from minimap2) are left unspecified by the properties:
   for a sequence that contains one, the model (regenerated tables) is still compared with the implementation, and
   the relations between the three iterators are still checked, but there is no specification line *)
Definition has_raw (s : list N) : bool := existsb (fun b => b <? 4) s.
Definition unspecified : list N := str "UNSPECIFIED".

Definition dispatch0 (line : list N) : list N * list N :=
  match dispatch_hooks (split_on 32 line) with Some r => r | None =>
  match dispatch_hist (split_on 32 line) with Some r => r | None =>
  match dispatch_file (split_on 32 line) with Some r => r | None =>
  match split_on 32 line with
  | [op; a; b] =>
      if is "kg" op then (m_kg (parse_nat a) (parse_hex b), if has_raw (parse_hex b) then unspecified else s_kg (parse_nat a) (parse_hex b))
      else if is "rc" op then (m_rc (parse_nat a) (parse_dec b), s_rc (parse_nat a) (parse_dec b))
      else if is "dec" op then (m_dec (parse_nat a) (parse_dec b), s_dec (parse_nat a) (parse_dec b))
      else if is "cgr" op then (m_cgr (parse_Z a) (parse_hex b), s_cgr (parse_Z a) (parse_hex b))
      else if is "readc" op then (show_readc (parse_hex_list b), show_readc (parse_hex_list b))
      else if is "cbatch" op then (m_cbatch (parse_Z a) (parse_hex_list b), s_cbatch (parse_Z a) (parse_hex_list b))
      else unknown
  | [op; a] =>
      if is "posmap" op then (m_posmap (parse_nat a), s_posmap (parse_nat a))
      else if is "header" op then (m_header (parse_nat a), s_header (parse_nat a))
      else unknown
  | [op; a; b; c] =>
      if is "mg" op then (m_mg (parse_nat a) (parse_nat b) (parse_hex c), if has_raw (parse_hex c) then unspecified else s_mg (parse_nat a) (parse_nat b) (parse_hex c))
      else if is "kmg" op then (m_kmg (parse_nat a) (parse_nat b) (parse_hex c), if has_raw (parse_hex c) then unspecified else s_kmg (parse_nat a) (parse_nat b) (parse_hex c))
      else if is "oligo" op then (m_oligo (parse_nat a) (flag b) (parse_hex c), s_oligo (parse_nat a) (flag b) (parse_hex c))
      else if is "obig" op then
        (* a record too long for the executable models: the harness checks the proved relation "the raw entries sum to
           the number of valid windows" (C04_entries_sum_to_window_count) on the implementation's row *)
        (str "OK", str "OK")
      else if is "obatch" op then (m_obatch (parse_nat a) (flag b) (parse_hex_list c), s_obatch (parse_nat a) (flag b) (parse_hex_list c))
      else unknown
  | [op; a; b; c; d] =>
      if is "ocgr" op then (m_ocgr (parse_nat a) (parse_Z b) (flag c) (parse_hex d), s_ocgr (parse_nat a) (parse_Z b) (flag c) (parse_hex d))
      else if is "ctrfs" op then
        (if list_eqb c [50] then m_ctrfs_after_real_run (parse_nat a) (parse_dec b) (parse_hex_list d)
         else m_ctrfs (parse_nat a) (parse_dec b) (flag c) (parse_hex_list d),
         s_ctrfs (parse_nat a) (parse_dec b) (flag c) (parse_hex_list d))
      else if is "read" op then   (* read <file name> <expected format> <members> <expected records id:seq,...> *)
        (m_read a (parse_hex_list c), s_read b (parse_recs d))
      else unknown
  | [op; a; b; c; d; e; f] =>
      if is "covrow" op then (m_covrow (parse_nat a) (parse_nat b) (parse_nat c) (flag d) (parse_table e) (parse_hex f),
                              s_covrow (parse_nat a) (parse_nat b) (parse_nat c) (flag d) (parse_table e) (parse_hex f))
      else unknown
  | _ => unknown
  end
  end
  end
  end.

(* the Python binding is given the same case lines with the prefix "py:"; a Python str reaches the Rust code as
   its UTF-8 bytes, which is what the case line carries, so the models are those of the core *)
Definition dispatch (line : list N) : list N * list N :=
  match line with
  | 112 :: 121 :: 58 :: rest => dispatch0 rest
  | _ => dispatch0 line
  end.
