(* exactly the sites of the core crates that are hooked (H1, H3) or modelled (C14) *)
From Coq Require Import NArith List Bool String.
From KT Require Import Gen.Generated Model.Show Gen.UnsafeInv.
Import ListNotations.
Open Scope N_scope.
Definition expected_unsafe_core : list (list N * (N * N * N * N)) :=
  [ (Show.str "composition/src/oligo.rs"%string, (3, 2, 0, 0));      (* pos_map / vec indexing (hooked), two write_at calls *)
    (Show.str "composition/src/oligocgr.rs"%string, (1, 2, 0, 0));   (* pos_map / vec indexing (hooked) *)
    (Show.str "counter/src/lib.rs"%string, (1, 1, 0, 0));            (* partition table indexing (hooked) *)
    (Show.str "coverage/src/lib.rs"%string, (1, 1, 0, 0));           (* histogram indexing (hooked) *)
    (Show.str "ktio/src/mmap.rs"%string, (5, 0, 1, 1)) ].            (* MMWriter::write_at (hooked), map_mut, file.set_len *)
Theorem unsafe_core_ok : inv_eqb unsafe_core expected_unsafe_core = true.
Proof. vm_compute. reflexivity. Qed.
