(* Lemmas that turn the computed checks over the regenerated data into usable statements (no fact about the data here). *)
From Coq Require Import NArith List Lia Bool Arith String.
From KT Require Import Gen.Generated Gen.Alphabet Model.Rows Model.Show.
Import ListNotations.
Open Scope N_scope.

Lemma table_ok_spec t : table_ok t = true ->
  forall b, 4 <= b < 256 -> nt4_of t b = digit_of_letter b.
Proof.
  unfold table_ok. intros H b Hb. apply andb_prop in H as [_ H].
  rewrite forallb_forall in H. apply N.eqb_eq. apply H.
  unfold brange. apply in_map_iff. exists (N.to_nat b). split; [lia|]. apply in_seq. lia.
Qed.


(* ---- CGR corner tables (two copies in the Rust) against the corners the property names ---- *)
Definition corner_eqb (a b : option (bool * bool)) : bool :=
  match a, b with
  | None, None => true
  | Some (x, y), Some (x', y') => Bool.eqb x x' && Bool.eqb y y'
  | _, _ => false
  end.
Lemma corner_eqb_eq a b : corner_eqb a b = true -> a = b.
Proof.
  destruct a as [[x y]|], b as [[x' y']|]; cbn; try discriminate; try reflexivity.
  intros H. apply andb_prop in H as [H1 H2]. apply Bool.eqb_prop in H1, H2. now subst.
Qed.
Definition corners_ok (t : list (N * (bool * bool))) : bool :=
  forallb (fun b => corner_eqb (assoc b t) (corner_spec b)) (brange 0 256).
Lemma corners_ok_spec t : corners_ok t = true -> forall b, b < 256 -> assoc b t = corner_spec b.
Proof.
  unfold corners_ok. intros H b Hb. apply corner_eqb_eq. rewrite forallb_forall in H. apply H.
  unfold brange. apply in_map_iff. exists (N.to_nat b). split; [lia|]. apply in_seq. lia.
Qed.
(* the first byte on which a corner table deviates, for the failing-input search *)
Definition corners_first_bad (t : list (N * (bool * bool))) : option N :=
  find (fun b => negb (corner_eqb (assoc b t) (corner_spec b))) (brange 0 256).

