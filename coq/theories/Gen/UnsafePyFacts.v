(* exactly the sites of the bindings that are modelled (C13) *)
From Coq Require Import NArith List Bool String.
From KT Require Import Gen.Generated Model.Show Gen.UnsafeInv.
Import ListNotations.
Open Scope N_scope.
Definition expected_unsafe_bindings : list (list N * (N * N * N * N)) :=
  [ (Show.str "pybindings/src/kmer.rs"%string, (1, 0, 0, 2));        (* lifetime extension kept alive by an Arc (C13, partial) *)
    (Show.str "pybindings/src/min.rs"%string, (1, 0, 0, 2));
    (Show.str "pybindings/src/oligo.rs"%string, (1, 2, 0, 0)) ].     (* copy of the oligo loop (C13) *)
Theorem unsafe_bindings_ok : inv_eqb unsafe_bindings expected_unsafe_bindings = true.
Proof. vm_compute. reflexivity. Qed.
