(* Facts about the data regenerated from the Rust sources; re-proved on every run
   by computation over the complete finite domain (256 byte values). *)
From Coq Require Import NArith List Lia Bool Arith.
From KT Require Import Gen.Generated Gen.Alphabet.
Import ListNotations.
Open Scope N_scope.

Lemma table_ok_spec t : table_ok t = true ->
  forall b, 4 <= b < 256 -> nt4_of t b = digit_of_letter b.
Proof.
  unfold table_ok. intros H b Hb. apply andb_prop in H as [_ H].
  rewrite forallb_forall in H. apply N.eqb_eq. apply H.
  unfold brange. apply in_map_iff. exists (N.to_nat b). split; [lia|]. apply in_seq. lia.
Qed.

Theorem table_kmer_ok : table_ok table_kmer = true.
Proof. vm_compute. reflexivity. Qed.
Theorem table_minimiser_ok : table_ok table_minimiser = true.
Proof. vm_compute. reflexivity. Qed.
Theorem table_kmer_minimisers_ok : table_ok table_kmer_minimisers = true.
Proof. vm_compute. reflexivity. Qed.

Theorem rev_masks_ok : rev_mask_kmer = 3 /\ rev_mask_minimiser = 3 /\ rev_mask_kmer_minimisers = 3.
Proof. repeat split; reflexivity. Qed.

Theorem letters_ok : letters = [65; 67; 71; 84].
Proof. reflexivity. Qed.

