(* Facts about the data regenerated from the Rust sources; re-proved on every run
   by computation over the complete finite domain (256 byte values). *)
From Coq Require Import NArith List Lia Bool Arith.
From KT Require Import Gen.Generated Gen.Alphabet.
Import ListNotations.
Open Scope N_scope.

Lemma table_ok_spec t : table_ok t = true ->
  forall b, 4 <= b < 256 -> nt4_of t b = digit_of_letter b.
Proof.
  unfold table_ok. intros H b Hb. apply andb_prop in H as [_ H].
  rewrite forallb_forall in H. apply N.eqb_eq. apply H.
  unfold brange. apply in_map_iff. exists (N.to_nat b). split; [lia|]. apply in_seq. lia.
Qed.

Theorem table_kmer_ok : table_ok table_kmer = true.
Proof. vm_compute. reflexivity. Qed.
Theorem table_minimiser_ok : table_ok table_minimiser = true.
Proof. vm_compute. reflexivity. Qed.
Theorem table_kmer_minimisers_ok : table_ok table_kmer_minimisers = true.
Proof. vm_compute. reflexivity. Qed.

Theorem rev_masks_ok : rev_mask_kmer = 3 /\ rev_mask_minimiser = 3 /\ rev_mask_kmer_minimisers = 3.
Proof. repeat split; reflexivity. Qed.

Theorem letters_ok : letters = [65; 67; 71; 84].
Proof. reflexivity. Qed.


(* ---- CGR corner tables (two copies in the Rust) against the corners the property names ---- *)
From KT Require Import Model.Rows Model.Show.
From Coq Require Import String.
Definition corner_eqb (a b : option (bool * bool)) : bool :=
  match a, b with
  | None, None => true
  | Some (x, y), Some (x', y') => Bool.eqb x x' && Bool.eqb y y'
  | _, _ => false
  end.
Lemma corner_eqb_eq a b : corner_eqb a b = true -> a = b.
Proof.
  destruct a as [[x y]|], b as [[x' y']|]; cbn; try discriminate; try reflexivity.
  intros H. apply andb_prop in H as [H1 H2]. apply Bool.eqb_prop in H1, H2. now subst.
Qed.
Definition corners_ok (t : list (N * (bool * bool))) : bool :=
  forallb (fun b => corner_eqb (assoc b t) (corner_spec b)) (brange 0 256).
Lemma corners_ok_spec t : corners_ok t = true -> forall b, b < 256 -> assoc b t = corner_spec b.
Proof.
  unfold corners_ok. intros H b Hb. apply corner_eqb_eq. rewrite forallb_forall in H. apply H.
  unfold brange. apply in_map_iff. exists (N.to_nat b). split; [lia|]. apply in_seq. lia.
Qed.
(* the first byte on which a corner table deviates, for the failing-input search *)
Definition corners_first_bad (t : list (N * (bool * bool))) : option N :=
  find (fun b => negb (corner_eqb (assoc b t) (corner_spec b))) (brange 0 256).

Theorem cgr_corners_cgr_ok : corners_ok cgr_corners_cgr = true.
Proof. vm_compute. reflexivity. Qed.
Theorem cgr_corners_oligocgr_ok : corners_ok cgr_corners_oligocgr = true.
Proof. vm_compute. reflexivity. Qed.
Theorem cgr_centres_ok : cgr_centre_is_half_cgr = true /\ cgr_centre_is_half_oligocgr = true.
Proof. split; reflexivity. Qed.
Theorem number_sizes_ok : number_size_oligo = 8 /\ number_size_coverage = 8.
Proof. split; reflexivity. Qed.

(* ---- suffix table of SeqFormat::get = the documented suffixes ---- *)
Theorem suffixes_ok :
  suffixes_fastq = [[46; 102; 113]; [46; 102; 97; 115; 116; 113]] /\                     (* .fq .fastq *)
  suffixes_fasta = [[46; 102; 97; 115; 116; 97]; [46; 102; 97]; [46; 102; 110; 97]].    (* .fasta .fa .fna *)
Proof. split; reflexivity. Qed.

(* the inventory of unsafe constructs is checked in Gen/UnsafeFacts.v (core crates, C14) and Gen/UnsafePyFacts.v
   (bindings, C13), so that a new unsafe site is an obligation of those properties only *)
