(* Definitions about bytes that both the models and the generated-data facts use. No proofs here. *)
From Coq Require Import NArith List Bool Arith.
Import ListNotations.
Open Scope N_scope.

Definition nt4_of (t : list N) (b : N) : N := nth (N.to_nat b) t 4.

(* what the properties say about bytes: A/C/G/T/U in either case are bases 0..3 *)
Definition digit_of_letter (b : N) : N :=
  match b with
  | 65 | 97 => 0
  | 67 | 99 => 1
  | 71 | 103 => 2
  | 84 | 116 | 85 | 117 => 3
  | _ => 4
  end.

Definition brange (lo n : nat) : list N := map N.of_nat (seq lo n).

Definition table_ok (t : list N) : bool :=
  Nat.eqb (length t) 256 && forallb (fun b => N.eqb (nt4_of t b) (digit_of_letter b)) (brange 4 252).

(* the first byte on which a table deviates, for the failing-input search *)
Definition table_first_bad (t : list N) : option N :=
  find (fun b => negb (N.eqb (nt4_of t b) (digit_of_letter b))) (brange 4 252).
