(* One fact about the data regenerated from the Rust sources, in a file of its own: when it fails, only the
   properties that use it lose their proofs.  Re-proved on every run by computation. *)
From Coq Require Import NArith List Lia Bool Arith String.
From KT Require Import Gen.Generated Gen.Alphabet Model.Rows Model.Show.
Import ListNotations.
Open Scope N_scope.
From KT Require Import Gen.FactsBase.

Theorem table_kmer_minimisers_ok : table_ok table_kmer_minimisers = true.
Proof. vm_compute. reflexivity. Qed.
