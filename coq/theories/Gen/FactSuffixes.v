(* One fact about the data regenerated from the Rust sources, in a file of its own: when it fails, only the
   properties that use it lose their proofs.  Re-proved on every run by computation. *)
From Coq Require Import NArith List Lia Bool Arith String.
From KT Require Import Gen.Generated Gen.Alphabet Model.Rows Model.Show.
Import ListNotations.
Open Scope N_scope.
From KT Require Import Gen.FactsBase.

Theorem suffixes_ok :
  suffixes_fastq = [[46; 102; 113]; [46; 102; 97; 115; 116; 113]] /\                     (* .fq .fastq *)
  suffixes_fasta = [[46; 102; 97; 115; 116; 97]; [46; 102; 97]; [46; 102; 110; 97]].    (* .fasta .fa .fna *)
Proof. split; reflexivity. Qed.

