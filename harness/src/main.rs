//! Executes case lines on the implementation (the crates of /repo's working tree, built with
//! `--cfg kmertools_verif`).  Usage: kt_harness <cases-file> <out-file> <scratch-dir>
//! One result line per case line; the same case lines are given to the model extracted from Coq.
use kmer::kmer::KmerGenerator;
use kmer::kmer_minimisers::KmerMinimiserGenerator;
use kmer::minimiser::MinimiserGenerator;
use std::io::{BufRead, Write};

mod fileops;
mod sched;

pub fn hex(b: &[u8]) -> String {
    if b.is_empty() { "-".into() } else { b.iter().map(|x| format!("{:02x}", x)).collect() }
}
pub fn unhex(s: &str) -> Vec<u8> {
    if s == "-" { return vec![]; }
    (0..s.len() / 2).map(|i| u8::from_str_radix(&s[2 * i..2 * i + 2], 16).unwrap()).collect()
}
pub fn unhex_list(s: &str) -> Vec<Vec<u8>> {
    if s == "_" { return vec![]; }
    s.split(',').map(unhex).collect()
}

/// The items of an iterator are the same whichever part of the Iterator interface draws them: `make` builds a fresh
/// iterator, `all` is what one full pass with next() gave.  Probed: next() then a fold-based consumer for the rest,
/// nth / skip / last / count on fresh iterators.  Returns a description of the first disagreement.
fn protocol_probe<I, F>(make: F, all: &[I::Item]) -> Option<String>
where I: Iterator, I::Item: PartialEq + Clone + std::fmt::Debug, F: Fn() -> I {
    if all.len() > 3000 { return None; }
    let n = all.len();
    for j in [0usize, 1, 2, n / 2, n.saturating_sub(1)] {
        if j > n { continue; }
        // j items with next(), the rest through for_each (fold)
        let mut it = make(); let mut got = vec![];
        for _ in 0..j { if let Some(x) = it.next() { got.push(x); } }
        it.for_each(|x| got.push(x));           // by value: a `&mut` adaptor would not reach an overridden fold
        if got != all { return Some(format!("next x {} then for_each gives {} items, one pass gives {}", j, got.len(), n)); }
        let mut it = make(); let mut got = vec![];
        for _ in 0..j { if let Some(x) = it.next() { got.push(x); } }
        got.extend(it.by_ref());
        if got != all { return Some(format!("next x {} then extend gives {} items, one pass gives {}", j, got.len(), n)); }
        if it.next().is_some() { return Some("an item after the end".into()); }
        if j < n {
            let mut it = make();
            if it.nth(j).as_ref() != Some(&all[j]) { return Some(format!("nth({}) differs", j)); }
            if it.next().as_ref() != all.get(j + 1) { return Some(format!("next() after nth({}) differs", j)); }
            if make().skip(j).next().as_ref() != Some(&all[j]) { return Some(format!("skip({}) differs", j)); }
        }
    }
    if make().count() != n { return Some("count() differs".into()); }
    if make().last().as_ref() != all.last() { return Some("last() differs".into()); }
    let stepped: Vec<I::Item> = make().step_by(3).collect();
    if stepped != all.iter().step_by(3).cloned().collect::<Vec<_>>() { return Some("step_by(3) differs".into()); }
    None
}

fn run_kg(k: usize, s: &[u8]) -> String {
    let mut it = KmerGenerator::new(s, k);
    let all: Vec<(u64, u64)> = it.by_ref().collect();
    // exhausted iterators stay exhausted
    assert!(it.next().is_none());
    if let Some(e) = protocol_probe(|| KmerGenerator::new(s, k), &all) { return format!("PROTOCOL {}", e); }
    all.iter().map(|(f, r)| format!("{}:{}", f, r)).collect::<Vec<_>>().join(",")
}

fn run_mg(w: usize, m: usize, s: &[u8]) -> String {
    let mut it = MinimiserGenerator::new(s, w, m);
    let all: Vec<(u64, usize, usize)> = it.by_ref().collect();
    assert!(it.next().is_none());
    if let Some(e) = protocol_probe(|| MinimiserGenerator::new(s, w, m), &all) { return format!("PROTOCOL {}", e); }
    all.iter().map(|(x, a, b)| format!("{}:{}:{}", x, a, b)).collect::<Vec<_>>().join(",")
}

fn run_kmg(w: usize, m: usize, s: &[u8]) -> String {
    let mut it = KmerMinimiserGenerator::new(s, w, m);
    let all: Vec<(u64, usize, usize, Vec<u64>)> = it.by_ref().collect();
    assert!(it.next().is_none());
    if let Some(e) = protocol_probe(|| KmerMinimiserGenerator::new(s, w, m), &all) { return format!("PROTOCOL {}", e); }
    all.iter()
        .map(|(x, a, b, ks)| format!("{}:{}:{}={}", x, a, b, ks.iter().map(|k| k.to_string()).collect::<Vec<_>>().join("+")))
        .collect::<Vec<_>>()
        .join(",")
}

fn run_posmap(k: usize) -> String {
    let (pos_map, pos_kmer, count) = KmerGenerator::kmer_pos_maps(k);
    let mut vec = vec![];
    let mut ranks = vec![];
    for pos in 0..count {
        match pos_kmer.get(&pos) {
            Some(&x) => {
                vec.push(x.to_string());
                ranks.push(pos_map.get(x as usize).map(|p| p.to_string()).unwrap_or("?".into()));
            }
            None => { vec.push("?".into()); ranks.push("?".into()); }
        }
    }
    if pos_kmer.len() != count || pos_map.len() as u64 != 4u64.pow(k as u32) { return format!("BADSIZE {} {} {}", pos_kmer.len(), count, pos_map.len()); }
    format!("{}|{}|{}", count, vec.join(","), ranks.join(","))
}

fn run_header(k: usize) -> String {
    let c = composition::oligo::OligoComputer::new("/nonexistent.fa".into(), "/nonexistent.out".into(), k);
    c.verif_header().join(",")
}

/// Observational derivation of the lookup data (used by the translator when a source pattern no longer
/// matches, e.g. the table became a `match` or a const fn): each of the 256 byte values is put through the
/// public entry points.
fn observe(what: &str) -> String {
    let mut v: Vec<String> = vec![];
    for b in 0u16..256 {
        let b = b as u8;
        let x = match what {
            "nt4k" => KmerGenerator::new(&[b], 1).next().map(|(f, _)| f).unwrap_or(4),
            // canonical code of "A?" is the code of ?: rc("A?") = (3-?)*4+3 is never smaller
            "nt4m" => MinimiserGenerator::new(&[b'A', b], 2, 2).next().map(|(x, _, _)| x).unwrap_or(4),
            "nt4km" => KmerMinimiserGenerator::new(&[b'A', b], 2, 2).next().map(|(x, _, _, _)| x).unwrap_or(4),
            "cgr" => {
                let c = composition::cgr::CgrComputer::new("/nonexistent.fa".into(), "/nonexistent.out".into(), 1);
                match c.verif_vectorise_one(&[b]) {
                    // point = (corner + 0.5) / 2
                    Ok(p) if p.len() == 1 => (((2.0 * p[0].0 - 0.5) as u64) << 1) | ((2.0 * p[0].1 - 0.5) as u64),
                    _ => 4,
                }
            }
            _ => 4,
        };
        v.push(x.to_string());
    }
    v.join(",")
}

fn bits(v: &[f64]) -> String {
    v.iter().map(|x| x.to_bits().to_string()).collect::<Vec<_>>().join(",")
}

fn run_oligo(k: usize, norm: bool, s: &[u8]) -> String {
    let mut c = composition::oligo::OligoComputer::new("/nonexistent.fa".into(), "/nonexistent.out".into(), k);
    c.set_norm(norm);
    bits(&c.verif_vectorise_one(s))
}

fn run_covrow(k: usize, bs: usize, bc: usize, norm: bool, table: &str, s: &[u8]) -> String {
    let mut c = coverage::CovComputer::new("/nonexistent.fa".into(), "/nonexistent.dir".into(), k, bs, bc);
    c.set_norm(norm);
    let mut t = std::collections::HashMap::new();
    if table != "_" {
        for e in table.split(',') {
            let mut it = e.split(':');
            let x: u64 = it.next().unwrap().parse().unwrap();
            let n: u32 = it.next().unwrap().parse().unwrap();
            t.insert(x, n);
        }
    }
    bits(&c.verif_vectorise_one(s, &t))
}

fn run_cgr(size: usize, s: &[u8]) -> String {
    let c = composition::cgr::CgrComputer::new("/nonexistent.fa".into(), "/nonexistent.out".into(), size);
    match c.verif_vectorise_one(s) {
        Ok(p) => p.iter().map(|(x, y)| format!("{}:{}", x.to_bits(), y.to_bits())).collect::<Vec<_>>().join(","),
        Err(_) => "ERR".into(),
    }
}

fn run_ocgr(k: usize, size: usize, norm: bool, s: &[u8]) -> String {
    let mut c = composition::oligocgr::OligoCgrComputer::new("/nonexistent.fa".into(), "/nonexistent.out".into(), k, size);
    c.set_norm(norm);
    match c.verif_vectorise_one(s) {
        Ok(p) => p.iter().map(|((x, y), f)| format!("{}:{}:{}", x.to_bits(), y.to_bits(), f.to_bits())).collect::<Vec<_>>().join(","),
        Err(_) => "ERR".into(),
    }
}

fn exec(line: &str, scratch: &str) -> String {
    let p: Vec<&str> = line.split(' ').collect();
    match p[0] {
        "observe" => observe(p[1]),
        "kg" => run_kg(p[1].parse().unwrap(), &unhex(p[2])),
        "rc" => KmerGenerator::rev_comp(p[2].parse().unwrap(), p[1].parse().unwrap()).to_string(),
        "dec" => kmer::numeric_to_kmer(p[2].parse().unwrap(), p[1].parse().unwrap()),
        "posmap" => run_posmap(p[1].parse().unwrap()),
        "header" => run_header(p[1].parse().unwrap()),
        "mg" => run_mg(p[1].parse().unwrap(), p[2].parse().unwrap(), &unhex(p[3])),
        "oligo" => run_oligo(p[1].parse().unwrap(), p[2] == "1", &unhex(p[3])),
        "covrow" => run_covrow(p[1].parse().unwrap(), p[2].parse().unwrap(), p[3].parse().unwrap(), p[4] == "1", p[5], &unhex(p[6])),
        "cgr" => run_cgr(p[1].parse().unwrap(), &unhex(p[2])),
        "ocgr" => run_ocgr(p[1].parse().unwrap(), p[2].parse().unwrap(), p[3] == "1", &unhex(p[4])),
        "kmg" => run_kmg(p[1].parse().unwrap(), p[2].parse().unwrap(), &unhex(p[3])),
        _ => fileops::exec(&p, scratch),
    }
}

fn main() {
    let a: Vec<String> = std::env::args().collect();
    std::panic::set_hook(Box::new(|_| {}));
    let cases = std::io::BufReader::new(std::fs::File::open(&a[1]).unwrap());
    let mut out = std::io::BufWriter::new(std::fs::File::create(&a[2]).unwrap());
    let scratch = a[3].clone();
    std::fs::create_dir_all(&scratch).unwrap();
    for line in cases.lines() {
        let line = line.unwrap();
        let sc = scratch.clone();
        let l2 = line.clone();
        let res = std::panic::catch_unwind(move || exec(&l2, &sc));
        let res = match res {
            Ok(r) => r,
            Err(e) => {
                let msg = e.downcast_ref::<String>().cloned().or_else(|| e.downcast_ref::<&str>().map(|s| s.to_string())).unwrap_or_default();
                format!("PANIC {}", msg.replace('\n', " "))
            }
        };
        writeln!(out, "{}", res).unwrap();
    }
}
