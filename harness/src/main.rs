//! Runs the implementation on generated cases. Usage: kt_harness <prop> <seed> <n> <out-dir> [corpus files...]
use kmer::kmer::KmerGenerator;
use kmer::minimiser::MinimiserGenerator;
use std::io::Write;

struct Rng(u64);
impl Rng {
    fn next(&mut self) -> u64 {
        self.0 = self.0.wrapping_add(0x9E3779B97F4A7C15);
        let mut z = self.0;
        z = (z ^ (z >> 30)).wrapping_mul(0xBF58476D1CE4E5B9);
        z = (z ^ (z >> 27)).wrapping_mul(0x94D049BB133111EB);
        z ^ (z >> 31)
    }
    fn below(&mut self, n: u64) -> u64 { self.next() % n }
}

fn hex(b: &[u8]) -> String {
    if b.is_empty() { "-".into() } else { b.iter().map(|x| format!("{:02x}", x)).collect() }
}
fn unhex(s: &str) -> Vec<u8> {
    if s == "-" { return vec![]; }
    (0..s.len() / 2).map(|i| u8::from_str_radix(&s[2 * i..2 * i + 2], 16).unwrap()).collect()
}

/// structured sequence: mostly nucleotides, ambiguity rate drawn per case
fn gen_seq(r: &mut Rng, n: usize) -> Vec<u8> {
    let amb_pct = [0u64, 1, 5, 15][r.below(4) as usize];
    let alpha: &[u8] = match r.below(4) { 0 => b"AC", 1 => b"A", 2 => b"ACGT", _ => b"ACGTacgtUu" };
    (0..n).map(|_| {
        let x = r.below(100);
        if x >= amb_pct { alpha[r.below(alpha.len() as u64) as usize] }
        else if r.below(3) > 0 { b"NnRYKM-*."[r.below(9) as usize] }
        else { 4 + r.below(252) as u8 } // any byte except the unspecified 0..3
    }).collect()
}

fn run_kg(k: usize, s: &[u8]) -> String {
    let res = std::panic::catch_unwind(|| {
        let mut it = KmerGenerator::new(s, k);
        let v: Vec<String> = it.by_ref().map(|(f, r)| format!("{}:{}", f, r)).collect();
        // exhausted iterators stay exhausted
        assert!(it.next().is_none());
        v.join(",")
    });
    res.unwrap_or_else(|_| "PANIC".into())
}

fn run_mg(w: usize, m: usize, s: &[u8]) -> String {
    let res = std::panic::catch_unwind(|| {
        let mut it = MinimiserGenerator::new(s, w, m);
        let v: Vec<String> = it.by_ref().map(|(x, a, b)| format!("{}:{}:{}", x, a, b)).collect();
        assert!(it.next().is_none());
        v.join(",")
    });
    res.unwrap_or_else(|_| "PANIC".into())
}

/// low-complexity sequences that force ties between equal m-mers
fn gen_lowc(r: &mut Rng, n: usize) -> Vec<u8> {
    let period = 1 + r.below(6) as usize;
    let unit: Vec<u8> = (0..period).map(|_| b"ACGT"[r.below(4) as usize]).collect();
    (0..n).map(|i| if r.below(40) == 0 { b'N' } else if r.below(25) == 0 { b"ACGT"[r.below(4) as usize] } else { unit[i % period] }).collect()
}

fn main() {
    let a: Vec<String> = std::env::args().collect();
    let (prop, seed, n, dir) = (&a[1], a[2].parse::<u64>().unwrap(), a[3].parse::<usize>().unwrap(), &a[4]);
    std::panic::set_hook(Box::new(|_| {}));
    let mut cases = std::io::BufWriter::new(std::fs::File::create(format!("{}/cases.txt", dir)).unwrap());
    let mut out = std::io::BufWriter::new(std::fs::File::create(format!("{}/impl.txt", dir)).unwrap());
    let mut nonempty = 0usize;
    let mut emit = |line: String, res: String, cases: &mut dyn Write, out: &mut dyn Write| {
        if !res.is_empty() { nonempty += 1; }
        writeln!(cases, "{}", line).unwrap();
        writeln!(out, "{}", res).unwrap();
    };
    match prop.as_str() {
        "C01" => {
            // corpus first
            for f in &a[5..] {
                for line in std::fs::read_to_string(f).unwrap().lines() {
                    let p: Vec<&str> = line.split(' ').collect();
                    if p.len() == 3 && p[0] == "kg" {
                        let res = run_kg(p[1].parse().unwrap(), &unhex(p[2]));
                        emit(line.to_string(), res, &mut cases, &mut out);
                    }
                }
            }
            // exhaustive alphabet sweep: every specified byte alone (k=1) and inside a clean context (k=2)
            if n > 0 {
                for b in 4u16..256 {
                    let b = b as u8;
                    let res = run_kg(1, &[b]);
                    emit(format!("kg 1 {}", hex(&[b])), res, &mut cases, &mut out);
                    let s = [b'A', b'C', b, b'G', b'T'];
                    let res = run_kg(2, &s);
                    emit(format!("kg 2 {}", hex(&s)), res, &mut cases, &mut out);
                }
            }
            let mut r = Rng(seed);
            for _ in 0..n {
                let k = match r.below(4) { 0 => [1usize, 15, 16, 17, 30, 31][r.below(6) as usize], _ => 1 + r.below(31) as usize };
                let len = match r.below(7) { 0 => 0, 1 => k - 1, 2 => k, 3 => k + 1, 4 => 2 * k, 5 => 3 * k + 1, _ => r.below(300) as usize };
                let s = gen_seq(&mut r, len);
                let res = run_kg(k, &s);
                emit(format!("kg {} {}", k, hex(&s)), res, &mut cases, &mut out);
            }
        }
        "C09" => {
            for f in &a[5..] {
                for line in std::fs::read_to_string(f).unwrap().lines() {
                    let p: Vec<&str> = line.split(' ').collect();
                    if p.len() == 4 && p[0] == "mg" {
                        let res = run_mg(p[1].parse().unwrap(), p[2].parse().unwrap(), &unhex(p[3]));
                        emit(line.to_string(), res, &mut cases, &mut out);
                    }
                }
            }
            let mut r = Rng(seed);
            for _ in 0..n {
                let m = match r.below(3) { 0 => 1 + r.below(4) as usize, _ => 1 + r.below(31) as usize };
                let w = m + match r.below(4) { 0 => 0, 1 => r.below(4) as usize, _ => r.below(60) as usize };
                let len = match r.below(8) { 0 => 0, 1 => m, 2 => w - 1, 3 => w, 4 => w + 1, 5 => 2 * w + 3, _ => r.below(400) as usize };
                let s = if r.below(2) == 0 { gen_lowc(&mut r, len) } else { gen_seq(&mut r, len) };
                let res = run_mg(w, m, &s);
                emit(format!("mg {} {} {}", w, m, hex(&s)), res, &mut cases, &mut out);
            }
        }
        _ => panic!("unknown property"),
    }
    drop(emit);
    println!("{{\"nonempty\": {}}}", nonempty);
}
