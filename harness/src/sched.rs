//! Schedule replay through the cfg(kmertools_verif) hooks: a schedule (list of worker ids) is imposed on the
//! real worker threads at the hook points; the logged order of atomic actions is returned as a trace and
//! compared with the trace of the Coq schedule model on the same schedule.
use crate::fileops::serialise;
use crate::{hex, unhex, unhex_list};
use ktio::verif::{self, Ev};

fn fresh(scratch: &str) -> String {
    let d = format!("{}/case", scratch);
    let _ = std::fs::remove_dir_all(&d);
    std::fs::create_dir_all(&d).unwrap();
    d
}

fn parse_sched(s: &str) -> Vec<usize> {
    if s == "_" { vec![] } else { s.split(',').map(|x| x.parse().unwrap()).collect() }
}

pub fn exec(p: &[&str], scratch: &str) -> String {
    match p[0] {
        "osched" => {
            // osched k hdr delim W sched recs
            let d = fresh(scratch);
            let recs = unhex_list(p[6]);
            let inp = serialise(&recs, "fa", 0, &d, "in");
            let out = format!("{}/out.vec", d);
            let w: usize = p[4].parse().unwrap();
            let mut c = composition::oligo::OligoComputer::new(inp, out.clone(), p[1].parse().unwrap());
            c.set_threads(w);
            c.set_header(p[2] == "1");
            c.set_delim(String::from_utf8(unhex(p[3])).unwrap());
            verif::take_log();
            verif::set_logging(true);
            verif::set_schedule(w, parse_sched(p[5]));
            let r = c.verif_vectorise_mmap();
            verif::clear_schedule();
            verif::set_logging(false);
            let log = verif::take_log();
            if let Err(e) = r { return format!("ERR {}", e); }
            let mut held: Vec<Option<i64>> = vec![None; w];
            let mut tr: Vec<String> = vec![];
            let mut layout = "";
            let hdr_len = if p[2] == "1" { std::fs::read(&out).map(|b| b.iter().position(|&x| x == b'\n').map(|i| i + 1).unwrap_or(0)).unwrap_or(0) } else { 0 };
            // execution is serialised by the scheduler: a write_at is logged between the grant of a "write"
            // point and the same worker's arrival at its next "take" point
            let mut last_write: Option<(usize, usize)> = None;
            let mut first_write = true;
            for e in &log {
                match e {
                    Ev::Sched { worker, point, arg } => match *point {
                        "write" => { tr.push(format!("{}:t{}", worker, arg)); held[*worker] = Some(*arg); }
                        "take" => {
                            if let Some(n) = held[*worker].take() {
                                tr.push(format!("{}:w{}", worker, n));
                                match last_write.take() {
                                    Some((pos, len)) => { if pos != hdr_len + len * (n as usize) { layout = "|row-at-wrong-offset"; } }
                                    None => { layout = "|row-not-written"; }
                                }
                            }
                        }
                        "exit" => { tr.push(format!("{}:x", worker)); }
                        _ => {}
                    },
                    Ev::Write { pos, len, cap } => {
                        if pos + len > *cap { layout = "|write-out-of-bounds"; }
                        if p[2] == "1" && first_write { first_write = false; if *pos != 0 || *len != hdr_len { layout = "|header-misplaced"; } continue; }
                        first_write = false;
                        last_write = Some((*pos, *len));
                    }
                    _ => {}
                }
            }
            format!("{}|{}{}", tr.join(","), hex(&std::fs::read(&out).unwrap()), layout)
        }
        "csched" => {
            // csched k W limit sched recs : chunked counting under a schedule.  limit = the number the workers compare
            // total_kmers_so_far with; the memory ceiling is chosen so that (1e9 * mem / 8) as u64 == limit.
            let d = fresh(scratch);
            let recs = unhex_list(p[5]);
            let inp = serialise(&recs, "fa", 0, &d, "in");
            let od = format!("{}/out", d); std::fs::create_dir_all(&od).unwrap();
            let w: usize = p[2].parse().unwrap();
            let limit: u64 = p[3].parse().unwrap();
            let mem = 8.0 * (limit as f64 + 0.5) / 1_000_000_000_f64;
            if (1_000_000_000_f64 * mem / 8.0) as u64 != limit { return "BAD-LIMIT".into(); }
            let mut c = counter::CountComputer::new(inp, od.clone(), p[1].parse().unwrap());
            c.set_threads(w);
            c.set_max_memory(mem);
            verif::take_log();
            verif::set_logging(true);
            verif::set_schedule(w, parse_sched(p[4]));
            c.count();
            verif::clear_schedule();
            verif::set_logging(false);
            let log = verif::take_log();
            // trace: the arrival of a worker at a point tells how its previous action ended
            let mut at: Vec<&str> = vec!["start"; w];
            let mut arg_at: Vec<i64> = vec![0; w];
            let mut holding: Vec<Option<usize>> = vec![None; w];
            let mut taken = 0usize;
            let mut tr: Vec<String> = vec![];
            let mut note = "";
            for e in &log {
                if let Ev::Sched { worker, point, arg } = e {
                    let i = *worker;
                    match (at[i], *point) {
                        ("check", "take") => tr.push(format!("{}:c+", i)),
                        ("check", "exit") => tr.push(format!("{}:c-", i)),
                        ("take", "exit") => tr.push(format!("{}:t-", i)),
                        ("take", "inc") | ("take", "add") => { tr.push(format!("{}:t{}", i, taken)); holding[i] = Some(taken); taken += 1; }
                        ("inc", "inc") | ("inc", "add") => tr.push(format!("{}:i{}", i, arg_at[i])),
                        ("add", "check") => { tr.push(format!("{}:a", i)); holding[i] = None; }
                        _ => {}
                    }
                    if *point == "add" { if holding[i] != Some(*arg as usize) { note = "|records-not-taken-in-order"; } }
                    if *point == "start" || *point == "exit" { at[i] = "start"; } else { at[i] = point; }
                    if *point == "exit" { at[i] = "start"; }
                    arg_at[i] = *arg;
                }
            }
            let (chunks, parts) = c.verif_chunks_parts();
            let mut bags: Vec<String> = vec![];
            for ch in 0..chunks {
                let mut m: std::collections::BTreeMap<u64, u64> = std::collections::BTreeMap::new();
                for pt in 0..parts {
                    let f = format!("{}/temp_kmers.part_{}_chunk_{}", od, pt, ch);
                    for l in String::from_utf8_lossy(&std::fs::read(&f).unwrap_or_default()).lines() {
                        let mut it = l.split('\t');
                        let k: u64 = it.next().unwrap_or("0").parse().unwrap_or(0);
                        let v: u64 = it.next().unwrap_or("0").parse().unwrap_or(0);
                        *m.entry(k).or_insert(0) += v;
                    }
                }
                bags.push(m.iter().map(|(k, v)| format!("{}:{}", k, v)).collect::<Vec<_>>().join(","));
            }
            format!("{}|{}{}", tr.join(","), bags.join(";"), note)
        }
        "msched" => {
            // msched mode w m W sched recs : the two minimiser output loops under a schedule
            let d = fresh(scratch);
            let recs = unhex_list(p[6]);
            let inp = serialise(&recs, "fa", 0, &d, "in");
            let out = format!("{}/out.min", d);
            let (w, m, workers): (usize, usize, usize) = (p[2].parse().unwrap(), p[3].parse().unwrap(), p[4].parse().unwrap());
            verif::take_log();
            verif::set_logging(true);
            verif::set_schedule(workers, parse_sched(p[5]));
            if p[1] == "s2m" { misc::minimisers::seq_to_min(w, m, &inp, &out, workers); } else { misc::minimisers::bin_sequences(w, m, &inp, &out, workers); }
            verif::clear_schedule();
            verif::set_logging(false);
            let log = verif::take_log();
            let mut at: Vec<&str> = vec!["start"; workers];
            let mut taken = 0usize;
            let mut tr: Vec<String> = vec![];
            for e in &log {
                if let Ev::Sched { worker, point, .. } = e {
                    let i = *worker;
                    match (at[i], *point) {
                        ("take", "exit") => tr.push(format!("{}:t-", i)),
                        ("take", "push") | ("take", "write") | ("take", "take") => { tr.push(format!("{}:t{}", i, taken)); taken += 1; }
                        ("push", _) | ("write", _) => tr.push(format!("{}:p", i)),
                        _ => {}
                    }
                    at[i] = if *point == "exit" { "start" } else { point };
                }
            }
            let text = String::from_utf8_lossy(&std::fs::read(&out).unwrap_or_default()).to_string();
            format!("{}|{}", tr.join(","), crate::fileops::canon_min(p[1] == "s2m", &text))
        }
        "hooks" => {
            // hooks <inner file-level op ...>: run the inner op with the event log on; every logged unchecked index
            // must lie inside its buffer, every mapped write inside the mapping, and the mapped rows must tile the
            // file exactly (no gap, no overlap, no byte unwritten)
            verif::take_log();
            verif::set_logging(true);
            crate::fileops::PLAIN.store(true, std::sync::atomic::Ordering::SeqCst);
            let inner = crate::fileops::exec(&p[1..], scratch);
            crate::fileops::PLAIN.store(false, std::sync::atomic::Ordering::SeqCst);
            verif::set_logging(false);
            let log = verif::take_log();
            if inner.starts_with("ERR") || inner.starts_with("UNKNOWN") { return format!("INNER {}", inner); }
            let mut index = 0usize;
            let mut writes: Vec<(usize, usize, usize)> = vec![];
            for e in &log {
                match e {
                    Ev::Index { site, idx, len } => { index += 1; if idx >= len { return format!("OOB index site={} idx={} len={}", site, idx, len); } }
                    Ev::Write { pos, len, cap } => { if pos + len > *cap { return format!("OOB write pos={} len={} cap={}", pos, len, cap); } writes.push((*pos, *len, *cap)); }
                    _ => {}
                }
            }
            let mut tiled = 1;
            if !writes.is_empty() {
                let cap = writes[0].2;
                writes.sort();
                let mut at = 0usize;
                for (pos, len, _) in &writes { if *pos != at { tiled = 0; } at = pos + len; }
                if at != cap { tiled = 0; }
                // the mapped file itself: every byte written (no NUL left)
                if p[1] == "ofile" { if let Ok(b) = std::fs::read(format!("{}/case/out.vec", scratch)) { if b.contains(&0u8) || b.len() != cap { tiled = 0; } } }
            }
            // the mapped oligo writer: the (offset, length) of every write_at, in offset order, against the model's layout
            if p[1] == "ofile" {
                let lay: Vec<String> = writes.iter().map(|(pos, len, _)| format!("{}:{}", pos, len)).collect();
                return format!("oob=0|tiled={}|writes={}|index={}|layout={}", tiled, writes.len(), index, lay.join(","));
            }
            format!("oob=0|tiled={}|writes={}|index={}", tiled, writes.len(), index)
        }
        _ => format!("UNKNOWN-OP {}", p[0]),
    }
}
