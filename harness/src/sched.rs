//! Schedule replay through the cfg(kmertools_verif) hooks: a schedule (list of worker ids) is imposed on the
//! real worker threads at the hook points; the logged order of atomic actions is returned as a trace and
//! compared with the trace of the Coq schedule model on the same schedule.
use crate::fileops::serialise;
use crate::{hex, unhex, unhex_list};
use ktio::verif::{self, Ev};

fn fresh(scratch: &str) -> String {
    let d = format!("{}/case", scratch);
    let _ = std::fs::remove_dir_all(&d);
    std::fs::create_dir_all(&d).unwrap();
    d
}

fn parse_sched(s: &str) -> Vec<usize> {
    if s == "_" { vec![] } else { s.split(',').map(|x| x.parse().unwrap()).collect() }
}

pub fn exec(p: &[&str], scratch: &str) -> String {
    match p[0] {
        "osched" => {
            // osched k hdr delim W sched recs
            let d = fresh(scratch);
            let recs = unhex_list(p[6]);
            let inp = serialise(&recs, "fa", 0, &d, "in");
            let out = format!("{}/out.vec", d);
            let w: usize = p[4].parse().unwrap();
            let mut c = composition::oligo::OligoComputer::new(inp, out.clone(), p[1].parse().unwrap());
            c.set_threads(w);
            c.set_header(p[2] == "1");
            c.set_delim(String::from_utf8(unhex(p[3])).unwrap());
            verif::take_log();
            verif::set_logging(true);
            verif::set_schedule(w, parse_sched(p[5]));
            let r = c.verif_vectorise_mmap();
            verif::clear_schedule();
            verif::set_logging(false);
            let log = verif::take_log();
            if let Err(e) = r { return format!("ERR {}", e); }
            let mut held: Vec<Option<i64>> = vec![None; w];
            let mut tr: Vec<String> = vec![];
            let mut layout = "";
            let hdr_len = if p[2] == "1" { std::fs::read(&out).map(|b| b.iter().position(|&x| x == b'\n').map(|i| i + 1).unwrap_or(0)).unwrap_or(0) } else { 0 };
            // execution is serialised by the scheduler: a write_at is logged between the grant of a "write"
            // point and the same worker's arrival at its next "take" point
            let mut last_write: Option<(usize, usize)> = None;
            let mut first_write = true;
            for e in &log {
                match e {
                    Ev::Sched { worker, point, arg } => match *point {
                        "write" => { tr.push(format!("{}:t{}", worker, arg)); held[*worker] = Some(*arg); }
                        "take" => {
                            if let Some(n) = held[*worker].take() {
                                tr.push(format!("{}:w{}", worker, n));
                                match last_write.take() {
                                    Some((pos, len)) => { if pos != hdr_len + len * (n as usize) { layout = "|row-at-wrong-offset"; } }
                                    None => { layout = "|row-not-written"; }
                                }
                            }
                        }
                        "exit" => { tr.push(format!("{}:x", worker)); }
                        _ => {}
                    },
                    Ev::Write { pos, len, cap } => {
                        if pos + len > *cap { layout = "|write-out-of-bounds"; }
                        if p[2] == "1" && first_write { first_write = false; if *pos != 0 || *len != hdr_len { layout = "|header-misplaced"; } continue; }
                        first_write = false;
                        last_write = Some((*pos, *len));
                    }
                    _ => {}
                }
            }
            format!("{}|{}{}", tr.join(","), hex(&std::fs::read(&out).unwrap()), layout)
        }
        "hooks" => {
            // hooks <inner file-level op ...>: run the inner op with the event log on; every logged unchecked index
            // must lie inside its buffer, every mapped write inside the mapping, and the mapped rows must tile the
            // file exactly (no gap, no overlap, no byte unwritten)
            verif::take_log();
            verif::set_logging(true);
            let inner = crate::fileops::exec(&p[1..], scratch);
            verif::set_logging(false);
            let log = verif::take_log();
            if inner.starts_with("ERR") || inner.starts_with("UNKNOWN") { return format!("INNER {}", inner); }
            let mut index = 0usize;
            let mut writes: Vec<(usize, usize, usize)> = vec![];
            for e in &log {
                match e {
                    Ev::Index { site, idx, len } => { index += 1; if idx >= len { return format!("OOB index site={} idx={} len={}", site, idx, len); } }
                    Ev::Write { pos, len, cap } => { if pos + len > *cap { return format!("OOB write pos={} len={} cap={}", pos, len, cap); } writes.push((*pos, *len, *cap)); }
                    _ => {}
                }
            }
            let mut tiled = 1;
            if !writes.is_empty() {
                let cap = writes[0].2;
                writes.sort();
                let mut at = 0usize;
                for (pos, len, _) in &writes { if *pos != at { tiled = 0; } at = pos + len; }
                if at != cap { tiled = 0; }
                // the mapped file itself: every byte written (no NUL left)
                if p[1] == "ofile" { if let Ok(b) = std::fs::read(format!("{}/case/out.vec", scratch)) { if b.contains(&0u8) || b.len() != cap { tiled = 0; } } }
            }
            format!("oob=0|tiled={}|writes={}|index={}", tiled, writes.len(), index)
        }
        _ => format!("UNKNOWN-OP {}", p[0]),
    }
}
