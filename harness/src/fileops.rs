//! File-level operations: the harness serialises the records of a case into the requested container,
//! runs the library routine on that file and returns the output in canonical form.
use crate::{hex, unhex, unhex_list};
use flate2::write::GzEncoder;
use flate2::Compression;
use std::io::Write;

fn gz(parts: &[Vec<u8>], level: Compression) -> Vec<u8> {
    let mut out = vec![];
    for p in parts {
        let mut e = GzEncoder::new(Vec::new(), level);
        e.write_all(p).unwrap();
        out.extend(e.finish().unwrap());
    }
    out
}

/// text of one record in FASTA (wrap = 0: single line) or FASTQ
fn record_text(i: usize, seq: &[u8], fastq: bool, wrap: usize, eol: &str) -> Vec<u8> {
    let mut t = vec![];
    let desc = if i % 3 == 1 { " some description" } else { "" };
    if fastq {
        t.extend(format!("@r{}{}{}", i, desc, eol).bytes());
        t.extend(seq); t.extend(eol.bytes());
        t.extend(format!("+{}", eol).bytes());
        // quality lines may start with '@' or '+' (Illumina's @@@FFFFF...), which must not be taken for record markers
        let first = [b'I', b'@', b'+', b'F'][i % 4];
        t.extend(std::iter::once(first).chain(std::iter::repeat(b'I')).take(seq.len())); t.extend(eol.bytes());
    } else {
        t.extend(format!(">r{}{}{}", i, desc, eol).bytes());
        if wrap == 0 { t.extend(seq); t.extend(eol.bytes()); }
        else { for c in seq.chunks(wrap) { t.extend(c); t.extend(eol.bytes()); } }
    }
    t
}

/// container: fa | faw (wrapped) | facrlf | fq | fagz | fqgz | fagzm (several members) | fagz0 (stored)
pub fn serialise(recs: &[Vec<u8>], container: &str, wrap: usize, dir: &str, stem: &str) -> String {
    let fastq = container.starts_with("fq");
    let eol = if container == "facrlf" { "\r\n" } else { "\n" };
    let w = if container == "faw" || container == "facrlf" { wrap.max(1) } else { 0 };
    let texts: Vec<Vec<u8>> = recs.iter().enumerate().map(|(i, s)| record_text(i, s, fastq, w, eol)).collect();
    // "fadup": every record is in the file twice, under the same id (mates with the suffix stripped, a read listed twice)
    let texts: Vec<Vec<u8>> = if container == "fadup" { texts.into_iter().flat_map(|t| [t.clone(), t]).collect() } else { texts };
    let ext = if fastq { "fq" } else if container == "faw" { "fasta" } else if container == "facrlf" { "fna" } else { "fa" };
    let (bytes, name) = match container {
        "fagz" | "fqgz" => (gz(&[texts.concat()], Compression::default()), format!("{}.{}.gz", stem, ext)),
        "fagz0" => (gz(&[texts.concat()], Compression::none()), format!("{}.{}.gz", stem, ext)),
        "fagzm" | "fqgzm" => {
            // one member per 1..3 records, plus an empty final member as bgzip writes; "fqgzm": FASTQ, and an empty
            // member after every member (bgzip files joined with cat: each ends with its empty EOF block)
            let mut parts: Vec<Vec<u8>> = vec![];
            for (i, t) in texts.iter().enumerate() {
                if i % 3 == 0 || parts.is_empty() {
                    if container == "fqgzm" && !parts.is_empty() { parts.push(vec![]); }
                    parts.push(vec![]);
                }
                parts.last_mut().unwrap().extend(t);
            }
            parts.push(vec![]);
            (gz(&parts, Compression::default()), format!("{}.{}.gz", stem, ext))
        }
        "fagza" | "fagzb" | "fagzc" | "fagzd" => {
            // two stored members; the first is padded (in a FASTA description, which no consumer looks at) so that the
            // second member starts at a chosen offset relative to a 64 KiB boundary of the compressed file (hence also
            // relative to every smaller power-of-two block): a = one byte before (the magic straddles the boundary),
            // b = exactly on it, c / d = two / three bytes before (magic, or magic and method, in the earlier block)
            let rem: usize = match container { "fagza" => 65535, "fagzb" => 0, "fagzc" => 65534, _ => 65533 };
            let half = texts.len() / 2;
            let second: Vec<u8> = texts[half..].concat();
            let build = |pad: usize| -> Vec<u8> {
                let mut t = format!(">r0 {}\n", "p".repeat(pad)).into_bytes();
                t.extend(&texts[0][texts[0].iter().position(|&b| b == b'\n').unwrap() + 1..]);
                for x in &texts[1..half] { t.extend(x); }
                t
            };
            let mut first: Vec<u8> = texts[..half].concat();
            if half > 0 {
                let mut pad = 0usize;
                'search: for _ in 0..8 {
                    let len = gz(&[build(pad)], Compression::none()).len();
                    let want = (rem + 65536 - (len % 65536)) % 65536;
                    if want == 0 { first = build(pad); break; }
                    // a longer text may need one more stored block (5 bytes of block header): try those too
                    for j in 0..4usize {
                        if want < 5 * j { continue; }
                        let cand = pad + want - 5 * j;
                        if gz(&[build(cand)], Compression::none()).len() % 65536 == rem { first = build(cand); break 'search; }
                    }
                    pad += want;
                }
            }
            (gz(&[first, second], Compression::none()), format!("{}.{}.gz", stem, ext))
        }
        _ => (texts.concat(), format!("{}.{}", stem, ext)),
    };
    let path = format!("{}/{}", dir, name);
    std::fs::write(&path, bytes).unwrap();
    path
}

pub fn fresh(scratch: &str) -> String {
    let d = format!("{}/case", scratch);
    let _ = std::fs::remove_dir_all(&d);
    std::fs::create_dir_all(&d).unwrap();
    d
}

fn parse_points(text: &str, arity: usize) -> String {
    // rows "(a,b) (a,b)\n" or "(a,b,c) ..."; numbers are parsed back and printed as bit patterns
    let mut rows = vec![];
    for line in text.split('\n') {
        let mut items = vec![];
        for it in line.split(' ').filter(|x| !x.is_empty()) {
            let inner = it.trim_start_matches('(').trim_end_matches(')');
            let nums: Vec<String> = inner.split(',').map(|x| x.parse::<f64>().map(|v| v.to_bits().to_string()).unwrap_or("?".into())).collect();
            if nums.len() != arity { items.push("?".into()); } else { items.push(nums.join(":")); }
        }
        rows.push(items.join(","));
    }
    if text.ends_with('\n') { rows.pop(); } else if !text.is_empty() { rows.push("NO-FINAL-NEWLINE".into()); }
    if text.is_empty() { rows.clear(); }
    format!("{}#{}", rows.len(), rows.join(";"))
}

/// whole-sequence CGR refused the input: whatever it left in the output file must be complete rows of records in
/// front of the first record with a non-nucleotide byte (row i with one point per base of record i) - a rejected
/// record never yields coordinates
fn refusal(out_path: &str, recs: &[Vec<u8>]) -> String {
    let ok = |b: u8| b"ACGTUacgtu".contains(&b);
    let first_bad = recs.iter().position(|r| r.iter().any(|&b| !ok(b))).unwrap_or(recs.len());
    let text = String::from_utf8_lossy(&std::fs::read(out_path).unwrap_or_default()).to_string();
    if text.is_empty() { return "ERR".into(); }
    if !text.ends_with('\n') { return "ERR-LEAK unterminated row in the output of a refused run".into(); }
    let rows: Vec<&str> = text[..text.len() - 1].split('\n').collect();
    if rows.len() > first_bad { return format!("ERR-LEAK {} rows, the record at index {} is rejected", rows.len(), first_bad); }
    for (i, row) in rows.iter().enumerate() {
        let n = row.split(' ').filter(|x| !x.is_empty()).count();
        if n != recs[i].len() { return format!("ERR-LEAK row {} has {} points, record has {} bases", i, n, recs[i].len()); }
    }
    "ERR".into()
}

fn leftover(dir: &str) -> String {
    let n = std::fs::read_dir(dir).unwrap().filter(|e| e.as_ref().unwrap().file_name().to_string_lossy().starts_with("temp_kmers")).count();
    if n == 0 { "".into() } else { format!("|leftover={}", n) }
}


/// canonical listing of the counter's output directory: temp files by (partition, chunk), then the counts table,
/// then the vectors file (presence only), then anything else by name
fn dir_listing(dir: &str) -> String {
    fn table(bytes: &[u8]) -> String {
        let mut m: std::collections::BTreeMap<u64, u64> = std::collections::BTreeMap::new();
        for l in String::from_utf8_lossy(bytes).lines() {
            if l.is_empty() { continue; }
            let mut it = l.split('\t');
            match (it.next().and_then(|x| x.parse::<u64>().ok()), it.next().and_then(|x| x.parse::<u64>().ok())) {
                (Some(k), Some(v)) => { *m.entry(k).or_insert(0) += v; }
                _ => return format!("RAW{}", hex(bytes)),
            }
        }
        m.iter().map(|(k, v)| format!("{}:{}", k, v)).collect::<Vec<_>>().join(",")
    }
    let mut temps: Vec<(u64, u64, String)> = vec![];
    let mut counts: Option<String> = None; let mut vectors: Option<String> = None; let mut other: Vec<String> = vec![];
    for e in std::fs::read_dir(dir).unwrap() {
        let e = e.unwrap(); let name = e.file_name().to_string_lossy().to_string();
        let bytes = std::fs::read(e.path()).unwrap_or_default();
        if let Some(rest) = name.strip_prefix("temp_kmers.part_") {
            let mut it = rest.split("_chunk_");
            match (it.next().and_then(|x| x.parse::<u64>().ok()), it.next().and_then(|x| x.parse::<u64>().ok())) {
                (Some(p), Some(c)) => temps.push((p, c, table(&bytes))),
                _ => other.push(name),
            }
        } else if name == "kmers.counts" { counts = Some(table(&bytes)); }
        else if name == "kmers.vectors" { vectors = Some(hex(&bytes)); }
        else { other.push(name); }
    }
    temps.sort(); other.sort();
    let mut items: Vec<String> = temps.iter().map(|(p, c, t)| format!("t{}.{}={}", p, c, t)).collect();
    if let Some(t) = counts { items.push(format!("counts={}", t)); }
    if let Some(v) = vectors { items.push(format!("vectors={}", v)); }
    for o in other { items.push(format!("other:{}", o)); }
    items.join(";")
}


/// the records of a reader are the same - numbering included - whichever part of the Iterator interface draws them
fn reader_probe(path: &str, format: ktio::seq::SeqFormat, items: &[String], show: &dyn Fn(&ktio::seq::Sequence) -> String) -> Option<String> {
    if items.len() > 2000 { return None; }
    let open = || ktio::seq::Sequences::new(format, ktio::seq::get_reader(path).unwrap()).unwrap();
    let n = items.len();
    for j in [0usize, 1, 2, n / 2, n.saturating_sub(1)] {
        if j >= n { continue; }
        let mut it = open();
        if it.nth(j).as_ref().map(|r| show(r)).as_ref() != Some(&items[j]) { return Some(format!("nth({}) differs", j)); }
        if it.next().as_ref().map(|r| show(r)).as_ref() != items.get(j + 1) { return Some(format!("next() after nth({}) differs", j)); }
        let mut it = open(); let mut got = vec![];
        for _ in 0..j { if let Some(x) = it.next() { got.push(show(&x)); } }
        it.for_each(|x| got.push(show(&x)));
        if got != items { return Some(format!("next x {} then for_each differs", j)); }
        if open().skip(j).next().as_ref().map(|r| show(r)).as_ref() != Some(&items[j]) { return Some(format!("skip({}) differs", j)); }
    }
    // count() is deliberately unimplemented for this reader (the project says so in the code): not probed
    if open().last().as_ref().map(|r| show(r)) != items.last().cloned() { return Some("last() differs".into()); }
    None
}

/// how the calls on the object under test are varied for this case (setter order, repeated setters, a second run);
/// under `hooks` the event log describes exactly one run, so the plain form is used there
pub static PLAIN: std::sync::atomic::AtomicBool = std::sync::atomic::AtomicBool::new(false);
fn variant_of(p: &[&str], n: usize) -> usize {
    if PLAIN.load(std::sync::atomic::Ordering::SeqCst) { 0 } else { p.iter().map(|x| x.len()).sum::<usize>() % n }
}

fn plant_stale(od: &str) {
    for part in 0..20 { for chunk in 0..4 {
        std::fs::write(format!("{}/temp_kmers.part_{}_chunk_{}", od, part, chunk), format!("{}\t7\n{}\t3\n", part, part + 100)).unwrap();
    } }
    std::fs::write(format!("{}/kmers.counts", od), "1\t1\n2\t2\n").unwrap();
    std::fs::write(format!("{}/kmers.vectors", od), "stale").unwrap();
}

fn canon_counts(acgt: bool, text: &str) -> String {
    let mut lines: Vec<(String, String)> = text.lines().map(|l| { let mut it = l.split('\t'); (it.next().unwrap_or("?").to_string(), it.next().unwrap_or("?").to_string()) }).collect();
    if acgt { lines.sort(); } else { lines.sort_by_key(|(k, c)| (k.parse::<u64>().unwrap_or(u64::MAX), c.clone())); }
    lines.iter().map(|(k, c)| format!("{}:{}", k, c)).collect::<Vec<_>>().join(",")
}

/// canonical minimiser output of a file in which every record stands twice under the same id: every s2m line and
/// every m2s entry must be there exactly twice; returns the output of the file with each record once
fn halve_pairs(s2m: bool, canon: &str) -> String {
    fn halve(items: Vec<&str>) -> Option<Vec<String>> {
        if items.len() % 2 != 0 { return None; }
        let mut out = vec![];
        for pair in items.chunks(2) { if pair[0] != pair[1] { return None; } out.push(pair[0].to_string()); }
        Some(out)
    }
    if canon.is_empty() { return String::new(); }
    if s2m {
        match halve(canon.split(';').collect()) { Some(v) => v.join(";"), None => format!("NOT-TWICE {}", canon) }
    } else {
        let mut lines = vec![];
        for l in canon.split(';') {
            let (key, es) = l.split_once('=').unwrap_or((l, ""));
            match halve(if es.is_empty() { vec![] } else { es.split('+').collect() }) {
                Some(v) => lines.push(format!("{}={}", key, v.join("+"))),
                None => return format!("NOT-TWICE {}", l),
            }
        }
        lines.join(";")
    }
}

pub fn canon_min(s2m: bool, text: &str) -> String {
    if s2m {
                // "id\tMMER:s-e\t...\t\n" ; one line per record, any order
                let mut lines: Vec<(usize, String)> = vec![];
                for l in text.split('\n') {
                    if l.is_empty() { continue; }
                    let mut f: Vec<&str> = l.split('\t').collect();
                    if f.last() == Some(&"") { f.pop(); }
                    let id = f[0];
                    let runs: Vec<String> = f[1..].iter().map(|r| r.replace('-', ":")).collect();
                    lines.push((rec_index(id), format!("{}={}", id, runs.join("+"))));
                }
                lines.sort();
                lines.into_iter().map(|x| x.1).collect::<Vec<_>>().join(";")
            } else {
                // KEY\t[("r1", 0, 5), ("r2", 3, 9)]
                let mut lines: Vec<(String, String)> = vec![];
                for l in text.split('\n') {
                    if l.is_empty() { continue; }
                    let (key, rest) = l.split_once('\t').unwrap_or((l, ""));
                    let inner = rest.trim_start_matches('[').trim_end_matches(']');
                    let mut es: Vec<(usize, usize, usize, String)> = vec![];
                    for e in inner.split("), (") {
                        let e = e.trim_start_matches('(').trim_end_matches(')');
                        if e.is_empty() { continue; }
                        let f: Vec<&str> = e.split(", ").collect();
                        let id = f[0].trim_matches('"');
                        let (s, en): (usize, usize) = (f[1].parse().unwrap_or(usize::MAX), f[2].parse().unwrap_or(usize::MAX));
                        es.push((rec_index(id), s, en, format!("{}:{}:{}", id, s, en)));
                    }
                    es.sort();
                    lines.push((key.to_string(), format!("{}={}", key, es.into_iter().map(|x| x.3).collect::<Vec<_>>().join("+"))));
                }
                lines.sort();
                lines.into_iter().map(|x| x.1).collect::<Vec<_>>().join(";")
            }
}

/// one invocation of the kmertools binary; inputs are written under `d`, the output location is `out`
fn cli_run(sub: &str, settings: &str, container: &str, recs_t: &str, alt_t: &str, d: &str, out: &str) -> String {
            // cli <subcommand> <settings k=v,...> <container> <recs> <alt recs> : the binary built from the working tree
            let bin = std::env::var("KT_CLI").unwrap_or_default();
            if bin.is_empty() { return "NO-CLI-BINARY".into(); }
            let recs = unhex_list(recs_t);
            let alt = unhex_list(alt_t);
            let st: Vec<(String, String)> = if settings == "_" { vec![] } else {
                settings.split(',').map(|e| { let mut it = e.splitn(2, '='); (it.next().unwrap().to_string(), it.next().unwrap_or("").to_string()) }).collect() };
            let get = |k: &str| st.iter().find(|(a, _)| a == k).map(|(_, v)| v.clone());
            let long = settings.len() % 2 == 0;     // alternate between short and long option names
            let inp = serialise(&recs, container, 60, d, "in");
            let stdin_input = get("in").as_deref() == Some("-");
            
            let mut argv: Vec<String> = vec![];
            let opt = |argv: &mut Vec<String>, s: &str, l: &str, v: Option<String>| { if let Some(v) = v { argv.push(if long { l.to_string() } else { s.to_string() }); argv.push(v); } };
            let flag = |argv: &mut Vec<String>, s: &str, l: &str, on: bool| { if on { argv.push(if long { l.to_string() } else { s.to_string() }); } };
            let on = |k: &str| get(k).as_deref() == Some("1");
            match sub {
                "oligo" => {
                    argv.extend(["comp", "oligo"].map(String::from));
                    opt(&mut argv, "-i", "--input", Some(if stdin_input { "-".into() } else { inp.clone() }));
                    opt(&mut argv, "-o", "--output", Some(out.to_string()));
                    opt(&mut argv, "-k", "--k-size", get("k")); opt(&mut argv, "-p", "--preset", get("p")); opt(&mut argv, "-t", "--threads", get("t"));
                    flag(&mut argv, "-c", "--counts", on("c")); flag(&mut argv, "-H", "--header", on("H"));
                }
                "cgr" => {
                    argv.extend(["comp", "cgr"].map(String::from));
                    opt(&mut argv, "-i", "--input", Some(if stdin_input { "-".into() } else { inp.clone() })); opt(&mut argv, "-o", "--output", Some(out.to_string()));
                    opt(&mut argv, "-k", "--k-size", get("k")); opt(&mut argv, "-v", "--vec-size", get("v")); opt(&mut argv, "-t", "--threads", get("t"));
                    flag(&mut argv, "-c", "--counts", on("c"));
                }
                "cov" => {
                    argv.push("cov".into());
                    opt(&mut argv, "-i", "--input", Some(inp.clone())); opt(&mut argv, "-o", "--output", Some(out.to_string()));
                    opt(&mut argv, "-k", "--k-size", get("k")); opt(&mut argv, "-s", "--bin-size", get("s")); opt(&mut argv, "-c", "--bin-count", get("b"));
                    opt(&mut argv, "-m", "--memory", get("m")); opt(&mut argv, "-p", "--preset", get("p")); opt(&mut argv, "-t", "--threads", get("t"));
                    if on("a") { let ap = serialise(&alt, "fa", 0, d, "alt"); opt(&mut argv, "-a", "--alt-input", Some(ap)); }
                    if on("c") { argv.push("--counts".into()); }
                }
                "min" => {
                    argv.push("min".into());
                    opt(&mut argv, "-i", "--input", Some(inp.clone())); opt(&mut argv, "-o", "--output", Some(out.to_string()));
                    opt(&mut argv, "-m", "--m-size", get("m")); opt(&mut argv, "-w", "--w-size", get("w")); opt(&mut argv, "-p", "--preset", get("p")); opt(&mut argv, "-t", "--threads", get("t"));
                }
                "ctr" => {
                    argv.push("ctr".into());
                    opt(&mut argv, "-i", "--input", Some(inp.clone())); opt(&mut argv, "-o", "--output", Some(out.to_string()));
                    opt(&mut argv, "-k", "--k-size", get("k")); opt(&mut argv, "-m", "--memory", get("m")); opt(&mut argv, "-t", "--threads", get("t"));
                    flag(&mut argv, "-a", "--acgt", on("a"));
                }
                _ => return "UNKNOWN-SUBCOMMAND".into(),
            }
            let mut cmd = std::process::Command::new(&bin);
            cmd.args(&argv).stderr(std::process::Stdio::piped()).stdout(std::process::Stdio::piped());
            if stdin_input { cmd.stdin(std::fs::File::open(&inp).unwrap()); } else { cmd.stdin(std::process::Stdio::null()); }
            let res = match cmd.output() { Ok(r) => r, Err(e) => return format!("SPAWN-FAILED {}", e) };
            let code = res.status.code().unwrap_or(-1);
            let exists = std::path::Path::new(out).exists();
            let read = |f: &str| std::fs::read(f).ok();
            let text = |f: &str| String::from_utf8_lossy(&read(f).unwrap_or_default()).to_string();
            let payload = if !exists { "NOOUT".to_string() } else {
                match sub {
                    "oligo" => hex(&read(out).unwrap_or_default()),
                    "cgr" => if get("k").is_some() { parse_points(&text(out), 3) } else { parse_points(&text(out), 2) },
                    "cov" => match read(&format!("{}/kmers.vectors", out)) { Some(b) => format!("{}{}", hex(&b), leftover(out)), None => "NOVECTORS".into() },
                    "min" => canon_min(get("p").as_deref() != Some("m2s"), &text(out)),
                    "ctr" => match read(&format!("{}/kmers.counts", out)) { Some(b) => format!("{}{}", canon_counts(on("a"), &String::from_utf8_lossy(&b)), leftover(out)), None => "NOCOUNTS".into() },
                    _ => "?".into(),
                }
            };
            // whole-sequence CGR may refuse a record with a non-nucleotide byte (it does so by panicking)
            if sub == "cgr" && get("k").is_none() && code != 0 && code != 2 { return format!("exit=0|{}", refusal(out, &recs)); }
            format!("exit={}|{}", code, payload)
}

fn rec_index(id: &str) -> usize { id.trim_start_matches('r').parse().unwrap_or(usize::MAX) }

pub fn exec(p: &[&str], scratch: &str) -> String {
    match p[0] {
        "ofile" => {
            // ofile k norm hdr delim threads mem writer container wrap recs
            let d = fresh(scratch);
            let recs = unhex_list(p[10]);
            let inp = serialise(&recs, p[8], p[9].parse().unwrap(), &d, "in");
            let out = format!("{}/out.vec", d);
            let mut c = composition::oligo::OligoComputer::new(inp, out.clone(), p[1].parse().unwrap());
            let (norm, hdr, delim) = (p[2] == "1", p[3] == "1", String::from_utf8(unhex(p[4])).unwrap());
            let t: usize = p[5].parse().unwrap();
            // the settings are what the LAST call of each setter said, in whatever order and however often the setters
            // were called, and an object can be run more than once: the way the calls are made varies with the case
            let variant = variant_of(p, 5);
            match variant {
                1 => { c.set_max_memory(p[6].parse().unwrap()); if t > 0 { c.set_threads(t); } c.set_delim(delim.clone()); c.set_header(hdr); c.set_norm(norm); }
                2 => {
                    c.set_header(!hdr); c.set_delim("#@#".to_string()); c.set_norm(!norm); if t > 0 { c.set_threads(3); } c.set_max_memory(7);
                    c.set_norm(norm); c.set_header(hdr); c.set_delim(delim.clone()); if t > 0 { c.set_threads(t); }
                    c.set_max_memory(p[6].parse().unwrap());
                }
                _ => { c.set_norm(norm); c.set_header(hdr); c.set_delim(delim.clone()); if t > 0 { c.set_threads(t); } c.set_max_memory(p[6].parse().unwrap()); }
            }
            let run = |c: &composition::oligo::OligoComputer| match p[7] { "mmap" => c.verif_vectorise_mmap(), "batch" => c.verif_vectorise_batch(), _ => c.vectorise() };
            let plain = PLAIN.load(std::sync::atomic::Ordering::SeqCst);
            if variant == 4 || (plain && p.iter().map(|x| x.len()).sum::<usize>() % 2 == 1) {
                // the same object wrote the same output before, with a delimiter of another length (another row length and
                // header length): the run that counts must remember nothing of it (under `hooks` the events of the
                // earlier run are discarded, the log describes the run that counts)
                c.set_delim(if delim.len() == 1 { "#@#".to_string() } else { ";".to_string() });
                if let Err(e) = run(&c) { return format!("ERR earlier run {}", e); }
                if plain { ktio::verif::take_log(); }
                c.set_delim(delim.clone());
            }
            if let Err(e) = run(&c) { return format!("ERR {}", e); }
            if variant == 3 { if let Err(e) = run(&c) { return format!("ERR second run {}", e); } }
            hex(&std::fs::read(&out).unwrap())
        }
        "cgrfile" => {
            // cgrfile S threads mem container recs
            let d = fresh(scratch);
            let recs = unhex_list(p[5]);
            let inp = serialise(&recs, p[4], 60, &d, "in");
            let out = format!("{}/out.cgr", d);
            let mut c = composition::cgr::CgrComputer::new(inp, out.clone(), p[1].parse().unwrap());
            let t: usize = p[2].parse().unwrap(); if t > 0 { c.set_threads(t); }
            c.verif_set_max_memory(p[3].parse().unwrap());
            let twice = variant_of(p, 3) == 0;
            let r = std::panic::catch_unwind(std::panic::AssertUnwindSafe(|| { if twice { let _ = c.vectorise(); } c.vectorise() }));
            match r { Ok(Ok(())) => parse_points(&String::from_utf8_lossy(&std::fs::read(&out).unwrap()), 2), _ => refusal(&out, &recs) }
        }
        "ocgrfile" => {
            // ocgrfile k S norm threads mem container recs
            let d = fresh(scratch);
            let recs = unhex_list(p[7]);
            let inp = serialise(&recs, p[6], 60, &d, "in");
            let out = format!("{}/out.cgr", d);
            let mut c = composition::oligocgr::OligoCgrComputer::new(inp, out.clone(), p[1].parse().unwrap(), p[2].parse().unwrap());
            let variant = variant_of(p, 3);
            if variant == 1 { c.set_norm(p[3] != "1"); }
            c.set_norm(p[3] == "1");
            let t: usize = p[4].parse().unwrap(); if t > 0 { c.set_threads(t); }
            c.verif_set_max_memory(p[5].parse().unwrap());
            if variant == 2 { let _ = c.vectorise(); }
            match c.vectorise() { Ok(()) => parse_points(&String::from_utf8_lossy(&std::fs::read(&out).unwrap()), 3), Err(e) => format!("ERR {}", e) }
        }
        "ctr" => {
            // ctr k threads memf acgt container recs
            let d = fresh(scratch);
            let recs = unhex_list(p[6]);
            let inp = serialise(&recs, p[5], 60, &d, "in");
            let od = format!("{}/out", d); std::fs::create_dir_all(&od).unwrap();
            let mut c = counter::CountComputer::new(inp, od.clone(), p[1].parse().unwrap());
            let t: usize = p[2].parse().unwrap(); if t > 0 { c.set_threads(t); }
            c.set_max_memory(p[3].parse().unwrap());
            c.set_acgt_output(p[4] == "1");
            c.count(); c.merge(true);
            let text = String::from_utf8(std::fs::read(format!("{}/kmers.counts", od)).unwrap()).unwrap();
            format!("{}{}", canon_counts(p[4] == "1", &text), leftover(&od))
        }
        "cov" => {
            // cov k bs bc norm delim threads flush container recs altrecs   (altrecs "=" : same file)
            let d = fresh(scratch);
            let recs = unhex_list(p[9]);
            let inp = serialise(&recs, p[8], 60, &d, "in");
            let od = format!("{}/out", d); std::fs::create_dir_all(&od).unwrap();
            let mut c = coverage::CovComputer::new(inp.clone(), od.clone(), p[1].parse().unwrap(), p[2].parse().unwrap(), p[3].parse().unwrap());
            let variant = variant_of(p, 3);
            if variant == 1 { c.set_delim("#@#".to_string()); c.set_norm(p[4] != "1"); }
            c.set_norm(p[4] == "1");
            c.set_delim(String::from_utf8(unhex(p[5])).unwrap());
            let t: usize = p[6].parse().unwrap(); if t > 0 { c.set_threads(t); }
            // the row writer flushes when total >= (memory as u64) * 2^30: below 1 GB -> after every record;
            // the same ceiling drives the counter: 5e-8 GB makes it count in many chunks and partitions
            c.set_max_memory(if p[7] == "1" { if recs.len() % 2 == 0 { 0.5 } else { 0.00000005 } } else { 6.0 });
            let alt = unhex_list(p[10]);
            if variant == 2 {
                // the same object was used before, with another counting input: table and vectors are recomputed
                let other: Vec<Vec<u8>> = vec![b"GATTACAGATTACAGGGGGGGGGGGGGGGGGGGGGGGGGGGGGGGGGGGGGGGGGGGGGATTACA".to_vec(), recs.concat()];
                c.set_kmer_path(serialise(&other, "fa", 0, &d, "other"));
                c.build_table().unwrap();
                c.compute_coverages();
                c.set_kmer_path(inp.clone());
            }
            if alt != recs { c.set_kmer_path(serialise(&alt, "fa", 0, &d, "alt")); }
            c.build_table().unwrap();
            c.compute_coverages();
            if variant == 2 { c.compute_coverages(); }          // the vectors file is recomputed from the same table
            format!("{}{}", hex(&std::fs::read(format!("{}/kmers.vectors", od)).unwrap()), leftover(&od))
        }
        "cli" => {
            let d = fresh(scratch);
            cli_run(p[1], p[2], p[3], p[4], p[5], &d, &format!("{}/out", d))
        }
        "hist" => {
            // hist <plant> (<sub> <settings> <container> <recs> <alt>)+ : several runs sharing ONE output location;
            // plant=1 leaves stale temp chunk files of a bigger earlier run in the directory before the last run.
            // The result is that of the last run and must equal the same run alone in a fresh location.
            let d = fresh(scratch);
            let out = format!("{}/out", d);
            let runs: Vec<&[&str]> = p[2..].chunks(5).collect();
            let mut last = String::new();
            for (i, r) in runs.iter().enumerate() {
                if r.len() < 5 { return "BAD-HISTORY".into(); }
                let di = format!("{}/run{}", d, i); std::fs::create_dir_all(&di).unwrap();
                if i + 1 == runs.len() && p[1] == "1" && (r[0] == "ctr" || r[0] == "cov") {
                    std::fs::create_dir_all(&out).unwrap();
                    for part in 0..20 { for chunk in 0..4 {
                        std::fs::write(format!("{}/temp_kmers.part_{}_chunk_{}", out, part, chunk), format!("{}\t7\n{}\t3\n", part, part + 100)).unwrap();
                    } }
                    std::fs::write(format!("{}/kmers.counts", out), "1\t1\n2\t2\n").unwrap();
                    std::fs::write(format!("{}/kmers.vectors", out), "stale stale stale\n".repeat(50)).unwrap();
                }
                last = cli_run(r[0], r[1], r[2], r[3], r[4], &di, &out);
                // a refused run must leave the previous result in place: compare only accepted last runs
            }
            // stale planted chunk files are not this run's temp files: they may stay, but must not be merged
            match last.find("|leftover=") { Some(ix) if p[1] == "1" => last[..ix].to_string(), _ => last }
        }
        "ctrfs" => {
            // ctrfs k limit plant recs : the counter's files.  One worker; the directory may hold the files of an
            // earlier, bigger run; result = partitions,chunks | listing after count() | listing after merge(true)
            let d = fresh(scratch);
            let recs = unhex_list(p[4]);
            let inp = serialise(&recs, "fa", 0, &d, "in");
            let od = format!("{}/out", d); std::fs::create_dir_all(&od).unwrap();
            let limit: u64 = p[2].parse().unwrap();
            let mem = 8.0 * (limit as f64 + 0.5) / 1_000_000_000_f64;
            if (1_000_000_000_f64 * mem / 8.0) as u64 != limit { return "BAD-LIMIT".into(); }
            if p[3] == "1" { plant_stale(&od); }
            if p[3] == "2" {
                // a real earlier run of the library into the same directory that keeps its temp files (merge(false)):
                // one worker, one chunk, another input
                let other: Vec<Vec<u8>> = recs.iter().rev().map(|r| { let mut x = r.clone(); x.extend_from_slice(b"GATTACAGATTACA"); x }).chain(std::iter::once(b"ACGTACGTACGTACGTTTTTTTTTTTTTTTTT".to_vec())).collect();
                let d0 = format!("{}/earlier", d); std::fs::create_dir_all(&d0).unwrap();
                let inp0 = serialise(&other, "fa", 0, &d0, "in");
                let mut c0 = counter::CountComputer::new(inp0, od.clone(), p[1].parse().unwrap());
                c0.set_threads(1); c0.set_max_memory(6.0); c0.count(); c0.merge(false);
            }
            let mut c = counter::CountComputer::new(inp, od.clone(), p[1].parse().unwrap());
            c.set_threads(1);
            c.set_max_memory(mem);
            c.count();
            let (chunks, parts) = c.verif_chunks_parts();
            let a = dir_listing(&od);
            c.merge(true);
            if p[3] == "2" {
                let b = dir_listing(&od);
                let counts = b.split(';').find(|x| x.starts_with("counts=")).unwrap_or("").to_string();
                return format!("{},{}||{}", parts, chunks, counts);
            }
            format!("{},{}|{}|{}", parts, chunks, a, dir_listing(&od))
        }
        "covfs" => {
            // covfs k bs bc norm limit plant recs : the files of `cov` (counting input = the same file), one worker
            let d = fresh(scratch);
            let recs = unhex_list(p[7]);
            let inp = serialise(&recs, "fa", 0, &d, "in");
            let od = format!("{}/out", d); std::fs::create_dir_all(&od).unwrap();
            let limit: u64 = p[5].parse().unwrap();
            let mem = 8.0 * (limit as f64 + 0.5) / 1_000_000_000_f64;
            if (1_000_000_000_f64 * mem / 8.0) as u64 != limit { return "BAD-LIMIT".into(); }
            if p[6] == "1" { plant_stale(&od); }
            let mut c = coverage::CovComputer::new(inp.clone(), od.clone(), p[1].parse().unwrap(), p[2].parse().unwrap(), p[3].parse().unwrap());
            c.set_norm(p[4] == "1");
            c.set_delim(",".to_string());
            c.set_threads(1);
            c.set_max_memory(mem);
            c.build_table().unwrap();
            c.compute_coverages();
            // partition and chunk counts are those of the counter with the same settings
            let listing = dir_listing(&od);
            let d2 = format!("{}/second", d); std::fs::create_dir_all(&d2).unwrap();
            let inp2 = serialise(&recs, "fa", 0, &d2, "in");
            let od2 = format!("{}/out", d2); std::fs::create_dir_all(&od2).unwrap();
            let mut k2 = counter::CountComputer::new(inp2, od2, p[1].parse().unwrap());
            k2.set_threads(1); k2.set_max_memory(mem); k2.count();
            let (chunks, parts) = k2.verif_chunks_parts();
            format!("{},{}|{}", parts, chunks, listing)
        }
        "obig" => {
            // obig k kind len : one record of `len` clean bases (a = poly-A, ac = AC repeat, lcg = pseudo-random) through the
            // file API in counts mode; the entries must sum to the number of windows (and poly-A has a single column)
            let d = fresh(scratch);
            let k: usize = p[1].parse().unwrap(); let len: usize = p[3].parse().unwrap();
            let mut x: u64 = 88172645463325252;
            let seq: Vec<u8> = (0..len).map(|i| match p[2] { "a" => b'A', "ac" => b"AC"[i % 2], _ => { x ^= x << 13; x ^= x >> 7; x ^= x << 17; b"ACGT"[(x >> 33) as usize % 4] } }).collect();
            let inp = serialise(&[b"ACGTTGCA".to_vec(), seq, b"TTGACA".to_vec()], "fa", 0, &d, "in");
            let out = format!("{}/out.vec", d);
            let mut c = composition::oligo::OligoComputer::new(inp, out.clone(), k);
            c.set_norm(false); c.set_delim(",".to_string()); c.set_threads(2);
            if let Err(e) = c.vectorise() { return format!("ERR {}", e); }
            let text = String::from_utf8_lossy(&std::fs::read(&out).unwrap()).to_string();
            let rows: Vec<&str> = text.lines().collect();
            if rows.len() != 3 { return format!("ROWS {}", rows.len()); }
            let vals: Vec<f64> = rows[1].split(',').map(|v| v.parse::<f64>().unwrap_or(f64::NAN)).collect();
            let sum: f64 = vals.iter().sum();
            let windows = (len + 1).saturating_sub(k) as f64;
            if sum != windows { return format!("SUM-MISMATCH entries sum to {} for {} windows", sum, windows); }
            if p[2] == "a" && vals[0] != windows { return format!("COLUMN-MISMATCH poly-A column holds {} of {} windows", vals[0], windows); }
            "OK".into()
        }
        "readc" => {
            // readc <container> <recs> : the records as the reader and the statistics pass deliver them from a container
            let d = fresh(scratch);
            let recs = unhex_list(p[2]);
            let path = serialise(&recs, p[1], 60, &d, "in");
            let format = match ktio::seq::SeqFormat::get(&path) { Some(f) => f, None => return "none".into() };
            let it = ktio::seq::Sequences::new(format, ktio::seq::get_reader(&path).unwrap()).unwrap();
            let show = |r: &ktio::seq::Sequence| format!("{}:{}:{}", r.n, r.id, hex(&r.seq));
            let items: Vec<String> = it.map(|r| show(&r)).collect();
            if let Some(e) = reader_probe(&path, format, &items, &show) { return format!("PROTOCOL {}", e); }
            let st = ktio::seq::Sequences::seq_stats(format, ktio::seq::get_reader(&path).unwrap());
            format!("{}|{},{}", items.join(";"), st.seq_count, st.total_length)
        }
        "read" => {
            // read <file name> <expected format> <members> <expected records>
            // a name ending in .gz is written as one gzip member per given member (some stored, some deflated)
            let d = fresh(scratch);
            let members = unhex_list(p[3]);
            let path = format!("{}/{}", d, p[1]);
            let bytes = if p[1].ends_with(".gz") {
                let mut out = vec![];
                for (i, m) in members.iter().enumerate() {
                    let level = if (i + m.len()) % 3 == 0 { Compression::none() } else { Compression::default() };
                    out.extend(gz(&[m.clone()], level));
                }
                out
            } else { members.concat() };
            std::fs::write(&path, bytes).unwrap();
            let format = match ktio::seq::SeqFormat::get(&path) { Some(f) => f, None => return "none".into() };
            let name = match format { ktio::seq::SeqFormat::Fasta => "fa", ktio::seq::SeqFormat::Fastq => "fq" };
            let recs = ktio::seq::Sequences::new(format, ktio::seq::get_reader(&path).unwrap()).unwrap();
            let show = |r: &ktio::seq::Sequence| format!("{}:{}:{}", r.n, hex(r.id.as_bytes()), hex(&r.seq));
            let items: Vec<String> = recs.map(|r| show(&r)).collect();
            if let Some(e) = reader_probe(&path, format, &items, &show) { return format!("PROTOCOL {}", e); }
            let st = ktio::seq::Sequences::seq_stats(format, ktio::seq::get_reader(&path).unwrap());
            format!("{}|{}|{},{}", name, items.join(";"), st.seq_count, st.total_length)
        }
        "s2m" | "m2s" => {
            // s2m w m threads container recs
            let d = fresh(scratch);
            let recs = unhex_list(p[5]);
            let inp = serialise(&recs, p[4], 60, &d, "in");
            let out = format!("{}/out.min", d);
            let (w, m, t): (usize, usize, usize) = (p[1].parse().unwrap(), p[2].parse().unwrap(), p[3].parse().unwrap());
            if p[0] == "s2m" { misc::minimisers::seq_to_min(w, m, &inp, &out, t); } else { misc::minimisers::bin_sequences(w, m, &inp, &out, t); }
            let text = String::from_utf8(std::fs::read(&out).unwrap()).unwrap();
            let c = canon_min(p[0] == "s2m", &text);
            if p[4] == "fadup" { halve_pairs(p[0] == "s2m", &c) } else { c }
        }
        _ => crate::sched::exec(p, scratch),
    }
}
