//! File-level operations: the harness serialises the records of a case into the requested container,
//! runs the library routine on that file and returns the output in canonical form.
use crate::{hex, unhex, unhex_list};
use flate2::write::GzEncoder;
use flate2::Compression;
use std::io::Write;

fn gz(parts: &[Vec<u8>], level: Compression) -> Vec<u8> {
    let mut out = vec![];
    for p in parts {
        let mut e = GzEncoder::new(Vec::new(), level);
        e.write_all(p).unwrap();
        out.extend(e.finish().unwrap());
    }
    out
}

/// text of one record in FASTA (wrap = 0: single line) or FASTQ
fn record_text(i: usize, seq: &[u8], fastq: bool, wrap: usize, eol: &str) -> Vec<u8> {
    let mut t = vec![];
    let desc = if i % 3 == 1 { " some description" } else { "" };
    if fastq {
        t.extend(format!("@r{}{}{}", i, desc, eol).bytes());
        t.extend(seq); t.extend(eol.bytes());
        t.extend(format!("+{}", eol).bytes());
        t.extend(std::iter::repeat(b'I').take(seq.len())); t.extend(eol.bytes());
    } else {
        t.extend(format!(">r{}{}{}", i, desc, eol).bytes());
        if wrap == 0 { t.extend(seq); t.extend(eol.bytes()); }
        else { for c in seq.chunks(wrap) { t.extend(c); t.extend(eol.bytes()); } }
    }
    t
}

/// container: fa | faw (wrapped) | facrlf | fq | fagz | fqgz | fagzm (several members) | fagz0 (stored)
pub fn serialise(recs: &[Vec<u8>], container: &str, wrap: usize, dir: &str, stem: &str) -> String {
    let fastq = container.starts_with("fq");
    let eol = if container == "facrlf" { "\r\n" } else { "\n" };
    let w = if container == "faw" || container == "facrlf" { wrap.max(1) } else { 0 };
    let texts: Vec<Vec<u8>> = recs.iter().enumerate().map(|(i, s)| record_text(i, s, fastq, w, eol)).collect();
    let ext = if fastq { "fq" } else if container == "faw" { "fasta" } else if container == "facrlf" { "fna" } else { "fa" };
    let (bytes, name) = match container {
        "fagz" | "fqgz" => (gz(&[texts.concat()], Compression::default()), format!("{}.{}.gz", stem, ext)),
        "fagz0" => (gz(&[texts.concat()], Compression::none()), format!("{}.{}.gz", stem, ext)),
        "fagzm" => {
            // one member per 1..3 records, plus an empty final member as bgzip writes
            let mut parts: Vec<Vec<u8>> = vec![];
            for (i, t) in texts.iter().enumerate() {
                if i % 3 == 0 || parts.is_empty() { parts.push(vec![]); }
                parts.last_mut().unwrap().extend(t);
            }
            parts.push(vec![]);
            (gz(&parts, Compression::default()), format!("{}.{}.gz", stem, ext))
        }
        _ => (texts.concat(), format!("{}.{}", stem, ext)),
    };
    let path = format!("{}/{}", dir, name);
    std::fs::write(&path, bytes).unwrap();
    path
}

fn fresh(scratch: &str) -> String {
    let d = format!("{}/case", scratch);
    let _ = std::fs::remove_dir_all(&d);
    std::fs::create_dir_all(&d).unwrap();
    d
}

fn parse_points(text: &str, arity: usize) -> String {
    // rows "(a,b) (a,b)\n" or "(a,b,c) ..."; numbers are parsed back and printed as bit patterns
    let mut rows = vec![];
    for line in text.split('\n') {
        let mut items = vec![];
        for it in line.split(' ').filter(|x| !x.is_empty()) {
            let inner = it.trim_start_matches('(').trim_end_matches(')');
            let nums: Vec<String> = inner.split(',').map(|x| x.parse::<f64>().map(|v| v.to_bits().to_string()).unwrap_or("?".into())).collect();
            if nums.len() != arity { items.push("?".into()); } else { items.push(nums.join(":")); }
        }
        rows.push(items.join(","));
    }
    if text.ends_with('\n') { rows.pop(); } else if !text.is_empty() { rows.push("NO-FINAL-NEWLINE".into()); }
    if text.is_empty() { rows.clear(); }
    rows.join(";")
}

fn leftover(dir: &str) -> String {
    let n = std::fs::read_dir(dir).unwrap().filter(|e| e.as_ref().unwrap().file_name().to_string_lossy().starts_with("temp_kmers")).count();
    if n == 0 { "".into() } else { format!("|leftover={}", n) }
}

fn rec_index(id: &str) -> usize { id.trim_start_matches('r').parse().unwrap_or(usize::MAX) }

pub fn exec(p: &[&str], scratch: &str) -> String {
    match p[0] {
        "ofile" => {
            // ofile k norm hdr delim threads mem writer container wrap recs
            let d = fresh(scratch);
            let recs = unhex_list(p[10]);
            let inp = serialise(&recs, p[8], p[9].parse().unwrap(), &d, "in");
            let out = format!("{}/out.vec", d);
            let mut c = composition::oligo::OligoComputer::new(inp, out.clone(), p[1].parse().unwrap());
            c.set_norm(p[2] == "1"); c.set_header(p[3] == "1");
            c.set_delim(String::from_utf8(unhex(p[4])).unwrap());
            let t: usize = p[5].parse().unwrap(); if t > 0 { c.set_threads(t); }
            c.set_max_memory(p[6].parse().unwrap());
            let r = match p[7] { "mmap" => c.verif_vectorise_mmap(), "batch" => c.verif_vectorise_batch(), _ => c.vectorise() };
            if let Err(e) = r { return format!("ERR {}", e); }
            hex(&std::fs::read(&out).unwrap())
        }
        "cgrfile" => {
            // cgrfile S threads mem container recs
            let d = fresh(scratch);
            let recs = unhex_list(p[5]);
            let inp = serialise(&recs, p[4], 60, &d, "in");
            let out = format!("{}/out.cgr", d);
            let mut c = composition::cgr::CgrComputer::new(inp, out.clone(), p[1].parse().unwrap());
            let t: usize = p[2].parse().unwrap(); if t > 0 { c.set_threads(t); }
            c.verif_set_max_memory(p[3].parse().unwrap());
            let r = std::panic::catch_unwind(std::panic::AssertUnwindSafe(|| c.vectorise()));
            match r { Ok(Ok(())) => parse_points(&String::from_utf8_lossy(&std::fs::read(&out).unwrap()), 2), _ => "ERR".into() }
        }
        "ocgrfile" => {
            // ocgrfile k S norm threads mem container recs
            let d = fresh(scratch);
            let recs = unhex_list(p[7]);
            let inp = serialise(&recs, p[6], 60, &d, "in");
            let out = format!("{}/out.cgr", d);
            let mut c = composition::oligocgr::OligoCgrComputer::new(inp, out.clone(), p[1].parse().unwrap(), p[2].parse().unwrap());
            c.set_norm(p[3] == "1");
            let t: usize = p[4].parse().unwrap(); if t > 0 { c.set_threads(t); }
            c.verif_set_max_memory(p[5].parse().unwrap());
            match c.vectorise() { Ok(()) => parse_points(&String::from_utf8_lossy(&std::fs::read(&out).unwrap()), 3), Err(e) => format!("ERR {}", e) }
        }
        "ctr" => {
            // ctr k threads memf acgt container recs
            let d = fresh(scratch);
            let recs = unhex_list(p[6]);
            let inp = serialise(&recs, p[5], 60, &d, "in");
            let od = format!("{}/out", d); std::fs::create_dir_all(&od).unwrap();
            let mut c = counter::CountComputer::new(inp, od.clone(), p[1].parse().unwrap());
            let t: usize = p[2].parse().unwrap(); if t > 0 { c.set_threads(t); }
            c.set_max_memory(p[3].parse().unwrap());
            c.set_acgt_output(p[4] == "1");
            c.count(); c.merge(true);
            let text = String::from_utf8(std::fs::read(format!("{}/kmers.counts", od)).unwrap()).unwrap();
            let mut lines: Vec<(String, String)> = text.lines().map(|l| { let mut it = l.split('\t'); (it.next().unwrap_or("?").to_string(), it.next().unwrap_or("?").to_string()) }).collect();
            if p[4] == "1" { lines.sort(); } else { lines.sort_by_key(|(k, c)| (k.parse::<u64>().unwrap_or(u64::MAX), c.clone())); }
            format!("{}{}", lines.iter().map(|(k, c)| format!("{}:{}", k, c)).collect::<Vec<_>>().join(","), leftover(&od))
        }
        "cov" => {
            // cov k bs bc norm delim threads flush container recs altrecs   (altrecs "=" : same file)
            let d = fresh(scratch);
            let recs = unhex_list(p[9]);
            let inp = serialise(&recs, p[8], 60, &d, "in");
            let od = format!("{}/out", d); std::fs::create_dir_all(&od).unwrap();
            let mut c = coverage::CovComputer::new(inp.clone(), od.clone(), p[1].parse().unwrap(), p[2].parse().unwrap(), p[3].parse().unwrap());
            c.set_norm(p[4] == "1");
            c.set_delim(String::from_utf8(unhex(p[5])).unwrap());
            let t: usize = p[6].parse().unwrap(); if t > 0 { c.set_threads(t); }
            // the row writer flushes when total >= (memory as u64) * 2^30: 0.5 -> after every record
            c.set_max_memory(if p[7] == "1" { 0.5 } else { 6.0 });
            let alt = unhex_list(p[10]);
            if alt != recs { c.set_kmer_path(serialise(&alt, "fa", 0, &d, "alt")); }
            c.build_table().unwrap();
            c.compute_coverages();
            format!("{}{}", hex(&std::fs::read(format!("{}/kmers.vectors", od)).unwrap()), leftover(&od))
        }
        "read" => {
            // read <file name> <expected format> <members> <expected records>
            // a name ending in .gz is written as one gzip member per given member (some stored, some deflated)
            let d = fresh(scratch);
            let members = unhex_list(p[3]);
            let path = format!("{}/{}", d, p[1]);
            let bytes = if p[1].ends_with(".gz") {
                let mut out = vec![];
                for (i, m) in members.iter().enumerate() {
                    let level = if (i + m.len()) % 3 == 0 { Compression::none() } else { Compression::default() };
                    out.extend(gz(&[m.clone()], level));
                }
                out
            } else { members.concat() };
            std::fs::write(&path, bytes).unwrap();
            let format = match ktio::seq::SeqFormat::get(&path) { Some(f) => f, None => return "none".into() };
            let name = match format { ktio::seq::SeqFormat::Fasta => "fa", ktio::seq::SeqFormat::Fastq => "fq" };
            let recs = ktio::seq::Sequences::new(format, ktio::seq::get_reader(&path).unwrap()).unwrap();
            let items: Vec<String> = recs.map(|r| format!("{}:{}:{}", r.n, hex(r.id.as_bytes()), hex(&r.seq))).collect();
            let st = ktio::seq::Sequences::seq_stats(format, ktio::seq::get_reader(&path).unwrap());
            format!("{}|{}|{},{}", name, items.join(";"), st.seq_count, st.total_length)
        }
        "s2m" | "m2s" => {
            // s2m w m threads container recs
            let d = fresh(scratch);
            let recs = unhex_list(p[5]);
            let inp = serialise(&recs, p[4], 60, &d, "in");
            let out = format!("{}/out.min", d);
            let (w, m, t): (usize, usize, usize) = (p[1].parse().unwrap(), p[2].parse().unwrap(), p[3].parse().unwrap());
            if p[0] == "s2m" { misc::minimisers::seq_to_min(w, m, &inp, &out, t); } else { misc::minimisers::bin_sequences(w, m, &inp, &out, t); }
            let text = String::from_utf8(std::fs::read(&out).unwrap()).unwrap();
            if p[0] == "s2m" {
                // "id\tMMER:s-e\t...\t\n" ; one line per record, any order
                let mut lines: Vec<(usize, String)> = vec![];
                for l in text.split('\n') {
                    if l.is_empty() { continue; }
                    let mut f: Vec<&str> = l.split('\t').collect();
                    if f.last() == Some(&"") { f.pop(); }
                    let id = f[0];
                    let runs: Vec<String> = f[1..].iter().map(|r| r.replace('-', ":")).collect();
                    lines.push((rec_index(id), format!("{}={}", id, runs.join("+"))));
                }
                lines.sort();
                lines.into_iter().map(|x| x.1).collect::<Vec<_>>().join(";")
            } else {
                // KEY\t[("r1", 0, 5), ("r2", 3, 9)]
                let mut lines: Vec<(String, String)> = vec![];
                for l in text.split('\n') {
                    if l.is_empty() { continue; }
                    let (key, rest) = l.split_once('\t').unwrap_or((l, ""));
                    let inner = rest.trim_start_matches('[').trim_end_matches(']');
                    let mut es: Vec<(usize, usize, usize, String)> = vec![];
                    for e in inner.split("), (") {
                        let e = e.trim_start_matches('(').trim_end_matches(')');
                        if e.is_empty() { continue; }
                        let f: Vec<&str> = e.split(", ").collect();
                        let id = f[0].trim_matches('"');
                        let (s, en): (usize, usize) = (f[1].parse().unwrap_or(usize::MAX), f[2].parse().unwrap_or(usize::MAX));
                        es.push((rec_index(id), s, en, format!("{}:{}:{}", id, s, en)));
                    }
                    es.sort();
                    lines.push((key.to_string(), format!("{}={}", key, es.into_iter().map(|x| x.3).collect::<Vec<_>>().join("+"))));
                }
                lines.sort();
                lines.into_iter().map(|x| x.1).collect::<Vec<_>>().join(";")
            }
        }
        _ => crate::sched::exec(p, scratch),
    }
}
