//! File-level operations (readers, writers, counters): filled in per property.
pub fn exec(p: &[&str], _scratch: &str) -> String {
    format!("UNKNOWN-OP {}", p[0])
}
