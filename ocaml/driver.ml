(* I/O glue around the code extracted from Coq (ExtrOcamlBasic only).  All parsing of the case line and all
   rendering of results happens inside the extracted function [Model.dispatch]; this file only converts
   between OCaml strings and Coq byte lists.
   stdin:  one case per line;  stdout: per case two lines, "M <model result>" and "S <spec result>" *)

let rec pos_of_int (n : int) : Model.positive =
  if n = 1 then Model.XH else if n land 1 = 0 then Model.XO (pos_of_int (n lsr 1)) else Model.XI (pos_of_int (n lsr 1))
let n_of_int (n : int) : Model.n = if n = 0 then Model.N0 else Model.Npos (pos_of_int n)
let rec int_of_pos (p : Model.positive) : int = match p with
  | Model.XH -> 1 | Model.XO q -> 2 * int_of_pos q | Model.XI q -> 2 * int_of_pos q + 1
let int_of_n (x : Model.n) : int = match x with Model.N0 -> 0 | Model.Npos p -> int_of_pos p
let bytes_table = Array.init 256 n_of_int
let list_of_string (s : string) : Model.n list = List.init (String.length s) (fun i -> bytes_table.(Char.code s.[i]))
let string_of_list (l : Model.n list) : string =
  let b = Buffer.create 256 in List.iter (fun x -> Buffer.add_char b (Char.chr (int_of_n x land 255))) l; Buffer.contents b

let () =
  try
    while true do
      let line = input_line stdin in
      let (m, s) = try Model.dispatch (list_of_string line) with Stack_overflow -> (list_of_string "STACK", list_of_string "STACK") in
      print_string "M "; print_endline (string_of_list m);
      print_string "S "; print_endline (string_of_list s)
    done
  with End_of_file -> ()
