(* Line-protocol driver around the code extracted from Coq (ExtrOcamlBasic only).
   stdin:  one case per line, "<op> <params...> <hex bytes>"
   stdout: per case two lines, "M <model result>" and "S <spec result>" *)
module ZA = Z
open Model

let rec pos_of_int (n : int) : positive =
  if n = 1 then XH else if n land 1 = 0 then XO (pos_of_int (n lsr 1)) else XI (pos_of_int (n lsr 1))
let n_of_int (n : int) : n = if n = 0 then N0 else Npos (pos_of_int n)
let rec za_of_pos (p : positive) : ZA.t = match p with
  | XH -> ZA.one | XO q -> ZA.shift_left (za_of_pos q) 1 | XI q -> ZA.succ (ZA.shift_left (za_of_pos q) 1)
let str_of_n (x : n) : string = match x with N0 -> "0" | Npos p -> ZA.to_string (za_of_pos p)
let rec nat_of_int (n : int) : nat = if n = 0 then O else S (nat_of_int (n - 1))
let bytes_of_hex (h : string) : n list =
  if h = "-" then [] else
  List.init (String.length h / 2) (fun i -> n_of_int (int_of_string ("0x" ^ String.sub h (2 * i) 2)))
let rec int_of_nat (n : nat) : int = match n with O -> 0 | S m -> 1 + int_of_nat m
let show_runs l = String.concat "," (List.map (fun ((v, a), b) -> Printf.sprintf "%s:%d:%d" (str_of_n v) (int_of_nat a) (int_of_nat b)) l)
let show_pairs l = String.concat "," (List.map (fun (f, r) -> str_of_n f ^ ":" ^ str_of_n r) l)

let () =
  try
    while true do
      let line = input_line stdin in
      match String.split_on_char ' ' line with
      | ["kg"; k; hex] ->
          let k = nat_of_int (int_of_string k) and s = bytes_of_hex hex in
          Printf.printf "M %s\nS %s\n" (show_pairs (m_kg k s)) (show_pairs (s_kg k s))
      | ["mg"; w; m; hex] ->
          let w = nat_of_int (int_of_string w) and m = nat_of_int (int_of_string m) and s = bytes_of_hex hex in
          Printf.printf "M %s\nS %s\n" (show_runs (m_mg w m s)) (show_runs (s_mg w m s))
      | ["first_bad_kmer_table"] ->
          (match first_bad_kmer_table with
           | None -> print_endline "M none\nS none"
           | Some b -> Printf.printf "M %s\nS %s\n" (str_of_n b) (str_of_n b))
      | _ -> print_endline "M ?\nS ?"
    done
  with End_of_file -> ()
